"""C15 / bug 2: with MultitaskGaussianLikelihood(rank > 0) the likelihood is p(y_i | f_i) = N(y_i; f_i, Sigma) with a
FULL inter-task noise covariance Sigma = F F^T + sigma^2 I (that is what likelihood.marginal / the exact GP use), but
expected_log_prob (VariationalELBO) and log_marginal (PredictiveLogLikelihood) only use diag(Sigma).  So
  (1) VariationalELBO / PredictiveLogLikelihood differ from their definition E_q[log p(y_i|f_i)] / log E_q[p(y_i|f_i)];
  (2) N * ELBO exceeds the exact log marginal likelihood of the same kernels / means / noise model.
"""
import math
import sys
import warnings

import torch

import gpytorch
from gpytorch.variational import (
    IndependentMultitaskVariationalStrategy,
    NaturalVariationalDistribution,
    VariationalStrategy,
)

warnings.filterwarnings("ignore")
torch.set_default_dtype(torch.float64)
torch.manual_seed(0)

T, n, m = 2, 10, 10


class MTSVGP(gpytorch.models.ApproximateGP):
    def __init__(self, Z):
        bs = torch.Size([T])
        vd = NaturalVariationalDistribution(Z.size(-2), batch_shape=bs)
        vs = IndependentMultitaskVariationalStrategy(
            VariationalStrategy(self, Z, vd, learn_inducing_locations=False), num_tasks=T
        )
        super().__init__(vs)
        self.mean_module = gpytorch.means.ZeroMean()
        self.covar_module = gpytorch.kernels.ScaleKernel(gpytorch.kernels.RBFKernel(batch_shape=bs), batch_shape=bs)

    def forward(self, x):
        return gpytorch.distributions.MultivariateNormal(self.mean_module(x), self.covar_module(x))


x = torch.linspace(0, 1, n).unsqueeze(-1)
e = 0.5 * torch.randn(n)
y = torch.stack([torch.sin(4 * x.squeeze(-1)) + e, torch.cos(4 * x.squeeze(-1)) - e], -1)  # anti-correlated residuals

model = MTSVGP(x.clone())
lik = gpytorch.likelihoods.MultitaskGaussianLikelihood(num_tasks=T, rank=1)
with torch.no_grad():
    lik.task_noise_covar_factor.copy_(torch.tensor([[0.5], [0.5]]))
    lik.noise = 0.01
    model.covar_module.base_kernel.lengthscale = 0.4
model.train(), lik.train()
Sigma = (lik.task_noise_covar + lik.noise * torch.eye(T)).detach()
print("inter-task noise covariance Sigma =", Sigma.tolist())

# natural-gradient step of size 1 = maximiser over q(u) of the library's objective
mll = gpytorch.mlls.VariationalELBO(lik, model, num_data=n)
opt = gpytorch.optim.NGD(model.variational_parameters(), num_data=n, lr=1.0)
opt.zero_grad()
(-mll(model(x), y)).backward()
opt.step()

with torch.no_grad():
    qf = model(x)
    lib_elbo = mll(qf, y).item()
    lib_pll = gpytorch.mlls.PredictiveLogLikelihood(lik, model, num_data=n)(qf, y).item()
    mean, var = qf.mean, qf.variance  # n x T   (tasks are independent under q)
    kl = model.variational_strategy.kl_divergence().item()
    Si = torch.linalg.inv(Sigma)
    # E_q[log N(y_i; f_i, Sigma)] = log N(y_i; mu_i, Sigma) - 1/2 tr(Sigma^-1 Cov_q(f_i))
    ell = torch.distributions.MultivariateNormal(mean, Sigma).log_prob(y) - 0.5 * (Si.diagonal() * var).sum(-1)
    def_elbo = (ell.sum() / n - kl / n).item()
    # log E_q[N(y_i; f_i, Sigma)] = log N(y_i; mu_i, Sigma + Cov_q(f_i))
    lpl = torch.distributions.MultivariateNormal(mean, Sigma + torch.diag_embed(var)).log_prob(y)
    def_pll = (lpl.sum() / n - kl / n).item()
    # what the library evaluates: only diag(Sigma)
    d = Sigma.diagonal()
    diag_ell = -0.5 * (((y - mean) ** 2 + var) / d + d.log() + math.log(2 * math.pi)).sum(-1)
    diag_elbo = (diag_ell.sum() / n - kl / n).item()

    # exact log marginal likelihood of the same model: y ~ N(0, blockdiag_t(K_t) + I_n (x) Sigma)
    K = model.covar_module(x).to_dense()  # T x n x n
    prior = gpytorch.distributions.MultitaskMultivariateNormal.from_batch_mvn(
        gpytorch.distributions.MultivariateNormal(torch.zeros(T, n), K)
    )
    lml_lib = lik.marginal(prior).log_prob(y).item()  # the library's own exact marginal
    big = torch.zeros(n * T, n * T)
    for t in range(T):
        big[t::T, t::T] = K[t]
    big = big + torch.kron(torch.eye(n), Sigma)
    lml_dense = torch.distributions.MultivariateNormal(torch.zeros(n * T), big).log_prob(y.reshape(-1)).item()

print("(1) per-datum objective at the same q(u)")
print("    VariationalELBO (library)            : %.6f" % lib_elbo)
print("    definition with full Sigma           : %.6f" % def_elbo)
print("    definition with diag(Sigma) only     : %.6f   <- what the library evaluates" % diag_elbo)
print("    PredictiveLogLikelihood (library)    : %.6f" % lib_pll)
print("    definition with full Sigma           : %.6f" % def_pll)
print("(2) bound")
print("    N * ELBO (library)                   : %.4f" % (n * lib_elbo))
print("    exact log marginal (lik.marginal)    : %.4f" % lml_lib)
print("    exact log marginal (dense torch)     : %.4f" % lml_dense)
print("    N * ELBO - log p(y) = %.4f  (must be <= 0)" % (n * lib_elbo - lml_dense))
failed = abs(lib_elbo - def_elbo) * n > 1.0 or abs(lib_pll - def_pll) * n > 1.0 or (n * lib_elbo - lml_dense) > 1.0
print("VIOLATION PRESENT" if failed else "no violation")
sys.exit(1 if failed else 0)
