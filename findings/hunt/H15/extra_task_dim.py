"""C15 / extra candidate (belongs to the multitask-strategy / lazy-kernel properties rather than the objective):
IndependentMultitaskVariationalStrategy / LMCVariationalStrategy with a task (latent) dimension that is not the last
batch dimension (task_dim = -2, documented) cannot produce q(f) - hence no ELBO - when the base strategy is the whitened
VariationalStrategy (LazyEvaluatedKernelTensor._permute_batch does not permute the kernel's own batch shape), and with
task_indices the mask permutation in IndependentMultitaskVariationalStrategy.__call__ is wrong for either base strategy.
"""
import sys
import warnings

import torch

import gpytorch
from gpytorch.variational import (
    CholeskyVariationalDistribution,
    IndependentMultitaskVariationalStrategy,
    UnwhitenedVariationalStrategy,
    VariationalStrategy,
)

warnings.filterwarnings("ignore")
torch.set_default_dtype(torch.float64)
torch.manual_seed(0)


class MT(gpytorch.models.ApproximateGP):
    def __init__(self, Z, strat_cls, task_dim, bs):
        vd = CholeskyVariationalDistribution(Z.size(-2), batch_shape=bs)
        vs = IndependentMultitaskVariationalStrategy(strat_cls(self, Z, vd), num_tasks=3, task_dim=task_dim)
        super().__init__(vs)
        self.mean_module = gpytorch.means.ConstantMean(batch_shape=bs)
        self.covar_module = gpytorch.kernels.ScaleKernel(gpytorch.kernels.RBFKernel(batch_shape=bs), batch_shape=bs)

    def forward(self, x):
        return gpytorch.distributions.MultivariateNormal(self.mean_module(x), self.covar_module(x))


x = torch.randn(6, 2)
idx = torch.tensor([0, 2, 1, 1, 0, 2])
bad = 0
for strat in (VariationalStrategy, UnwhitenedVariationalStrategy):
    for use_idx in (False, True):
        model = MT(torch.randn(4, 2), strat, -2, torch.Size([3, 2]))  # 3 tasks x 2 independent replicas
        try:
            out = model(x, task_indices=idx) if use_idx else model(x)
            print(strat.__name__, "task_indices" if use_idx else "all tasks", "->", type(out).__name__, tuple(out.mean.shape))
        except Exception as exc:  # noqa
            bad += 1
            print(strat.__name__, "task_indices" if use_idx else "all tasks", "-> raises", type(exc).__name__, str(exc)[:110])
sys.exit(1 if bad else 0)
