"""C15 / bug 1: UnwhitenedVariationalStrategy with x == inducing points (Z = X, the documented use case of the
unwhitened strategy) computes the KL term against a prior p(u) = N(mu_Z, K_ZZ + 1e-3 I) (default jitter of
LinearOperator.add_jitter) instead of the prior K_ZZ + jitter_val I (1e-6 in float64) that is used on every other path.
Consequences shown here:
  (1) the ELBO at x == Z differs by O(10..100) nats from its dense definition, and jumps discontinuously when x is
      moved by 1e-9;
  (2) after one natural-gradient step of size 1, N * ELBO EXCEEDS the exact log marginal likelihood of the same
      kernel / mean / noise, i.e. the "evidence lower bound" is not a lower bound.
"""
import math
import sys
import warnings

import torch

import gpytorch
from gpytorch.variational import (
    CholeskyVariationalDistribution,
    NaturalVariationalDistribution,
    UnwhitenedVariationalStrategy,
)

warnings.filterwarnings("ignore")
torch.set_default_dtype(torch.float64)
torch.manual_seed(0)


class SVGP(gpytorch.models.ApproximateGP):
    def __init__(self, Z, dist_cls):
        vd = dist_cls(Z.size(-2))
        vs = UnwhitenedVariationalStrategy(self, Z, vd, learn_inducing_locations=False)
        super().__init__(vs)
        self.mean_module = gpytorch.means.ZeroMean()
        self.covar_module = gpytorch.kernels.ScaleKernel(gpytorch.kernels.RBFKernel())
        self.covar_module.base_kernel.lengthscale = 0.3

    def forward(self, x):
        return gpytorch.distributions.MultivariateNormal(self.mean_module(x), self.covar_module(x))


class ExactGP(gpytorch.models.ExactGP):
    def __init__(self, x, y, lik, covar):
        super().__init__(x, y, lik)
        self.mean_module = gpytorch.means.ZeroMean()
        self.covar_module = covar

    def forward(self, x):
        return gpytorch.distributions.MultivariateNormal(self.mean_module(x), self.covar_module(x))


n = 12
x = torch.linspace(0, 1, n).unsqueeze(-1)
y = torch.sin(6 * x.squeeze(-1)) + 0.3 * torch.randn(n)
noise = 1e-3
failed = False

# ---------------------------------------------------------------- (1) ELBO vs. its dense definition
model = SVGP(x, CholeskyVariationalDistribution)
lik = gpytorch.likelihoods.GaussianLikelihood()
lik.noise = noise
model.train(), lik.train()
mll = gpytorch.mlls.VariationalELBO(lik, model, num_data=n)
model(x)  # initialise q(u)
vd = model.variational_strategy._variational_distribution
with torch.no_grad():
    # q(u) = N(sin(6x), K_ZZ / 2): a perfectly reasonable variational distribution
    K0 = model.covar_module(x).to_dense() + 1e-6 * torch.eye(n)
    vd.chol_variational_covar.copy_(torch.linalg.cholesky(0.5 * K0))
    vd.variational_mean.copy_(torch.sin(6 * x.squeeze(-1)))

elbo_equal = mll(model(x), y).item()  # x == Z  -> short-cut path
elbo_shift = mll(model(x + 1e-9), y).item()  # x moved by 1e-9 -> general path


def dense_elbo(jitter):
    with torch.no_grad():
        m = vd.variational_mean
        L = vd.chol_variational_covar.tril()
        S = L @ L.T
        K = model.covar_module(x).to_dense() + jitter * torch.eye(n)
        # q(f) = q(u) because X == Z
        ell = -0.5 * (((y - m) ** 2 + S.diagonal()) / noise + math.log(noise) + math.log(2 * math.pi))
        kl = torch.distributions.kl_divergence(
            torch.distributions.MultivariateNormal(m, S), torch.distributions.MultivariateNormal(torch.zeros(n), K)
        )
        return (ell.sum() / n - kl / n).item()


ref6 = dense_elbo(1e-6)  # the strategy's jitter_val (settings.variational_cholesky_jitter, float64)
ref3 = dense_elbo(1e-3)
print("(1) ELBO per datum, q(u) fixed, Z == X, n = m = %d" % n)
print("    library, x == Z             : %.6f" % elbo_equal)
print("    library, x == Z + 1e-9      : %.6f" % elbo_shift)
print("    dense definition, K+1e-6 I  : %.6f" % ref6)
print("    dense definition, K+1e-3 I  : %.6f   (what the x == Z path actually evaluates)" % ref3)
d1 = abs(elbo_equal - ref6) * n
print("    |N*ELBO(lib, x==Z) - N*ELBO(definition)| = %.3f nats;  jump for a 1e-9 move of x = %.3f nats"
      % (d1, abs(elbo_equal - elbo_shift) * n))
if d1 > 1.0:
    failed = True

# ---------------------------------------------------------------- (2) the bound is violated
model = SVGP(x, NaturalVariationalDistribution)
lik = gpytorch.likelihoods.GaussianLikelihood()
lik.noise = noise
model.train(), lik.train()
mll = gpytorch.mlls.VariationalELBO(lik, model, num_data=n)
opt = gpytorch.optim.NGD(model.variational_parameters(), num_data=n, lr=1.0)
opt.zero_grad()
(-mll(model(x), y)).backward()
opt.step()
n_elbo = mll(model(x), y).item() * n

exact = ExactGP(x, y, lik, model.covar_module)
exact.train()
exact_mll = gpytorch.mlls.ExactMarginalLogLikelihood(lik, exact)
with gpytorch.settings.fast_computations(False, False, False):
    log_marginal = exact_mll(exact(x), y).item() * n
K = model.covar_module(x).to_dense().detach()
log_marginal_torch = torch.distributions.MultivariateNormal(torch.zeros(n), K + noise * torch.eye(n)).log_prob(y).item()
print("(2) after one NGD step (lr = 1) on NaturalVariationalDistribution, noise = %g" % noise)
print("    N * ELBO (library)                         : %.4f" % n_elbo)
print("    exact log marginal (ExactMarginalLogLik.)  : %.4f" % log_marginal)
print("    exact log marginal (torch MVN)             : %.4f" % log_marginal_torch)
print("    N * ELBO - log p(y) = %.4f   (must be <= 0)" % (n_elbo - log_marginal_torch))
if n_elbo - log_marginal_torch > 1.0:
    failed = True

print("VIOLATION PRESENT" if failed else "no violation")
sys.exit(1 if failed else 0)
