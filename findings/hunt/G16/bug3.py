"""
C16 violation 3 (same family as bug2, weaker): GammaRobustVariationalELBO computes its data term directly
from the raw targets and never consults observation_nan_policy, whereas VariationalELBO and
PredictiveLogLikelihood (through GaussianLikelihood.expected_log_prob / log_marginal) honour it.
With NaN targets and policy 'mask' or 'fill' the robust ELBO is NaN instead of the value obtained
after deleting the missing observations.

Reference: the data term factorises over the data points, so the reference is the library's own data term
evaluated on q(f) restricted to the observed points (policy 'ignore'), rescaled to the same minibatch size.
"""
import sys
import warnings

import torch

import gpytorch
from gpytorch import settings

warnings.filterwarnings("ignore")
torch.manual_seed(0)
torch.set_default_dtype(torch.float64)


class SVGP(gpytorch.models.ApproximateGP):
    def __init__(self, Z):
        vd = gpytorch.variational.CholeskyVariationalDistribution(Z.size(0))
        vs = gpytorch.variational.VariationalStrategy(self, Z, vd, learn_inducing_locations=True)
        super().__init__(vs)
        self.mean_module = gpytorch.means.ConstantMean()
        self.covar_module = gpytorch.kernels.ScaleKernel(gpytorch.kernels.RBFKernel())

    def forward(self, x):
        return gpytorch.distributions.MultivariateNormal(self.mean_module(x), self.covar_module(x))


n = 10
x = torch.rand(n, 2)
y = torch.sin(3 * x[:, 0]) + 0.1 * torch.randn(n)
y_nan = y.clone()
y_nan[[1, 6]] = float("nan")
keep = ~torch.isnan(y_nan)

model = SVGP(torch.rand(5, 2))
lik = gpytorch.likelihoods.GaussianLikelihood()
lik.noise = 0.05
model.train()
lik.train()

with torch.no_grad():
    qf = model(x)
    q_obs = gpytorch.distributions.MultivariateNormal(qf.mean[keep], qf.covariance_matrix[keep][:, keep])
    results = {}
    for name, cls in [
        ("VariationalELBO", gpytorch.mlls.VariationalELBO),
        ("GammaRobustVariationalELBO", gpytorch.mlls.GammaRobustVariationalELBO),
    ]:
        mll = cls(lik, model, num_data=n, combine_terms=False)
        ref = mll(q_obs, y[keep])[0] * int(keep.sum()) / n  # same 1/num_batch scaling as the full minibatch
        for policy in ["mask", "fill"]:
            with settings.observation_nan_policy(policy):
                val = mll(qf, y_nan)[0]
            err = (val - ref).abs().item()
            results[(name, policy)] = err
            print("%-28s policy %-6r data term = %-22s deleted reference = %.10f  |diff| = %s"
                  % (name, policy, val.item(), ref.item(), err))

ok_plain = all(results[("VariationalELBO", p)] < 1e-10 for p in ["mask", "fill"])
bad_robust = any(not (results[("GammaRobustVariationalELBO", p)] < 1e-10) for p in ["mask", "fill"])
print("VariationalELBO honours the policy:", ok_plain)
if bad_robust:
    print("VIOLATION: GammaRobustVariationalELBO ignores observation_nan_policy (NaN output)")
    sys.exit(1)
print("no violation")
sys.exit(0)
