"""
C16 violation 1: fantasy model of a variational GP (online variational conditioning,
ApproximateGP.get_fantasy_model) under observation_nan_policy 'mask' / 'fill'.

The exact GP returned by VariationalStrategy.get_fantasy_model carries a hand-made mean cache that is
stored under the cache key of the 'ignore' policy only.  Under 'mask' or 'fill' the prediction strategy
does not find it and recomputes the cache from self.likelihood(train_prior_dist), i.e. with homoskedastic
noise sigma^2 on the inducing points instead of the pseudo-observation covariance of q(u).
The posterior mean is then wrong - even when the fantasy targets contain no NaN at all - and with NaN
targets it is not the posterior obtained after deleting the missing observations.

Reference: q(f) of the variational model is a GP; conditioning it on (xf, yf) with noise sigma^2 gives
   mean(xt) = mu_q(xt) + C_q(xt, xf) (C_q(xf, xf) + sigma^2 I)^-1 (yf - mu_q(xf))
computed densely from the joint q(f([xt; xf])) of the variational model.
"""
import sys
import warnings

import torch

import gpytorch
from gpytorch import settings

warnings.filterwarnings("ignore")
torch.manual_seed(0)
torch.set_default_dtype(torch.float64)


class SVGP(gpytorch.models.ApproximateGP):
    def __init__(self, Z):
        vd = gpytorch.variational.CholeskyVariationalDistribution(Z.size(0))
        vs = gpytorch.variational.VariationalStrategy(self, Z, vd, learn_inducing_locations=True)
        super().__init__(vs)
        self.mean_module = gpytorch.means.ConstantMean()
        self.covar_module = gpytorch.kernels.ScaleKernel(gpytorch.kernels.RBFKernel())
        self.likelihood = gpytorch.likelihoods.GaussianLikelihood()

    def forward(self, x):
        return gpytorch.distributions.MultivariateNormal(self.mean_module(x), self.covar_module(x))


M = 6
model = SVGP(torch.rand(M, 2))
model.likelihood.noise = 0.05
model.covar_module.base_kernel.lengthscale = 0.4
model.covar_module.outputscale = 1.3
model.mean_module.constant.data.fill_(0.2)
model.train()
with torch.no_grad():
    model(torch.rand(3, 2))  # first call initialises the variational parameters from the prior; set them afterwards
g = torch.Generator().manual_seed(3)
vd = model.variational_strategy._variational_distribution
vd.variational_mean.data = torch.randn(M, generator=g)
vd.chol_variational_covar.data = torch.randn(M, M, generator=g).tril() * 0.05 + torch.eye(M) * 0.5  # S < I (whitened)
model.variational_strategy._clear_cache()  # drop everything memoised by the initialising call
model.eval()

xt = torch.rand(5, 2)
xf = torch.rand(4, 2)
yf = torch.randn(4)
yf_nan = yf.clone()
yf_nan[1] = float("nan")
keep = ~torch.isnan(yf_nan)
sigma2 = model.likelihood.noise.detach()


def dense_reference(xf_obs, yf_obs):
    """condition the GP q(f) on the observed fantasy points, densely"""
    with torch.no_grad():
        joint = model(torch.cat([xt, xf_obs]))
        mu, C = joint.mean, joint.covariance_matrix
        nt = xt.size(0)
        Cff = C[nt:, nt:] + sigma2 * torch.eye(xf_obs.size(0))
        return mu[:nt] + C[:nt, nt:] @ torch.linalg.solve(Cff, yf_obs - mu[nt:])


ref_full = dense_reference(xf, yf)
ref_del = dense_reference(xf[keep], yf[keep])

with torch.no_grad():
    model(xt)  # the variational model has to be called once
    with settings.observation_nan_policy("ignore"):
        ign_full = model.get_fantasy_model(xf, yf)(xt).mean
        ign_del = model.get_fantasy_model(xf[keep], yf[keep])(xt).mean
print("policy 'ignore', no NaN          : |mean - dense reference| = %.3e" % (ign_full - ref_full).abs().max())
print("policy 'ignore', NaN row deleted  : |mean - dense reference| = %.3e" % (ign_del - ref_del).abs().max())

worst = 0.0
for policy in ["mask", "fill"]:
    with torch.no_grad(), settings.observation_nan_policy(policy):
        out_full = model.get_fantasy_model(xf, yf)(xt).mean
        out_nan = model.get_fantasy_model(xf, yf_nan)(xt).mean
    e1 = (out_full - ref_full).abs().max().item()
    e2 = (out_nan - ref_del).abs().max().item()
    print("policy %-6r targets without NaN : |mean - dense reference| = %.3e" % (policy, e1))
    print("policy %-6r one NaN target      : |mean - reference after deleting it| = %.3e  (NaN in output: %s)"
          % (policy, e2, bool(torch.isnan(out_nan).any())))
    worst = max(worst, e1, e2)

# order dependence: fantasy model built under 'ignore', queried under 'ignore' and then under 'mask'
with torch.no_grad():
    fm = model.get_fantasy_model(xf, yf)
    a = fm(xt).mean
    with settings.observation_nan_policy("mask"):
        b = fm(xt).mean
print("same fantasy model (no NaN), 'ignore' vs 'mask' prediction: %.3e" % (a - b).abs().max())
worst = max(worst, (a - b).abs().max().item())

if worst > 1e-3:  # the ignore path agrees with the dense reference to ~1e-5 (jitter)
    print("VIOLATION: posterior mean of the variational fantasy model depends on the NaN policy (max error %.3e)" % worst)
    sys.exit(1)
print("no violation")
sys.exit(0)
