"""
C16 violation 2: LeaveOneOutPseudoLikelihood (a subclass of ExactMarginalLogLikelihood) ignores
observation_nan_policy.  With NaN targets it returns NaN under 'mask' (and under 'fill', where its parent
class at least raises a ValueError), instead of the leave-one-out pseudo likelihood of the data set
with the missing observations deleted.

Reference: dense textbook formula (Rasmussen & Williams, eq. 5.10-5.12) on the observed points only,
cross-checked against the library's own value on a model built from the observed points.
"""
import math
import sys
import warnings

import torch

import gpytorch
from gpytorch import settings

warnings.filterwarnings("ignore")
torch.manual_seed(0)
torch.set_default_dtype(torch.float64)


class GP(gpytorch.models.ExactGP):
    def __init__(self, x, y, lik):
        super().__init__(x, y, lik)
        self.mean_module = gpytorch.means.ConstantMean()
        self.covar_module = gpytorch.kernels.ScaleKernel(gpytorch.kernels.RBFKernel())

    def forward(self, x):
        return gpytorch.distributions.MultivariateNormal(self.mean_module(x), self.covar_module(x))


def make(x, y):
    lik = gpytorch.likelihoods.GaussianLikelihood()
    m = GP(x, y, lik)
    m.mean_module.constant.data.fill_(0.3)
    m.covar_module.outputscale = 1.7
    m.covar_module.base_kernel.lengthscale = 0.4
    lik.noise = 0.05
    return m, lik


n = 12
x = torch.rand(n, 2)
y = torch.sin(3 * x[:, 0]) + x[:, 1] + 0.1 * torch.randn(n)
y_nan = y.clone()
y_nan[[2, 7]] = float("nan")
keep = ~torch.isnan(y_nan)

# dense reference on the observed points
with torch.no_grad():
    mr, lr = make(x[keep], y[keep])
    K = mr.covar_module(x[keep]).to_dense() + lr.noise * torch.eye(int(keep.sum()))
    Kinv = torch.linalg.inv(K)
    r = y[keep] - 0.3
    sigma2 = 1.0 / Kinv.diagonal()
    mu = y[keep] - (Kinv @ r) * sigma2
    ref = (-0.5 * sigma2.log() - 0.5 * (y[keep] - mu) ** 2 / sigma2 - 0.5 * math.log(2 * math.pi)).mean()
    lib_deleted = gpytorch.mlls.LeaveOneOutPseudoLikelihood(lr, mr)(mr(x[keep]), y[keep])
print("dense reference on the observed points      : %.10f" % ref)
print("library, model built from the observed points: %.10f" % lib_deleted)

bad = False
for policy in ["mask", "fill"]:
    m, lik = make(x, y_nan)
    loo = gpytorch.mlls.LeaveOneOutPseudoLikelihood(lik, m)
    try:
        with torch.no_grad(), settings.observation_nan_policy(policy):
            val = loo(m(x), y_nan)
        err = (val - ref).abs().item()
        print("policy %-6r: LOO pseudo likelihood = %s   |diff to reference| = %s" % (policy, val.item(), err))
        if not (err < 1e-8):
            bad = True
    except ValueError as e:  # an explicit "not supported" would be acceptable for 'fill'
        print("policy %-6r: raised %r" % (policy, e))
        if policy == "mask":
            bad = True

# the parent class handles the same call correctly
m, lik = make(x, y_nan)
with torch.no_grad(), settings.observation_nan_policy("mask"):
    v = gpytorch.mlls.ExactMarginalLogLikelihood(lik, m)(m(x), y_nan)
    vr = gpytorch.mlls.ExactMarginalLogLikelihood(lr, mr)(mr(x[keep]), y[keep])
print("(ExactMarginalLogLikelihood under 'mask': %.10f, after deletion %.10f)" % (v, vr))

if bad:
    print("VIOLATION: LeaveOneOutPseudoLikelihood does not honour observation_nan_policy (NaN output)")
    sys.exit(1)
print("no violation")
sys.exit(0)
