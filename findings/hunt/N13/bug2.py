#!/usr/bin/env python3
"""C13 / bug2: gpytorch.settings.num_gauss_hermite_locs is ignored by an existing likelihood.

_OneDimensionalLikelihood.__init__ builds GaussHermiteQuadrature1D() once, which reads the setting at
construction time.  Entering `with gpytorch.settings.num_gauss_hermite_locs(n):` around expected_log_prob /
log_marginal / likelihood.quadrature (i.e. "when computing a likelihood", as the setting's documentation says)
changes nothing: the rule keeps 20 nodes, polynomials of degree < 2n are not integrated exactly and the
truncation error of expected_log_prob / log_marginal does not shrink as nodes are added.
"""
import math
import sys
import warnings

import torch
from scipy import integrate, stats

warnings.simplefilter("ignore")
from linear_operator.operators import DiagLinearOperator  # noqa: E402

import gpytorch  # noqa: E402
from gpytorch.distributions import MultivariateNormal  # noqa: E402
from gpytorch.likelihoods import StudentTLikelihood  # noqa: E402

torch.manual_seed(0)
torch.set_default_dtype(torch.float64)

lik = StudentTLikelihood()
lik.noise = 0.01
y = torch.tensor([0.5])
mean, var = 0.3, 4.0
q = MultivariateNormal(torch.tensor([mean]), DiagLinearOperator(torch.tensor([var])))

# independent reference for both integrals
d = torch.distributions.StudentT(lik.deg_free.item(), 0.0, 0.1)
pdf = stats.norm(mean, math.sqrt(var)).pdf
ref_elp = integrate.quad(lambda x: d.log_prob(torch.tensor(0.5 - x)).item() * pdf(x), -30, 30, points=[0.5], limit=500)[0]
ref_lm = math.log(
    integrate.quad(lambda x: math.exp(d.log_prob(torch.tensor(0.5 - x)).item()) * pdf(x), -30, 30, points=[0.5], limit=500)[0]
)
print(f"reference: E_q[log p(y|f)] = {ref_elp:.6f}, log E_q[p(y|f)] = {ref_lm:.6f}")

print("n   | existing likelihood (setting entered at call time) | likelihood constructed inside the context")
res_existing, res_fresh = [], []
for n in (5, 20, 60, 150):
    with gpytorch.settings.num_gauss_hermite_locs(n):
        a = (lik.expected_log_prob(y, q).item(), lik.log_marginal(y, q).item())
        fresh = StudentTLikelihood()
        fresh.noise = 0.01
        b = (fresh.expected_log_prob(y, q).item(), fresh.log_marginal(y, q).item())
    res_existing.append(a)
    res_fresh.append(b)
    print(f"{n:3d} | elp {a[0]:.6f} lm {a[1]:.6f} (nodes used: {lik.quadrature.locations.numel()}) | elp {b[0]:.6f} lm {b[1]:.6f}")

# polynomial exactness: with the setting at 30 every polynomial of degree < 60 must be exact
deg = 50
with gpytorch.settings.num_gauss_hermite_locs(30):
    poly = lik.quadrature(lambda f: f**deg, q).item()
exact = stats.norm(mean, math.sqrt(var)).moment(deg)
rel = abs(poly - exact) / abs(exact)
print(f"E[f^{deg}] under num_gauss_hermite_locs(30): library {poly:.6e}, exact {exact:.6e}, rel. error {rel:.3e}")

ignored = all(r == res_existing[0] for r in res_existing)
err_elp = abs(res_existing[-1][0] - ref_elp)
err_lm = abs(res_existing[-1][1] - ref_lm)
print(f"existing likelihood at n=150: |elp error| = {err_elp:.4f}, |log_marginal error| = {err_lm:.4f}")
print(f"fresh    likelihood at n=150: |elp error| = {abs(res_fresh[-1][0] - ref_elp):.4f}, "
      f"|log_marginal error| = {abs(res_fresh[-1][1] - ref_lm):.4f}")
if ignored and (rel > 1e-6 or err_lm > 0.1):
    print("VIOLATION: the num_gauss_hermite_locs setting has no effect on an existing likelihood")
    sys.exit(1)
print("ok")
sys.exit(0)
