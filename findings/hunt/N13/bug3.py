#!/usr/bin/env python3
"""C13 / bug3: _OneDimensionalLikelihood.log_marginal underflows to -inf (and gives NaN gradients).

log_marginal computes  log( sum_i w_i exp(log p(y | f_i)) )  by exponentiating first and taking the log last
(no logsumexp).  As soon as log p(y|f_i) < log(tiny) at every node (about -104 in float32, -745 in float64) the
sum is exactly 0, the result is -inf and the gradient of every parameter is NaN, although the true integral
is an ordinary finite number.  Example: Laplace noise 1e-4 (scale b = 0.01), q(f) = N(0, 1e-4), one outlier.
Reference: for y above all the mass of q,  int Laplace(y; f, b) N(f; m, v) df = exp(-(y-m)/b + v/(2 b^2)) / (2b)
(up to a Gaussian tail of relative size < 1e-100), cross-checked with scipy.integrate.quad in shifted log space.
"""
import math
import sys
import warnings

import torch
from scipy import integrate, stats

warnings.simplefilter("ignore")
from linear_operator.operators import DiagLinearOperator  # noqa: E402

from gpytorch.distributions import MultivariateNormal  # noqa: E402
from gpytorch.likelihoods import LaplaceLikelihood  # noqa: E402

torch.manual_seed(0)
bad = False
b, var = 0.01, 1e-4
for dtype, outlier in ((torch.float32, 1.5), (torch.float64, 9.0)):
    lik = LaplaceLikelihood().to(dtype)
    lik.noise = b**2  # the library uses scale = sqrt(noise)
    m = torch.zeros(2, dtype=dtype, requires_grad=True)
    v = torch.full((2,), var, dtype=dtype)
    y = torch.tensor([0.05, outlier], dtype=dtype)
    lm = lik.log_marginal(y, MultivariateNormal(m, DiagLinearOperator(v)))
    g_mean, g_noise = torch.autograd.grad(lm.sum(), [m, lik.raw_noise])

    ref_closed, ref_quad = [], []
    for yy in y.tolist():
        ref_closed.append(-yy / b + var / (2 * b * b) - math.log(2 * b))
        f = lambda x: math.exp(-abs(yy - x) / b + yy / b) / (2 * b) * stats.norm(0, math.sqrt(var)).pdf(x)  # noqa
        val = integrate.quad(f, -0.2, 0.2, points=[0.0, min(yy, 0.19)], limit=500)[0]
        ref_quad.append(math.log(val) - yy / b)
    print(f"--- {dtype}: y = {y.tolist()}, q = N(0, {var}), Laplace scale {b}")
    print("log_marginal (library)         :", lm.tolist())
    print("reference (scipy, log-shifted) :", ref_quad)
    print("reference (closed form, y>>f)  :", ref_closed, "(second entry only)")
    print("grad wrt mean                  :", g_mean.tolist())
    print("grad wrt raw_noise             :", g_noise.tolist())
    if not math.isfinite(lm[1].item()) and math.isfinite(ref_quad[1]):
        bad = True
    if torch.isnan(g_noise).any():
        bad = True

if bad:
    print("VIOLATION: log_marginal is -inf / gradients NaN where the true log integral is finite")
    sys.exit(1)
print("ok")
sys.exit(0)
