#!/usr/bin/env python3
"""C13 / bug1: BernoulliLikelihood.log_marginal saturates at log(eps) for confident-but-wrong predictions.

The analytic marginal is p(y=1) = Phi(m / sqrt(1+v)), so log_marginal(y) = log Phi((2y-1) m / sqrt(1+v)).
The library builds Bernoulli(probs=Normal.cdf(link)) and calls .log_prob: torch clamps the probabilities to
[eps, 1-eps] (and Normal.cdf = (1+erf)/2 rounds to 0 before that), so the value can never go below log(eps)
= -15.94 (float32) / -36.04 (float64) and its gradient w.r.t. the mean is exactly 0 there.
(expected_log_prob of the same class uses log_normal_cdf precisely to avoid this.)
"""
import sys
import warnings

import numpy as np
import torch
from scipy.special import log_ndtr

warnings.simplefilter("ignore")
from linear_operator.operators import DiagLinearOperator  # noqa: E402

from gpytorch.distributions import MultivariateNormal  # noqa: E402
from gpytorch.likelihoods import BernoulliLikelihood  # noqa: E402

torch.manual_seed(0)
bad = False
for dtype in (torch.float32, torch.float64):
    lik = BernoulliLikelihood().to(dtype)
    m = torch.tensor([-3.0, -7.0, -9.0, -12.0, 12.0, 7.0], dtype=dtype, requires_grad=True)
    v = torch.tensor([0.5, 0.5, 0.5, 0.5, 0.5, 0.5], dtype=dtype)
    y = torch.tensor([1.0, 1.0, 1.0, 1.0, 0.0, 0.0], dtype=dtype)
    q = MultivariateNormal(m, DiagLinearOperator(v))
    lm = lik.log_marginal(y, q)
    (grad,) = torch.autograd.grad(lm.sum(), m)

    m64, v64, y64 = m.detach().double().numpy(), v.double().numpy(), y.double().numpy()
    link = (2 * y64 - 1) * m64 / np.sqrt(1 + v64)
    ref = log_ndtr(link)  # log Phi((2y-1) m / sqrt(1+v))
    # d/dm log Phi(s*m/sqrt(1+v)) = s/sqrt(1+v) * phi(link)/Phi(link)
    ref_grad = (2 * y64 - 1) / np.sqrt(1 + v64) * np.exp(-0.5 * link**2 - 0.5 * np.log(2 * np.pi) - ref)

    err = np.abs(lm.detach().double().numpy() - ref)
    print(f"--- {dtype}")
    print("link (2y-1)m/sqrt(1+v):", np.round(link, 3))
    print("log_marginal (library):", np.round(lm.detach().double().numpy(), 4))
    print("log Phi(link)  (exact) :", np.round(ref, 4))
    print("abs error              :", np.round(err, 4))
    print("d/dm library           :", np.round(grad.double().numpy(), 4))
    print("d/dm exact             :", np.round(ref_grad, 4))
    if err.max() > 0.1:
        bad = True

if bad:
    print("VIOLATION: Bernoulli log_marginal differs from log Phi(m/sqrt(1+v)) by many nats (clamped at log eps)")
    sys.exit(1)
print("ok")
sys.exit(0)
