# Regression check for commit aceae32
#   "fix: evaluation-mode caches of SGPR, KISS-GP and RFF models honour detach_test_caches"
#
# InducingPointKernel._inducing_mat / _inducing_inv_root now STORE a detached copy in evaluation mode but
# RETURN the graph-carrying tensor on the call that fills the cache.  Consequences under the default settings:
#   * the first evaluation-mode prediction of an SGPR model and every later one give different gradients with
#     respect to the inducing points / kernel hyper-parameters for the same inputs (values are identical);
#   * inside the first call _get_covariance reads _inducing_inv_root twice (left and right factor of
#     K_xz Kzz^-1 K_zx): the first read carries the graph, the second is the detached cache, so the first-call
#     gradient is a mixture that equals neither the full gradient (detach_test_caches off) nor the detached one.
# Before the commit (with retain_graph=True, or when the first prediction is not back-propagated) every call
# returned the same - full - gradient.  The other caches (mean_cache, covar_cache) return the detached value on
# the first call as well, so they do not have this inconsistency.
#
# exit 1 = problem present (first-call gradient != second-call gradient), exit 0 otherwise.
import sys
import warnings

import torch

import gpytorch

warnings.simplefilter("ignore")
torch.manual_seed(0)

X = torch.linspace(0, 1, 20, dtype=torch.float64).unsqueeze(-1)
y = torch.sin(6 * X).squeeze(-1)
Xt = torch.linspace(0.05, 0.95, 7, dtype=torch.float64).unsqueeze(-1)


class SGPR(gpytorch.models.ExactGP):
    def __init__(self, X, y, lik):
        super().__init__(X, y, lik)
        self.mean_module = gpytorch.means.ConstantMean()
        self.covar_module = gpytorch.kernels.InducingPointKernel(
            gpytorch.kernels.ScaleKernel(gpytorch.kernels.RBFKernel()),
            inducing_points=torch.linspace(0, 1, 5, dtype=torch.float64).unsqueeze(-1),
            likelihood=lik,
        )

    def forward(self, x):
        return gpytorch.distributions.MultivariateNormal(self.mean_module(x), self.covar_module(x))


def make():
    lik = gpytorch.likelihoods.GaussianLikelihood().double()
    model = SGPR(X, y, lik).double()
    model.eval()
    lik.eval()
    return model


def grads(model):
    model.zero_grad()
    out = model(Xt)
    loss = out.mean.sum() + out.variance.sum()
    loss.backward(retain_graph=True)  # retain_graph so that the pre-commit code can be compared as well
    z = model.covar_module.inducing_points.grad.clone().flatten()
    ls = model.covar_module.base_kernel.base_kernel.raw_lengthscale.grad.clone().flatten()
    return loss.item(), torch.cat([z, ls])


model = make()
l1, g1 = grads(model)
l2, g2 = grads(model)
l3, g3 = grads(model)
print("loss        call1 / call2 / call3 :", l1, l2, l3)
print("grad (Z, raw_lengthscale) call 1  :", g1.tolist())
print("grad (Z, raw_lengthscale) call 2  :", g2.tolist())
print("grad (Z, raw_lengthscale) call 3  :", g3.tolist())

with gpytorch.settings.detach_test_caches(False):
    _, g_full = grads(make())
print("full gradient (caches not detached, fresh model):", g_full.tolist())

same_12 = torch.allclose(g1, g2, rtol=1e-8, atol=1e-10)
same_23 = torch.allclose(g2, g3, rtol=1e-8, atol=1e-10)
print("call1 == call2:", same_12, "| call2 == call3:", same_23, "| call1 == full:", torch.allclose(g1, g_full, rtol=1e-8, atol=1e-10))

if abs(l1 - l2) > 1e-10:
    print("PROBLEM: predictions differ between calls")
    sys.exit(1)
if not same_12:
    print(
        "PROBLEM: the same evaluation-mode prediction gives different hyper-parameter gradients on the first "
        "and on later calls (max abs diff %.3e)" % (g1 - g2).abs().max().item()
    )
    sys.exit(1)
print("ok: gradients are the same on every call")
sys.exit(0)
