#!/usr/bin/env python3
"""C17 / bug 2: Module.initialize(<constrained raw parameter> = python float / int) raises TypeError.

Module.initialize documents "Value can take the form of a tensor, a float, or an int".  For a parameter that carries a
constraint (every raw_* hyper-parameter of the library does), the float branch calls constraint.check_raw(val) with the
python float; check_raw applies the constraint transform (torch.nn.Softplus() / torch.sigmoid) directly to the float,
which raises "softplus(): argument 'input' must be Tensor, not float".  The same value as a 0-d tensor is accepted and
reads back correctly, and a float assigned to an *unconstrained* parameter is accepted as well.
Also reachable through the public property setter GaussianLikelihood.raw_noise = 0.5.
"""
import sys
import warnings

import torch

warnings.simplefilter("ignore")
torch.set_default_dtype(torch.float64)
torch.manual_seed(0)

import gpytorch  # noqa: E402
from gpytorch.constraints import Interval  # noqa: E402

softplus = torch.nn.functional.softplus
RAW = 0.5


def attempt(label, build, assign, read, expected):
    """expected: the constrained value that has to be read back after storing RAW in the raw parameter"""
    module = build()
    try:
        assign(module, RAW)
    except Exception as e:  # noqa: BLE001
        print(f"{label:62s} float -> {type(e).__name__}: {str(e)[:70]}")
        failed = True
    else:
        err = (read(module) - expected).abs().max().item()
        print(f"{label:62s} float -> ok, read-back error {err:.2e}")
        failed = err > 1e-10
    # control: identical assignment with a tensor value
    module = build()
    assign(module, torch.tensor(RAW))
    err = (read(module) - expected).abs().max().item()
    print(f"{'':62s} tensor -> ok, read-back error {err:.2e}")
    return failed


t = torch.tensor(RAW)
cases = [
    (
        "RBFKernel().initialize(raw_lengthscale=0.5)",
        lambda: gpytorch.kernels.RBFKernel(),
        lambda m, v: m.initialize(raw_lengthscale=v),
        lambda m: m.lengthscale,
        softplus(t),
    ),
    (
        "ScaleKernel.initialize(**{'base_kernel.raw_lengthscale': 0.5})",
        lambda: gpytorch.kernels.ScaleKernel(gpytorch.kernels.RBFKernel()),
        lambda m, v: m.initialize(**{"base_kernel.raw_lengthscale": v}),
        lambda m: m.base_kernel.lengthscale,
        softplus(t),
    ),
    (
        "GaussianLikelihood().raw_noise = 0.5   (public setter)",
        lambda: gpytorch.likelihoods.GaussianLikelihood(),
        lambda m, v: setattr(m, "raw_noise", v),
        lambda m: m.noise,
        softplus(t) + 1e-4,
    ),
    (
        "ConstantMean(Interval(-1, 1)).initialize(raw_constant=0.5)",
        lambda: gpytorch.means.ConstantMean(constant_constraint=Interval(-1.0, 1.0)),
        lambda m, v: m.initialize(raw_constant=v),
        lambda m: m.constant,
        torch.sigmoid(t) * 2 - 1,
    ),
    (
        "control: ConstantMean() (no constraint).initialize(raw_constant=0.5)",
        lambda: gpytorch.means.ConstantMean(),
        lambda m, v: m.initialize(raw_constant=v),
        lambda m: m.constant,
        t,
    ),
]
n_failed = sum(attempt(*c) for c in cases)
print(f"{n_failed} of {len(cases)} float initialisations failed")
if n_failed:
    print("VIOLATION: a documented float value is rejected with TypeError for every constrained parameter")
    sys.exit(1)
print("no violation")
sys.exit(0)
