#!/usr/bin/env python3
"""C17 / extra 4: LKJCovariancePrior with a scalar sd_prior (event_shape []) - log_prob is a length-n vector, the LKJ
term is counted n times when the prior is summed into an objective; sample() repeats ONE sd draw for all n variances and
sample(sample_shape) raises.

Documented: "combines an LKJ prior over the correlation matrix and a user-specified prior over marginal standard
deviations ... sd_prior is a scalar Prior over nonnegative numbers, which is used for each of the n marginal standard
deviations".  Reference:  log p(Sigma) = log LKJ(corr(Sigma)) + sum_i log p_sd(sd_i)   (one number per matrix).
"""
import sys
import warnings

import torch

warnings.simplefilter("ignore")
torch.set_default_dtype(torch.float64)
torch.manual_seed(0)

from gpytorch.kernels import IndexKernel  # noqa: E402
from gpytorch.priors import GammaPrior, LKJCovariancePrior, LKJPrior  # noqa: E402

n, eta = 3, 1.7
C = torch.tensor([[1.0, 0.3, -0.2], [0.3, 1.0, 0.5], [-0.2, 0.5, 1.0]])
sd = torch.tensor([0.5, 1.5, 2.0])
Sigma = torch.diag(sd) @ C @ torch.diag(sd)

prior = LKJCovariancePrior(n, eta, GammaPrior(2.0, 3.0))
lp = prior.log_prob(Sigma)
ref = LKJPrior(n, eta).log_prob(C) + torch.distributions.Gamma(2.0, 3.0).log_prob(sd).sum()
print("library log_prob(Sigma):", lp.tolist(), "shape", tuple(lp.shape))
print("reference (one matrix -> one number):", ref.item())
print("sum of the library vector (what ExactMarginalLogLikelihood adds):", lp.sum().item(),
      "  excess over reference:", (lp.sum() - ref).item(),
      "  = (n-1) * log LKJ(C) =", ((n - 1) * LKJPrior(n, eta).log_prob(C)).item())
bad = lp.shape != torch.Size([]) or abs((lp.sum() - ref).item()) > 1e-8

# through a module: the prior term collected exactly like the marginal log likelihoods do
kernel = IndexKernel(num_tasks=n, rank=2, prior=LKJCovariancePrior(n, eta, GammaPrior(2.0, 3.0)))
for name, module, p, closure, _ in kernel.named_priors():
    print("IndexKernel prior", name, "log_prob shape", tuple(p.log_prob(closure(module)).shape), "(expected ())")

torch.manual_seed(3)
S = prior.sample()
print("sample(): marginal variances", S.diagonal().tolist(), "(n independent sd draws expected, all identical)")
bad |= bool((S.diagonal() - S.diagonal()[0]).abs().max() < 1e-12)
try:
    prior.sample(torch.Size([2]))
    print("sample([2]) ok")
except Exception as e:  # noqa: BLE001
    print("sample(torch.Size([2])):", type(e).__name__, str(e)[:100])
    bad = True
sys.exit(1 if bad else 0)
