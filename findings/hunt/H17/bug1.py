#!/usr/bin/env python3
"""C17 / bug 1: LKJPrior.log_prob does not evaluate the documented density  pdf(Sigma) ~ |Sigma|^(eta - 1).

LKJPrior is documented (class docstring, gpytorch/priors/lkj_prior.py) as the LKJ density over n x n *correlation
matrices*, pdf(Sigma) proportional to |Sigma|^(eta-1).  Consequences that need no normalising constant:
  (a) log p(S1) - log p(S2) == (eta - 1) * (logdet S1 - logdet S2);  for eta = 1 the density is uniform;
  (b) the density is invariant under a simultaneous permutation of rows and columns (|P S P^T| = |S|);
  (c) the density integrates to 1 over the set of correlation matrices (volume pi^2/2 for n = 3).
The library instead returns torch's LKJCholesky.log_prob(chol(Sigma)), which is the density of the Cholesky factor and
carries the extra, non-constant Jacobian term  sum_i (n - i) * log L_ii.
"""
import math
import sys
import warnings

import torch

warnings.simplefilter("ignore")
torch.set_default_dtype(torch.float64)
torch.manual_seed(0)

from gpytorch.priors import LKJPrior  # noqa: E402


def corr(r12, r13, r23):
    return torch.tensor([[1.0, r12, r13], [r12, 1.0, r23], [r13, r23, 1.0]])


bad = False
S_id = corr(0.0, 0.0, 0.0)
S_a = corr(0.8, 0.1, -0.2)
perm = torch.tensor([2, 1, 0])
S_a_perm = S_a[perm][:, perm]  # same matrix with variables relabelled: identical determinant

for eta in (1.0, 2.5):
    prior = LKJPrior(3, eta)
    lp_id, lp_a, lp_ap = prior.log_prob(S_id), prior.log_prob(S_a), prior.log_prob(S_a_perm)
    # (a) differences of log densities against the documented formula
    got = (lp_a - lp_id).item()
    ref = ((eta - 1) * (torch.logdet(S_a) - torch.logdet(S_id))).item()
    print(f"eta={eta}: log p(S_a) - log p(I): library {got:+.6f}   documented (eta-1)*dlogdet {ref:+.6f}"
          f"   discrepancy {abs(got - ref):.3e}")
    # (b) permutation invariance
    print(f"eta={eta}: log p(S_a) {lp_a.item():+.6f}   log p(P S_a P^T) {lp_ap.item():+.6f}"
          f"   discrepancy {abs((lp_a - lp_ap).item()):.3e}")
    bad |= abs(got - ref) > 1e-6 or abs((lp_a - lp_ap).item()) > 1e-6

# (c) normalisation for n = 3, eta = 1 (uniform density 2 / pi^2 on the elliptope): midpoint rule on a grid
prior = LKJPrior(3, 1.0)
N = 81
g = torch.linspace(-1, 1, N + 1)
g = (g[1:] + g[:-1]) / 2
h = 2.0 / N
R = torch.cartesian_prod(g, g, g)
S = torch.eye(3).repeat(R.shape[0], 1, 1)
S[:, 0, 1] = S[:, 1, 0] = R[:, 0]
S[:, 0, 2] = S[:, 2, 0] = R[:, 1]
S[:, 1, 2] = S[:, 2, 1] = R[:, 2]
inside = torch.linalg.eigvalsh(S).min(-1).values > 1e-6
vol = inside.sum().item() * h**3
integral = (prior.log_prob(S[inside]).exp().sum() * h**3).item()
print(f"grid volume of the 3x3 correlation matrices {vol:.4f} (exact pi^2/2 = {math.pi ** 2 / 2:.4f})")
print(f"integral of exp(LKJPrior(3, 1).log_prob) over all correlation matrices: {integral:.4f} (should be 1)")
print(f"log p(I): library {prior.log_prob(S_id).item():.6f}   uniform reference {-math.log(math.pi ** 2 / 2):.6f}")
bad |= abs(integral - 1.0) > 0.05

if bad:
    print("VIOLATION: LKJPrior.log_prob is not the documented |Sigma|^(eta-1) density over correlation matrices")
    sys.exit(1)
print("no violation")
sys.exit(0)
