#!/usr/bin/env python3
"""C17 / extra 5: ConstantKernel(batch_shape=..., constant_prior=<scalar prior>).sample_from_prior raises, and the
constant setter rejects a scalar for a batched kernel (every other kernel parameter broadcasts it).

ConstantKernel._set_constant does value.view(*self.batch_shape, 1): a 0-d sample of a scalar prior cannot be viewed as
batch_shape x 1 (and a python float has no .view at all)."""
import sys
import warnings

import torch

warnings.simplefilter("ignore")
torch.set_default_dtype(torch.float64)

from gpytorch.kernels import ConstantKernel, ScaleKernel, RBFKernel  # noqa: E402
from gpytorch.priors import GammaPrior  # noqa: E402

bad = False
B = torch.Size([2])
# control: same configuration on ScaleKernel.outputscale
ctrl = ScaleKernel(RBFKernel(batch_shape=B), batch_shape=B, outputscale_prior=GammaPrior(3.0, 4.0))
torch.manual_seed(1)
ctrl.sample_from_prior("outputscale_prior")
print("control ScaleKernel batch [2]: outputscale after sample_from_prior", ctrl.outputscale.tolist())

k = ConstantKernel(batch_shape=B, constant_prior=GammaPrior(3.0, 4.0))
torch.manual_seed(1)
try:
    k.sample_from_prior("constant_prior")
    print("ConstantKernel batch [2]: constant after sample_from_prior", k.constant.flatten().tolist())
except Exception as e:  # noqa: BLE001
    print("ConstantKernel batch [2] sample_from_prior:", type(e).__name__, e)
    bad = True
for val in (torch.tensor(0.7), 0.7):
    try:
        k.constant = val
        print("constant =", val, "-> reads", k.constant.flatten().tolist())
    except Exception as e:  # noqa: BLE001
        print("constant =", val, "->", type(e).__name__, e)
        bad = True
sys.exit(1 if bad else 0)
