#!/usr/bin/env python3
"""C17 / extra 6: batch-indexing a kernel whose constraint has batch-shaped (tensor-valued) bounds.

Kernel.__getitem__ indexes the raw parameters (and the kernel's own buffers) but not the lower_bound / upper_bound
buffers of the registered constraints, so kernel[i].lengthscale = sigmoid(raw[i]) * (ub - lb) + lb is evaluated with
the bounds of ALL batch members: wrong shape, and values that belong to other members' intervals."""
import sys
import warnings

import torch

warnings.simplefilter("ignore")
torch.set_default_dtype(torch.float64)

from gpytorch.constraints import Interval  # noqa: E402
from gpytorch.kernels import RBFKernel  # noqa: E402

lo = torch.tensor([0.1, 1.0]).view(2, 1, 1)
hi = torch.tensor([0.5, 5.0]).view(2, 1, 1)
k = RBFKernel(batch_shape=torch.Size([2]), lengthscale_constraint=Interval(lo, hi))
k.lengthscale = torch.tensor([0.2, 4.0]).view(2, 1, 1)
print("batched lengthscale:", k.lengthscale.flatten().tolist())
bad = False
for i in (0, 1):
    ki = k[i]
    got, exp = ki.lengthscale, k.lengthscale[i]
    print(f"k[{i}].lengthscale = {got.flatten().tolist()} shape {tuple(got.shape)};"
          f" expected {exp.flatten().tolist()} shape {tuple(exp.shape)}")
    bad |= got.shape != exp.shape or (got - exp).abs().max().item() > 1e-10
sys.exit(1 if bad else 0)
