#!/usr/bin/env python3
"""C17 / bug 3: CylindricalKernel.sample_from_prior("angular_weights_prior") raises AttributeError.

The setting closure registered for the angular-weights prior is  lambda m, v: m._set_angular_weights(v)
(gpytorch/kernels/cylindrical_kernel.py, __init__), but the class defines no _set_angular_weights (only _set_alpha and
_set_beta exist; the angular_weights property setter calls initialize directly).  Hence the sampled value can never be
stored: sample_from_prior - and pyro_load_from_samples, which uses the same closure - fail for a valid configuration.
The alpha / beta priors of the same kernel work and serve as control.
"""
import sys
import warnings

import torch

warnings.simplefilter("ignore")
torch.set_default_dtype(torch.float64)

import gpytorch  # noqa: E402
from gpytorch.kernels import CylindricalKernel, RBFKernel  # noqa: E402
from gpytorch.priors import GammaPrior  # noqa: E402

kernel = CylindricalKernel(
    num_angular_weights=3,
    radial_base_kernel=RBFKernel(),
    angular_weights_prior=GammaPrior(3.0, 4.0),
    alpha_prior=GammaPrior(3.0, 4.0),
    beta_prior=GammaPrior(3.0, 4.0),
)

bad = False
for prior_name, read in [
    ("alpha_prior", lambda k: k.alpha),
    ("beta_prior", lambda k: k.beta),
    ("angular_weights_prior", lambda k: k.angular_weights),
]:
    prior = getattr(kernel, prior_name)
    torch.manual_seed(11)
    expected = prior.sample()  # the value sample_from_prior draws with the same seed
    torch.manual_seed(11)
    try:
        kernel.sample_from_prior(prior_name)
    except Exception as e:  # noqa: BLE001
        print(f"sample_from_prior({prior_name!r}): {type(e).__name__}: {e}")
        bad = True
        continue
    got = read(kernel)
    err = (got - expected).abs().max().item()
    print(f"sample_from_prior({prior_name!r}): sampled {expected.item():.6f}, parameter reads {got.flatten().tolist()},"
          f" error {err:.2e}")
    bad |= err > 1e-10

# the same closure is used when loading (e.g. NUTS) samples into the module
try:
    kernel.pyro_load_from_samples(
        {"angular_weights_prior": torch.rand(5, 3) + 0.1, "alpha_prior": torch.rand(5, 1) + 0.1,
         "beta_prior": torch.rand(5, 1) + 0.1}
    )
    print("pyro_load_from_samples: ok, angular_weights shape", tuple(kernel.angular_weights.shape))
except Exception as e:  # noqa: BLE001
    print(f"pyro_load_from_samples: {type(e).__name__}: {e}")
    bad = True

# the public property setter itself works, so the value is a perfectly valid one for the parameter
k2 = CylindricalKernel(num_angular_weights=3, radial_base_kernel=RBFKernel())
k2.angular_weights = torch.tensor([0.3, 0.6, 0.9])
print("control, property setter: angular_weights reads", k2.angular_weights.tolist())

if bad:
    print("VIOLATION: the sampled angular weights cannot be stored (setting closure calls a missing method)")
    sys.exit(1)
print("no violation")
sys.exit(0)
