#!/usr/bin/env python3
"""
C14 violation 2: UnwhitenedVariationalStrategy - kl_divergence() in evaluation mode (and the q(u) = p(u) initialisation)
use a different p(u) than the one q(f) is computed with.

forward() conditions on p(u) = N(mu_Z, K_ZZ + jitter_val * I)   (jitter_val = 1e-6 in float64) and, in training mode,
caches exactly that distribution as `prior_distribution`, so training-mode KL is the closed form.
The `prior_distribution` property itself, however, is N(mu_Z, K_ZZ + 1e-3 * I) (hard-coded `add_jitter()` default).  It is
what kl_divergence() uses in evaluation mode and what the variational parameters are initialised from.  Consequences:
  (a) same parameters: eval-mode KL != train-mode KL == closed form KL(q(u) || p(u))
  (b) "q(u) = p(u)" (the library's own initialisation, mean_init_std=0): q(f) is NOT the prior and train-mode KL is not 0.
"""
import sys
import warnings

import torch

import gpytorch
from gpytorch.variational import CholeskyVariationalDistribution, UnwhitenedVariationalStrategy, VariationalStrategy

warnings.filterwarnings("ignore")
torch.set_default_dtype(torch.float64)
torch.manual_seed(0)

M_IND = 8


class Model(gpytorch.models.ApproximateGP):
    def __init__(self, Z, strategy=UnwhitenedVariationalStrategy, mean_init_std=1e-3):
        vd = CholeskyVariationalDistribution(Z.size(-2), mean_init_std=mean_init_std)
        vs = strategy(self, Z, vd, learn_inducing_locations=True)
        super().__init__(vs)
        self.mean_module = gpytorch.means.ConstantMean()
        self.covar_module = gpytorch.kernels.ScaleKernel(gpytorch.kernels.RBFKernel())
        self.mean_module.constant.data.fill_(0.3)
        self.covar_module.outputscale = 1.0
        self.covar_module.base_kernel.lengthscale = 0.25

    def forward(self, x):
        return gpytorch.distributions.MultivariateNormal(self.mean_module(x), self.covar_module(x))


Z = torch.linspace(0, 1, M_IND).unsqueeze(-1)
X = torch.tensor([0.05, 0.31, 0.48, 0.77, 0.93]).unsqueeze(-1)
failed = False


def dense_kl(model, jitter):
    vs = model.variational_strategy
    Zp = vs.inducing_points
    Kzz = model.covar_module(Zp).to_dense() + jitter * torch.eye(M_IND)
    mz = model.mean_module(Zp)
    m = vs._variational_distribution.variational_mean
    L = vs._variational_distribution.chol_variational_covar.tril()
    q = torch.distributions.MultivariateNormal(m, scale_tril=L @ torch.diag(L.diagonal().sign()))
    p = torch.distributions.MultivariateNormal(mz, Kzz)
    return torch.distributions.kl_divergence(q, p).item()


# ------------------------------------------------------------------ (a) KL for fixed, generic variational parameters
model = Model(Z)
with torch.no_grad():
    model(X)  # initialise
    g = torch.Generator().manual_seed(3)
    vd = model.variational_strategy._variational_distribution
    # a "posterior-like" q(u): the exact GP posterior at Z after observing y = sin(6 z) with noise variance 0.05
    Kzz_ = model.covar_module(Z).to_dense()
    G_ = torch.linalg.inv(Kzz_ + 0.05 * torch.eye(M_IND))
    S_ = Kzz_ - Kzz_ @ G_ @ Kzz_
    S_ = 0.5 * (S_ + S_.T) + 1e-9 * torch.eye(M_IND)
    m_ = model.mean_module(Z) + Kzz_ @ G_ @ (torch.sin(6 * Z.squeeze(-1)) - model.mean_module(Z))
    vd.variational_mean.copy_(m_)
    vd.chol_variational_covar.copy_(torch.linalg.cholesky(S_))

    evals = torch.linalg.eigvalsh(model.covar_module(Z).to_dense())
    print(f"K_ZZ eigenvalues: min {evals.min().item():.2e}  max {evals.max().item():.2e}; "
          f"strategy jitter_val = {model.variational_strategy.jitter_val:g}")

    model.train()
    out_train = model(X)
    kl_train = model.variational_strategy.kl_divergence().item()
    model.eval()
    out_eval = model(X)
    kl_eval = model.variational_strategy.kl_divergence().item()

    kl_ref_jit = dense_kl(model, model.variational_strategy.jitter_val)
    kl_ref_0 = dense_kl(model, 0.0)
    kl_ref_1e3 = dense_kl(model, 1e-3)
    dmean = (out_train.mean - out_eval.mean).abs().max().item()
    dvar = (out_train.variance - out_eval.variance).abs().max().item()

print("(a) same variational parameters, same hyper-parameters")
print(f"    q(f) train vs eval: max|d mean| = {dmean:.1e}, max|d var| = {dvar:.1e}   (q(f) is the same)")
print(f"    closed-form KL(q(u)||N(mu_Z, K_ZZ))             = {kl_ref_0:.6f}")
print(f"    closed-form KL(q(u)||N(mu_Z, K_ZZ + jitter_val)) = {kl_ref_jit:.6f}   <- the p(u) that q(f) is computed with")
print(f"    library kl_divergence(), training mode          = {kl_train:.6f}")
print(f"    library kl_divergence(), evaluation mode        = {kl_eval:.6f}")
print(f"    closed-form KL(q(u)||N(mu_Z, K_ZZ + 1e-3 I))      = {kl_ref_1e3:.6f}   <- what eval mode returns")
print(f"    |KL_eval - closed form| = {abs(kl_eval - kl_ref_jit):.3e}    |KL_train - closed form| = {abs(kl_train - kl_ref_jit):.3e}")
if abs(kl_eval - kl_ref_jit) > 1e-2 * abs(kl_ref_jit) and abs(kl_eval - kl_ref_0) > 1e-2 * abs(kl_ref_0):
    failed = True

# ------------------------------------------------------------------ (b) q(u) = p(u): the library's own initialisation
model = Model(Z, mean_init_std=0.0)  # no noise on the initial mean: q(u) is exactly `prior_distribution`
model.train()
with torch.no_grad():
    qf = model(X)  # first call initialises q(u) from p(u)
    kl0 = model.variational_strategy.kl_divergence().item()
    prior = model(X, prior=True)
    e_mean = (qf.mean - prior.mean).abs().max().item()
    e_var = (qf.variance - prior.variance).abs().max().item()
    # whitened strategy as a control
    wmodel = Model(Z, VariationalStrategy, mean_init_std=0.0)
    wmodel.train()
    wqf = wmodel(X)
    wkl0 = wmodel.variational_strategy.kl_divergence().item()
    w_var = (wqf.variance - prior.variance).abs().max().item()
print("(b) freshly initialised model (q(u) := p(u), mean_init_std=0), training mode")
print(f"    unwhitened: max|mean - prior mean| = {e_mean:.2e}, max|var - prior var| = {e_var:.3e}, KL = {kl0:.4f}")
print(f"    prior variances {prior.variance.tolist()}")
print(f"    q(f)  variances {qf.variance.tolist()}")
print(f"    whitened control: max|var - prior var| = {w_var:.2e}, KL = {wkl0:.2e}")
if e_var > 1e-4 or abs(kl0) > 1e-2:
    failed = True

print("VIOLATION PRESENT" if failed else "no violation")
sys.exit(1 if failed else 0)
