#!/usr/bin/env python3
"""
Further confirmed C14 deviations (smaller / more debatable than bug1-3).  Prints each one; exits 1 if any is present.
  E1  BatchDecoupledVariationalStrategy.kl_divergence() = KL(q(u)||p(u)) + (M/2) log(2 pi)   (q = p gives 5.51, not 0)
  E2  CiqVariationalStrategy + NaturalVariationalDistribution: kl_divergence() is identically 0
  E3  UnwhitenedVariationalStrategy + DeltaVariationalDistribution evaluated at X == Z raises a bare RuntimeError
  E4  LMCVariationalStrategy(task_indices=...) with batched X: `... x N` task indices raise (or, when the X batch size
      equals num_latents, are silently applied along the latent dimension)
  E5  LMCVariationalStrategy(prior=True) raises when the latent GPs share one (non-batched) kernel, a set-up the class
      docstring explicitly allows
"""
import math
import sys
import warnings

import torch

import gpytorch
from gpytorch.variational import (
    BatchDecoupledVariationalStrategy,
    CholeskyVariationalDistribution,
    CiqVariationalStrategy,
    DeltaVariationalDistribution,
    LMCVariationalStrategy,
    NaturalVariationalDistribution,
    UnwhitenedVariationalStrategy,
    VariationalStrategy,
)

warnings.filterwarnings("ignore")
torch.set_default_dtype(torch.float64)
torch.manual_seed(0)
M_IND, N, D = 6, 5, 2
Z = torch.rand(M_IND, D)
X = torch.rand(N, D)
found = []


class Model(gpytorch.models.ApproximateGP):
    def __init__(self, strategy, dist, vbatch=torch.Size([]), kbatch=torch.Size([]), lmc=None):
        vd = dist(M_IND, batch_shape=vbatch)
        vs = strategy(self, Z, vd, learn_inducing_locations=True)
        if lmc is not None:
            vs = LMCVariationalStrategy(vs, **lmc)
        super().__init__(vs)
        self.mean_module = gpytorch.means.ConstantMean(batch_shape=kbatch)
        self.covar_module = gpytorch.kernels.ScaleKernel(gpytorch.kernels.RBFKernel(batch_shape=kbatch), batch_shape=kbatch)

    def forward(self, x):
        return gpytorch.distributions.MultivariateNormal(self.mean_module(x), self.covar_module(x))


# ---- E1
res = {}
for strat in [VariationalStrategy, BatchDecoupledVariationalStrategy]:
    model = Model(strat, CholeskyVariationalDistribution)
    model.variational_strategy._variational_distribution.mean_init_std = 0.0  # q(u) = p(u) exactly
    model.train()
    with torch.no_grad():
        model(X)
        res[strat.__name__] = model.variational_strategy.kl_divergence().item()
print(f"E1  q(u)=p(u): KL VariationalStrategy = {res['VariationalStrategy']:.4f}, KL BatchDecoupled = "
      f"{res['BatchDecoupledVariationalStrategy']:.4f}  ((M/2) log 2pi = {M_IND / 2 * math.log(2 * math.pi):.4f})")
if abs(res["BatchDecoupledVariationalStrategy"]) > 1e-6:
    found.append("E1")

# ---- E2
model = Model(CiqVariationalStrategy, NaturalVariationalDistribution)
with torch.no_grad():
    model(X)
    vd = model.variational_strategy._variational_distribution
    A = torch.randn(M_IND, M_IND) * 0.3
    P = A @ A.T + torch.eye(M_IND)
    vd.natural_mat.copy_(-0.5 * P)
    vd.natural_vec.copy_(torch.randn(M_IND))
model.train()
out = model(X)
kl = model.variational_strategy.kl_divergence()
S = torch.linalg.inv(P)
m = S @ vd.natural_vec.detach()
ref = torch.distributions.kl_divergence(
    torch.distributions.MultivariateNormal(m, S), torch.distributions.MultivariateNormal(torch.zeros(M_IND), torch.eye(M_IND))
).item()
print(f"E2  CIQ + natural parameters: kl_divergence() = {kl.item():.4f}, closed form = {ref:.4f}")
if abs(kl.item() - ref) > 1e-3:
    found.append("E2")

# ---- E3
model = Model(UnwhitenedVariationalStrategy, DeltaVariationalDistribution)
model.eval()
with torch.no_grad():
    model(X)
    try:
        model(Z.clone())
        print("E3  unwhitened + delta at X == Z: fine")
    except RuntimeError as e:
        print(f"E3  unwhitened + delta at X == Z: raises RuntimeError({str(e)!r})")
        found.append("E3")

# ---- E4
Q, T = 3, 4
model = Model(VariationalStrategy, CholeskyVariationalDistribution, torch.Size([Q]), torch.Size([Q]),
              lmc=dict(num_tasks=T, num_latents=Q, latent_dim=-1))
model.eval()
with torch.no_grad():
    for B in (2, 3):
        Xb = torch.rand(B, 1, N, D)  # B input sets, broadcast against the Q latent GPs
        ti = torch.randint(0, T, (B, N))
        full = model(Xb)  # B x N x T multitask output: the reference for every (input, task) pair
        want = torch.gather(full.mean, -1, ti.unsqueeze(-1)).squeeze(-1)
        try:
            got = model(Xb, task_indices=ti).mean
            err = (got - want).abs().max().item() if got.shape == want.shape else float("nan")
            print(f"E4  X batch {B}: task_indices of shape {tuple(ti.shape)} -> mean shape {tuple(got.shape)}, max err vs all-task output {err:.2e}")
            if not err < 1e-6:
                found.append("E4")
        except Exception as e:  # noqa
            print(f"E4  X batch {B}: task_indices of shape {tuple(ti.shape)} raises {type(e).__name__}: {str(e)[:90]}")
            found.append("E4")

# ---- E5
model = Model(VariationalStrategy, CholeskyVariationalDistribution, torch.Size([Q]), torch.Size([]),
              lmc=dict(num_tasks=T, num_latents=Q, latent_dim=-1))
model.eval()
with torch.no_grad():
    print("E5  shared kernel, q(f):", tuple(model(X).mean.shape))
    try:
        print("E5  shared kernel, prior:", tuple(model(X, prior=True).mean.shape))
    except Exception as e:  # noqa
        print(f"E5  shared kernel, prior=True raises {type(e).__name__}: {str(e)[:100]}")
        found.append("E5")

print("present:", sorted(set(found)))
sys.exit(1 if found else 0)
