#!/usr/bin/env python3
"""
C14 violation 1: LMCVariationalStrategy (and IndependentMultitaskVariationalStrategy) with the latent/task dimension
NOT in the last batch position (latent_dim=-2 / task_dim=-2) and per-latent kernel hyper-parameters.

The multitask q(f) must be   mean[g] = sum_q a[q,g,:] * mu[q,g],   cov[g] = sum_q kron(Sigma[q,g], a[q,g] a[q,g]^T)
where (mu[q,g], Sigma[q,g]) is the latent q(f) of latent q in group g.  The reference below builds every latent q(f) from
scratch with dense linear algebra (whitened SVGP closed form) and mixes them with the lmc coefficients.

Observed: the mean is right, the covariance is not (the prior term K_xx of latent [q,g] is taken from latent [g,q]);
for a non-square batch shape the call raises.
"""
import sys
import warnings

import torch

import gpytorch
from gpytorch.variational import (
    CholeskyVariationalDistribution,
    IndependentMultitaskVariationalStrategy,
    LMCVariationalStrategy,
    VariationalStrategy,
)

warnings.filterwarnings("ignore")
torch.set_default_dtype(torch.float64)
torch.manual_seed(0)

M_IND, N, D, T = 6, 5, 2, 3


class Model(gpytorch.models.ApproximateGP):
    def __init__(self, Z, batch_shape, wrapper, dim):
        vd = CholeskyVariationalDistribution(Z.size(-2), batch_shape=batch_shape)
        base = VariationalStrategy(self, Z, vd, learn_inducing_locations=True)
        if wrapper == "lmc":
            vs = LMCVariationalStrategy(base, num_tasks=T, num_latents=batch_shape[dim], latent_dim=dim)
        else:
            vs = IndependentMultitaskVariationalStrategy(base, num_tasks=batch_shape[dim], task_dim=dim)
        super().__init__(vs)
        self.mean_module = gpytorch.means.ConstantMean(batch_shape=batch_shape)
        self.covar_module = gpytorch.kernels.ScaleKernel(
            gpytorch.kernels.RBFKernel(batch_shape=batch_shape), batch_shape=batch_shape
        )

    def forward(self, x):
        return gpytorch.distributions.MultivariateNormal(self.mean_module(x), self.covar_module(x))


def make(batch_shape, wrapper, dim):
    g = torch.Generator().manual_seed(1)
    Z = torch.rand(M_IND, D, generator=g)
    model = Model(Z, batch_shape, wrapper, dim)
    with torch.no_grad():
        model(torch.rand(N, D, generator=g))  # lets the library initialise the variational parameters
        vd = model.variational_strategy.base_variational_strategy._variational_distribution
        vd.variational_mean.copy_(torch.randn(*batch_shape, M_IND, generator=g))
        L = torch.randn(*batch_shape, M_IND, M_IND, generator=g).tril() * 0.3 + torch.eye(M_IND)
        vd.chol_variational_covar.copy_(L)
        # every latent GP gets its own hyper-parameters
        ls = 0.2 + torch.rand(*batch_shape, 1, 1, generator=g)
        model.covar_module.base_kernel.lengthscale = ls
        model.covar_module.outputscale = 0.5 + torch.rand(*batch_shape, generator=g)
        model.mean_module.constant.copy_(torch.randn(*batch_shape, generator=g))
    model.train()
    model.eval()
    return model


def rbf(a, b, ls, os_):
    d2 = (a.unsqueeze(-2) - b.unsqueeze(-3)).pow(2).sum(-1)
    return os_ * torch.exp(-0.5 * d2 / ls**2)


def latent_qf(model, X, idx):
    """dense whitened SVGP closed form for the latent GP with batch index idx"""
    base = model.variational_strategy.base_variational_strategy
    Z = base.inducing_points
    ls = model.covar_module.base_kernel.lengthscale[idx].squeeze()
    os_ = model.covar_module.outputscale[idx]
    c = model.mean_module.constant[idx]
    m = base._variational_distribution.variational_mean[idx]
    Lq = base._variational_distribution.chol_variational_covar[idx].tril()
    S = Lq @ Lq.T
    Kzz = rbf(Z, Z, ls, os_) + base.jitter_val * torch.eye(M_IND)
    Kzx = rbf(Z, X, ls, os_)
    Kxx = rbf(X, X, ls, os_) + base.jitter_val * torch.eye(X.size(-2))  # the library adds its jitter to K_xx
    A = torch.linalg.solve_triangular(torch.linalg.cholesky(Kzz), Kzx, upper=False)  # L^-1 Kzx
    mean = c + A.T @ m
    cov = Kxx + A.T @ (S - torch.eye(M_IND)) @ A
    return mean, cov


failed = False
X = torch.rand(N, D, generator=torch.Generator().manual_seed(5))

# ---------------------------------------------------------------- LMC, latent_dim = -2, batch shape (Q=2, G=2)
Q, G = 2, 2
model = make(torch.Size([Q, G]), "lmc", -2)
with torch.no_grad():
    out = model(X)  # MultitaskMultivariateNormal, batch shape (G,), event N x T
    a = model.variational_strategy.lmc_coefficients  # Q x G x T
    ref_mean = torch.zeros(G, N, T)
    ref_cov = torch.zeros(G, N * T, N * T)
    for g_ in range(G):
        for q in range(Q):
            mu, Sig = latent_qf(model, X, (q, g_))
            ref_mean[g_] += mu.unsqueeze(-1) * a[q, g_]
            ref_cov[g_] += torch.kron(Sig, torch.outer(a[q, g_], a[q, g_]))
    ref_cov += model.variational_strategy.jitter_val * torch.eye(N * T)  # LMC adds its own jitter on top
    e_mean = (out.mean - ref_mean).abs().max().item()
    e_cov = (out.covariance_matrix - ref_cov).abs().max().item()
    e_var = (out.variance - ref_cov.diagonal(dim1=-1, dim2=-2).view(G, N, T)).abs().max().item()
print("LMC latent_dim=-2, variational/kernel batch shape (2, 2):")
print(f"   output shape {tuple(out.mean.shape)}   max|mean - ref| = {e_mean:.2e}   max|cov - ref| = {e_cov:.2e}"
      f"   max|var - ref| = {e_var:.2e}")
if e_cov > 1e-6 or e_mean > 1e-6:
    failed = True

# control: same model but latent dimension last -> agrees with the same dense reference
model = make(torch.Size([G, Q]), "lmc", -1)
with torch.no_grad():
    out = model(X)
    a = model.variational_strategy.lmc_coefficients  # G x Q x T
    ref_cov = torch.zeros(G, N * T, N * T)
    for g_ in range(G):
        for q in range(Q):
            mu, Sig = latent_qf(model, X, (g_, q))
            ref_cov[g_] += torch.kron(Sig, torch.outer(a[g_, q], a[g_, q]))
    ref_cov += model.variational_strategy.jitter_val * torch.eye(N * T)
    print(f"   control latent_dim=-1 (batch shape (2, 2)): max|cov - ref| = "
          f"{(out.covariance_matrix - ref_cov).abs().max().item():.2e}")

# ---------------------------------------------------------------- LMC, latent_dim=-2, non-square batch shape (3, 2)
try:
    model = make(torch.Size([3, 2]), "lmc", -2)
    with torch.no_grad():
        out = model(X)
        _ = out.covariance_matrix
    print("LMC latent_dim=-2, batch shape (3, 2): no exception")
except Exception as e:  # noqa
    print(f"LMC latent_dim=-2, batch shape (3, 2): raises {type(e).__name__}: {str(e)[:110]}")
    failed = True

# ---------------------------------------------------------------- IndependentMultitask, task_dim=-2
model = make(torch.Size([2, 2]), "indep", -2)
with torch.no_grad():
    out = model(X)  # batch (G,), tasks = first batch dim
    ref_cov = torch.zeros(2, N, 2, N, 2)
    for g_ in range(2):
        for t in range(2):
            mu, Sig = latent_qf(model, X, (t, g_))
            ref_cov[g_, :, t, :, t] = Sig
    ref_cov = ref_cov.reshape(2, N * 2, N * 2)
    e = (out.covariance_matrix - ref_cov).abs().max().item()
print(f"IndependentMultitask task_dim=-2, batch shape (2, 2): max|cov - ref| = {e:.2e}")
if e > 1e-6:
    failed = True

print("VIOLATION PRESENT" if failed else "no violation")
sys.exit(1 if failed else 0)
