#!/usr/bin/env python3
"""
C14 violation 3: BatchDecoupledVariationalStrategy silently mis-handles inputs X whose batch shape happens to equal the
batch shape of its (internally stacked) inducing points, e.g. a batch of TWO input sets  X : 2 x N x D.

The strategy stores its inducing points as `... x 2 x M x D` (mean copy / variance copy) and relies on `_expand_inputs`
to insert the matching mean/variance dimension into X.  `_VariationalStrategy.__call__` only calls `_expand_inputs` when
`inducing_points.shape[:-2] != x.shape[:-2]`.  For X of shape 2 x N x D the shapes agree, the dimension is never inserted,
and forward() uses X[0] for the predictive mean and X[1] for the predictive covariance: a single (non-batched) Gaussian
comes back instead of the two q(f(X[0])), q(f(X[1])).

Reference: dense closed form  mean = mu_X + K_XZ K_ZZ^-1 (m_u - mu_Z),  cov = K_XX - K_XZ K_ZZ^-1 (K_ZZ - S_u) K_ZZ^-1 K_ZX
with u = mu_Z + L e, e ~ N(m, S) (mean and variance inducing points / hyper-parameters are identical here, so the
decoupled model is an ordinary whitened SVGP), and the library's own VariationalStrategy for the same q(u).
"""
import sys
import warnings

import torch

import gpytorch
from gpytorch.variational import BatchDecoupledVariationalStrategy, CholeskyVariationalDistribution, VariationalStrategy

warnings.filterwarnings("ignore")
torch.set_default_dtype(torch.float64)
torch.manual_seed(0)
M_IND, N, D = 6, 5, 2


class Model(gpytorch.models.ApproximateGP):
    def __init__(self, Z, strategy, batch_shape=torch.Size([])):
        vd = CholeskyVariationalDistribution(Z.size(-2), batch_shape=batch_shape)
        vs = strategy(self, Z, vd, learn_inducing_locations=True)
        super().__init__(vs)
        self.mean_module = gpytorch.means.ConstantMean()
        self.covar_module = gpytorch.kernels.ScaleKernel(gpytorch.kernels.RBFKernel())
        self.mean_module.constant.data.fill_(0.4)
        self.covar_module.outputscale = 1.3
        self.covar_module.base_kernel.lengthscale = 0.4

    def forward(self, x):
        return gpytorch.distributions.MultivariateNormal(self.mean_module(x), self.covar_module(x))


def build(strategy, batch_shape=torch.Size([])):
    g = torch.Generator().manual_seed(1)
    Z = torch.rand(M_IND, D, generator=g)
    model = Model(Z, strategy, batch_shape)
    m = torch.randn(*batch_shape, M_IND, generator=g)
    L = (torch.randn(*batch_shape, M_IND, M_IND, generator=g) * 0.3).tril() + torch.eye(M_IND)
    with torch.no_grad():
        model(torch.rand(N, D, generator=g))  # library initialises the variational parameters
        vd = model.variational_strategy._variational_distribution
        vd.variational_mean.copy_(m)
        vd.chol_variational_covar.copy_(L)
    model.train()
    model.eval()
    return model, Z, m, L


def dense_qf(model, Z, m, L, X):
    jit = model.variational_strategy.jitter_val
    Kzz = model.covar_module(Z).to_dense() + jit * torch.eye(M_IND)
    Kxz = model.covar_module(X, Z).to_dense()
    Kxx = model.covar_module(X).to_dense() + jit * torch.eye(X.size(-2))
    Lz = torch.linalg.cholesky(Kzz)
    mz, mx = model.mean_module(Z), model.mean_module(X)
    mu_u = mz + Lz @ m
    S_u = Lz @ (L @ L.T) @ Lz.T
    A = Kxz @ torch.linalg.inv(Kzz)
    return mx + A @ (mu_u - mz), Kxx - A @ (Kzz - S_u) @ A.T


failed = False
gx = torch.Generator().manual_seed(7)
X = torch.rand(2, N, D, generator=gx)  # a batch of two input sets

dec, Z, m, L = build(BatchDecoupledVariationalStrategy)
std, _, _, _ = build(VariationalStrategy)
with torch.no_grad():
    out = dec(X)
    out_std = std(X)
    ref = [dense_qf(dec, Z, m, L, X[i]) for i in range(2)]
    ref_mean = torch.stack([r[0] for r in ref])
    ref_cov = torch.stack([r[1] for r in ref])
    # sanity: a single (un-batched) input set is handled correctly by the decoupled strategy
    single = dec(X[0])
    e_single = max((single.mean - ref_mean[0]).abs().max().item(), (single.covariance_matrix - ref_cov[0]).abs().max().item())

print(f"X has shape {tuple(X.shape)}")
print(f"  dense reference q(f): mean shape {tuple(ref_mean.shape)}")
print(f"  VariationalStrategy (same q(u)): mean shape {tuple(out_std.mean.shape)}, "
      f"max err mean {(out_std.mean - ref_mean).abs().max().item():.1e}, cov {(out_std.covariance_matrix - ref_cov).abs().max().item():.1e}")
print(f"  BatchDecoupledVariationalStrategy on X[0] alone: max err {e_single:.1e}")
print(f"  BatchDecoupledVariationalStrategy on X: mean shape {tuple(out.mean.shape)}, covariance shape {tuple(out.covariance_matrix.shape)}")
if out.mean.shape != ref_mean.shape:
    failed = True
    print("  -> wrong batch shape: one Gaussian returned for two input sets")
    print(f"     returned mean == q(f(X[0])) mean : {(out.mean - ref_mean[0]).abs().max().item():.1e}")
    print(f"     returned cov  == q(f(X[1])) cov  : {(out.covariance_matrix - ref_cov[1]).abs().max().item():.1e}")
    print(f"     returned cov  vs q(f(X[0])) cov  : {(out.covariance_matrix - ref_cov[0]).abs().max().item():.1e}")
else:
    e = max((out.mean - ref_mean).abs().max().item(), (out.covariance_matrix - ref_cov).abs().max().item())
    print(f"  max err {e:.1e}")
    failed = failed or e > 1e-6

print("VIOLATION PRESENT" if failed else "no violation")
sys.exit(1 if failed else 0)
