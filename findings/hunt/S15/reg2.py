# Regression of commit 01ecd4e ("GaussHermiteQuadrature1D keeps float64 accuracy under .double()").
#
# On a change of dtype the new _apply throws the current nodes / weights away and recomputes them with
# np.polynomial.hermite.hermgauss(self.num_locs) - NOT with self._locs_and_weights(...), the hook the constructor
# uses.  A subclass that overrides _locs_and_weights (pruned rule, another rule) or an instance whose nodes were
# replaced silently gets the plain Gauss-Hermite rule back after .double() / .float() / .half() / .to(dtype):
# different number of nodes, different values.  Before the commit the nodes were only converted.
import sys
import warnings

import torch

from gpytorch.utils.quadrature import GaussHermiteQuadrature1D

warnings.simplefilter("ignore")


class PrunedGaussHermite(GaussHermiteQuadrature1D):
    """Gauss-Hermite rule without the nodes whose weight is negligible."""

    def _locs_and_weights(self, num_locs):
        locations, weights = super()._locs_and_weights(num_locs)
        keep = weights > 1e-6
        return locations[keep], weights[keep]


class MidpointRule(GaussHermiteQuadrature1D):
    def _locs_and_weights(self, num_locs):
        return torch.linspace(-1.0, 1.0, num_locs), torch.ones(num_locs) / num_locs


bad = False

quad = PrunedGaussHermite(20)
before = quad.locations.clone()
quad.double()
print(f"pruned rule: {before.numel()} nodes before .double(), {quad.locations.numel()} nodes after")
if quad.locations.numel() != before.numel() or quad.weights.numel() != before.numel():
    bad = True

quad = MidpointRule(5)
before = quad.locations.clone()
quad.double()
print(f"custom rule: nodes before .double() {before.tolist()}")
print(f"             nodes after  .double() {quad.locations.tolist()}")
if quad.locations.shape != before.shape or not torch.allclose(quad.locations.float(), before, atol=1e-6):
    bad = True

quad = GaussHermiteQuadrature1D(5)
quad.locations = quad.locations * 2.0  # rescaled by the user
before = quad.locations.clone()
quad.to(torch.float64)
print(f"reassigned nodes: before {before.tolist()}")
print(f"                  after  {quad.locations.tolist()}")
if not torch.allclose(quad.locations.float(), before, atol=1e-6):
    bad = True

print("PROBLEM PRESENT" if bad else "ok")
sys.exit(1 if bad else 0)
