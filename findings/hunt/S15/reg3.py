# Regression of commit 37b2e1c ("DirichletClassificationLikelihood uses its own number of classes for call-time
# targets") - the same call is also made by 76bd261 in get_fantasy_likelihood.
#
# The likelihood now calls   self._prepare_targets(targets, alpha_epsilon=..., dtype=..., num_classes=self.num_classes).
# A subclass that overrides _prepare_targets with the signature the method had until this commit
# (targets, alpha_epsilon, dtype) - the natural way to customise the label transform - still constructs fine
# (__init__ does not pass num_classes) but every call with targets= now dies with
# TypeError: unexpected keyword argument 'num_classes'.  Before the commit the call worked.
import sys
import warnings

import torch

from gpytorch.distributions import MultivariateNormal
from gpytorch.likelihoods import DirichletClassificationLikelihood

warnings.simplefilter("ignore")


class InflatedDirichletLikelihood(DirichletClassificationLikelihood):
    """Doubles the label noise; written against the documented (pre-commit) signature."""

    def _prepare_targets(self, targets, alpha_epsilon=0.01, dtype=torch.float):
        sigma2, transformed, num_classes = super()._prepare_targets(targets, alpha_epsilon=alpha_epsilon, dtype=dtype)
        return 2.0 * sigma2, transformed, num_classes


labels = torch.tensor([0, 1, 2, 1, 0, 2])
likelihood = InflatedDirichletLikelihood(labels)
print("constructed, noise shape", tuple(likelihood.noise.shape))
f = MultivariateNormal(torch.zeros(3, 3), torch.eye(3).expand(3, 3, 3))
bad = False
try:
    out = likelihood(f, targets=torch.tensor([0, 1, 2]))
    expected = 1.0 + 2.0 * torch.log(1.0 / torch.tensor([1.01, 0.01, 0.01]) + 1.0)
    print("likelihood(f, targets=[0,1,2]).variance[0] =", out.variance[0].tolist(), "expected", expected.tolist())
    bad = not torch.allclose(out.variance[0], expected, atol=1e-4)
except TypeError as e:
    print("likelihood(f, targets=...) RAISED TypeError:", e)
    bad = True

print("PROBLEM PRESENT" if bad else "ok")
sys.exit(1 if bad else 0)
