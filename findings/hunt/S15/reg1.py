# Regression of commit cac3579 ("Kernel.__getitem__ updates the batch shape of kernels without parameters of their own").
#
# The new line   new_kernel.batch_shape = torch.empty(1).expand(self._batch_shape)[index].shape
# applies the full batch index to the kernel's OWN declared batch shape (_batch_shape).  A kernel whose own
# batch_shape is only broadcastable with (not equal to) that of its sub-kernel has parameters shaped by the
# BROADCAST batch shape (ScaleKernel builds raw_outputscale from self.batch_shape == [2, 3]) while _batch_shape is
# [3]; the index (i, j) has more entries than _batch_shape has dimensions -> IndexError.  The fallback in
# LazyEvaluatedKernelTensor._getitem (expand_batch, then index again) cannot help because the kernel already has
# the full batch shape.  Before the commit the parameters were indexed directly and the result was exact.
import sys
import warnings

import torch

import gpytorch
from gpytorch.kernels import RBFKernel, ScaleKernel

warnings.simplefilter("ignore")
torch.manual_seed(0)

x = torch.randn(2, 3, 5, 2)
bad = False
for own_shape in ([3], [2, 1], [1]):
    kernel = ScaleKernel(RBFKernel(batch_shape=torch.Size([2, 3])), batch_shape=torch.Size(own_shape))
    kernel.outputscale = torch.rand(2, 3) + 0.5
    kernel.base_kernel.lengthscale = torch.rand(2, 3, 1, 1) + 0.5
    print(
        f"ScaleKernel(RBF[2,3], batch_shape={own_shape}): batch_shape={tuple(kernel.batch_shape)} "
        f"raw_outputscale={tuple(kernel.raw_outputscale.shape)}"
    )
    with torch.no_grad():
        dense = kernel(x).to_dense()
        for index in (1, (1, 2), (slice(None), 2)):
            try:
                got = kernel(x)[index].to_dense()
                err = float((got - dense[index]).abs().max())
                ok = got.shape == dense[index].shape and err < 1e-5
                print(f"   kernel(x)[{index}] -> shape {tuple(got.shape)}, max abs deviation from dense {err:.2e}")
            except Exception as e:  # noqa
                ok = False
                print(f"   kernel(x)[{index}] RAISED {type(e).__name__}: {e}")
            bad = bad or not ok
        try:
            sub = kernel[1, 2]
            print(f"   kernel[1, 2].batch_shape -> {tuple(sub.batch_shape)}")
            bad = bad or tuple(sub.batch_shape) != ()
        except Exception as e:  # noqa
            bad = True
            print(f"   kernel[1, 2] RAISED {type(e).__name__}: {e}")

print("PROBLEM PRESENT" if bad else "ok")
sys.exit(1 if bad else 0)
