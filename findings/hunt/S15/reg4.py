# Incomplete repair in commit 76bd261 ("DirichletClassificationLikelihood.get_fantasy_likelihood reads the targets
# it asks for").
#
# get_fantasy_likelihood(targets=labels) now works when called by hand, but the only callers in the library -
# ExactGP.get_fantasy_model and DefaultPredictionStrategy.get_fantasy_strategy - can never supply it:
#   * both have a positional parameter called `targets` (the regression targets), so `targets=labels` is a
#     "multiple values for argument 'targets'" TypeError;
#   * ExactGP.get_fantasy_model forwards only the `noise` keyword to the likelihood, and the Dirichlet likelihood
#     rejects a call without `targets` ("requires a `targets` kwarg"), also when the noise of the new points is given
#     (the contract of its parent FixedNoiseGaussianLikelihood).
# So a Dirichlet classification GP still cannot be fantasized (same as before the commit).
import sys
import warnings

import torch

import gpytorch
from gpytorch.likelihoods import DirichletClassificationLikelihood

warnings.simplefilter("ignore")
torch.manual_seed(0)

train_x = torch.randn(8, 2)
labels = torch.tensor([0, 1, 2, 1, 0, 2, 1, 0])
likelihood = DirichletClassificationLikelihood(labels)


class DirichletGP(gpytorch.models.ExactGP):
    def __init__(self, x, y, lik):
        super().__init__(x, y, lik)
        bs = torch.Size((lik.num_classes,))
        self.mean_module = gpytorch.means.ConstantMean(batch_shape=bs)
        self.covar_module = gpytorch.kernels.ScaleKernel(gpytorch.kernels.RBFKernel(batch_shape=bs), batch_shape=bs)

    def forward(self, x):
        return gpytorch.distributions.MultivariateNormal(self.mean_module(x), self.covar_module(x))


model = DirichletGP(train_x, likelihood.transformed_targets, likelihood)
model.eval()
likelihood.eval()

new_x = torch.randn(2, 2)
new_labels = torch.tensor([1, 0])
# transformed targets / noise of the new labels, computed independently of the library
alpha = torch.full((2, 3), likelihood.alpha_epsilon)
alpha[torch.arange(2), new_labels] += 1.0
new_noise = torch.log(1.0 / alpha + 1.0).t()
new_y = (alpha.log() - 0.5 * torch.log(1.0 / alpha + 1.0)).t()

try:
    by_hand = likelihood.get_fantasy_likelihood(targets=new_labels)
    print("likelihood.get_fantasy_likelihood(targets=labels) by hand -> noise", tuple(by_hand.noise.shape))
except Exception as e:  # noqa  (the defect the commit repaired)
    print(f"likelihood.get_fantasy_likelihood(targets=labels) by hand RAISED {type(e).__name__}: {e}")

succeeded = False
with torch.no_grad():
    model(torch.randn(4, 2))  # fill the caches
    for description, kwargs in (
        ("no keyword", {}),
        ("noise=<noise of the new labels>", {"noise": new_noise}),
        ("targets=<new labels>", {"targets": new_labels}),
    ):
        try:
            fantasy = model.get_fantasy_model(new_x, new_y, **kwargs)
            n = fantasy.train_targets.shape[-1]
            print(f"model.get_fantasy_model(new_x, new_y, {description}) -> {n} training points")
            succeeded = succeeded or (n == 10 and fantasy.likelihood.noise.shape[-1] == 10)
        except Exception as e:  # noqa
            print(f"model.get_fantasy_model(new_x, new_y, {description}) RAISED {type(e).__name__}: {e}")

bad = not succeeded
print("PROBLEM PRESENT (no way to fantasize a Dirichlet GP through the model)" if bad else "ok")
sys.exit(1 if bad else 0)
