"""
Extra (confirmed, exception): multitask exact GP (MultitaskKernel + MultitaskGaussianLikelihood), ONE fantasy point per
fantasy, but a fantasy batch dimension f (targets f x 1 x T, inputs 1 x d shared or f x 1 x d).  get_fantasy_model raises
"Flattening the training labels failed": get_fantasy_strategy flattens full_targets to f x (n+1)T (line 155) and then
DefaultPredictionStrategy.__init__ strips len(event_shape)=2 trailing dims of the already flat labels (line 48).  Without
the batch dimension the flat (n+1)T vector passes by luck.  (Different trigger and root cause than the known
"more than one fantasy point" failure, which is the (m,T) - (mT,) subtraction at line 196.)
The non-batch single-point multitask fantasy is checked against the dense formula as a control.
"""
import sys
import warnings

import torch

import gpytorch

warnings.filterwarnings("ignore")
torch.set_default_dtype(torch.float64)
torch.manual_seed(1)
n, t, d, T, f = 5, 3, 2, 2, 3


class MTGP(gpytorch.models.ExactGP):
    def __init__(self, x, y, lik):
        super().__init__(x, y, lik)
        self.mean_module = gpytorch.means.MultitaskMean(gpytorch.means.ConstantMean(), num_tasks=T)
        self.covar_module = gpytorch.kernels.MultitaskKernel(gpytorch.kernels.RBFKernel(), num_tasks=T, rank=1)

    def forward(self, x):
        return gpytorch.distributions.MultitaskMultivariateNormal(self.mean_module(x), self.covar_module(x))


X, Y, Xs = torch.rand(n, d), torch.randn(n, T), torch.rand(t, d)
lik = gpytorch.likelihoods.MultitaskGaussianLikelihood(num_tasks=T)
model = MTGP(X, Y, lik)
model.eval()


def dense(Xa, Ya):
    prior = model.forward(torch.cat([Xa, Xs]))
    K, mu = prior.covariance_matrix, prior.mean.reshape(-1)
    nt = Xa.shape[0] * T
    A = lik(model.forward(Xa)).covariance_matrix
    return (mu[nt:] + K[nt:, :nt] @ torch.linalg.solve(A, Ya.reshape(-1) - mu[:nt])).view(t, T)


bad = False
with torch.no_grad():
    model(Xs)
    Xf, Yf = torch.rand(1, d), torch.randn(f, 1, T)
    fm = model.get_fantasy_model(Xf, Yf[0])
    err = (fm(Xs).mean - dense(torch.cat([X, Xf]), torch.cat([Y, Yf[0]]))).abs().max().item()
    print("control: non-batch single-point fantasy, max |mean - dense| =", err)
    for name, xin in [("shared inputs 1 x d", Xf), ("per-fantasy inputs f x 1 x d", torch.rand(f, 1, d))]:
        try:
            fm = model.get_fantasy_model(xin, Yf)
            print(name, "-> prediction shape", tuple(fm(Xs).mean.shape))
        except Exception as e:  # noqa
            print(name, "targets f x 1 x T -> RAISED", type(e).__name__, str(e)[:70])
            bad = True
sys.exit(1 if bad else 0)
