"""
C04 bug 1: get_fantasy_model(X_f, y_f, noise=...) on a model with a (homoskedastic) GaussianLikelihood returns a
fantasy model that is not a GP at all: its predictive covariance depends on settings.fast_pred_var
(fast_pred_var=True -> the per-point fantasy noise is used, fast_pred_var=False -> it is ignored), and its mean
always ignores the fantasy noise (the incrementally updated mean cache, which does use it, is stored under a cache
key that is never read).

Reference values: dense GP formulas for the concatenated data
   (a) "het": noise of the fantasy points = the `noise` passed to get_fantasy_model
   (b) "hom": noise of the fantasy points = likelihood.noise (i.e. the kwarg ignored)
Whatever one regards as the right semantics, one fantasy model has to agree with ONE of them for mean and
covariance and for both values of fast_pred_var.  It does not.
"""
import pickle
import sys
import warnings

import torch

import gpytorch

warnings.filterwarnings("ignore")
torch.set_default_dtype(torch.float64)
torch.manual_seed(0)


class GP(gpytorch.models.ExactGP):
    def __init__(self, x, y, lik):
        super().__init__(x, y, lik)
        self.mean_module = gpytorch.means.ConstantMean()
        self.covar_module = gpytorch.kernels.ScaleKernel(gpytorch.kernels.RBFKernel())

    def forward(self, x):
        return gpytorch.distributions.MultivariateNormal(self.mean_module(x), self.covar_module(x))


def dense_posterior(model, X, Y, Xs, noise_diag):
    K = model.covar_module(X).to_dense()
    Ks = model.covar_module(Xs, X).to_dense()
    Kss = model.covar_module(Xs).to_dense()
    mu, mus = model.mean_module(X), model.mean_module(Xs)
    A = K + torch.diag(noise_diag)
    mean = mus + Ks @ torch.linalg.solve(A, Y - mu)
    cov = Kss - Ks @ torch.linalg.solve(A, Ks.T)
    return mean, cov


n, m, t, d = 6, 2, 4, 2
X, Y = torch.rand(n, d), torch.randn(n)
Xf, Yf = torch.rand(m, d), torch.randn(m)
Nf = torch.tensor([0.05, 2.0])  # observation noise of the two fantasy points
Xs = torch.rand(t, d)

lik = gpytorch.likelihoods.GaussianLikelihood()
lik.noise = 0.3
model = GP(X, Y, lik)
model.covar_module.base_kernel.lengthscale = 0.4
model.eval()

with torch.no_grad():
    model(Xs)  # fill the caches
    fm = model.get_fantasy_model(Xf, Yf, noise=Nf)

    with gpytorch.settings.fast_pred_var(False):
        p = fm(Xs)
        mean_off, cov_off = p.mean.clone(), p.covariance_matrix.clone()
    with gpytorch.settings.fast_pred_var(True):
        p = fm(Xs)
        mean_on, cov_on = p.mean.clone(), p.covariance_matrix.clone()

    Xa, Ya = torch.cat([X, Xf]), torch.cat([Y, Yf])
    het = dense_posterior(model, Xa, Ya, Xs, torch.cat([lik.noise.expand(n), Nf]))
    hom = dense_posterior(model, Xa, Ya, Xs, lik.noise.expand(n + m))

    # the incrementally updated solve that the fantasy strategy carries (key without args) vs. the one it uses
    strat = fm.prediction_strategy
    carried = strat._memoize_cache[("mean_cache", (), pickle.dumps({}))]
    used = strat.mean_cache
    A_het = model.covar_module(Xa).to_dense() + torch.diag(torch.cat([lik.noise.expand(n), Nf]))
    alpha_het = torch.linalg.solve(A_het, Ya - model.mean_module(Xa))


def md(a, b):
    return (a - b).abs().max().item()


print("predictions of ONE fantasy model created with get_fantasy_model(Xf, Yf, noise=[0.05, 2.0]), GaussianLikelihood")
print(f"  fast_pred_var off vs on : |d mean| = {md(mean_off, mean_on):.3e}   |d cov| = {md(cov_off, cov_on):.3e}")
print("  against the dense GP that uses the given fantasy noise ('het'):")
print(f"     fast_pred_var=False: |d mean| = {md(mean_off, het[0]):.3e}   |d cov| = {md(cov_off, het[1]):.3e}")
print(f"     fast_pred_var=True : |d mean| = {md(mean_on, het[0]):.3e}   |d cov| = {md(cov_on, het[1]):.3e}")
print("  against the dense GP that ignores the given fantasy noise ('hom'):")
print(f"     fast_pred_var=False: |d mean| = {md(mean_off, hom[0]):.3e}   |d cov| = {md(cov_off, hom[1]):.3e}")
print(f"     fast_pred_var=True : |d mean| = {md(mean_on, hom[0]):.3e}   |d cov| = {md(cov_on, hom[1]):.3e}")
print("  mean cache: carried (incremental update) vs alpha_het =", f"{md(carried.reshape(-1), alpha_het):.3e}",
      "; the one actually used vs alpha_het =", f"{md(used.reshape(-1), alpha_het):.3e}")

tol = 1e-6
consistent_het = max(md(mean_off, het[0]), md(cov_off, het[1]), md(mean_on, het[0]), md(cov_on, het[1])) < tol
consistent_hom = max(md(mean_off, hom[0]), md(cov_off, hom[1]), md(mean_on, hom[0]), md(cov_on, hom[1])) < tol
if consistent_het or consistent_hom:
    print("OK: fantasy model agrees with one exact GP for both settings")
    sys.exit(0)
print("VIOLATION: the fantasy model agrees with neither exact GP; covariance depends on fast_pred_var")
sys.exit(1)
