"""
Extra (confirmed, exception): batch of GPs defined through batch hyper-parameters with SHARED (non-batch) train inputs
(train_x: n x d, train_y: b x n, kernel/mean/likelihood batch_shape (b,)).  The source predicts (b x t), but
get_fantasy_model(X_f [m x d, shared], y_f [b x m]) raises, because ExactGP.get_fantasy_model /
DefaultPredictionStrategy.get_fantasy_strategy take the model batch shape from train_inputs[0].shape[:-2] (= ()) and do
`full_mean.view(*batch_shape, -1)` on the b x (n+m) prior mean.  Passing the same inputs expanded to b x m x d works and
matches the dense reference.
"""
import sys
import warnings

import torch

import gpytorch

warnings.filterwarnings("ignore")
torch.set_default_dtype(torch.float64)
torch.manual_seed(1)
b, n, m, t, d = 3, 6, 2, 4, 2
bs = torch.Size([b])


class GP(gpytorch.models.ExactGP):
    def __init__(self, x, y, lik):
        super().__init__(x, y, lik)
        self.mean_module = gpytorch.means.ConstantMean(batch_shape=bs)
        self.covar_module = gpytorch.kernels.ScaleKernel(gpytorch.kernels.RBFKernel(batch_shape=bs), batch_shape=bs)

    def forward(self, x):
        return gpytorch.distributions.MultivariateNormal(self.mean_module(x), self.covar_module(x))


X, Y = torch.rand(n, d), torch.randn(b, n)
lik = gpytorch.likelihoods.GaussianLikelihood(batch_shape=bs)
model = GP(X, Y, lik)
with torch.no_grad():
    model.covar_module.base_kernel.raw_lengthscale.copy_(torch.linspace(-1, 0.5, b).view(b, 1, 1))
    model.mean_module.raw_constant.copy_(torch.linspace(-0.5, 0.5, b))
model.eval()
Xs, Xf, Yf = torch.rand(t, d), torch.rand(m, d), torch.randn(b, m)

with torch.no_grad():
    print("source prediction shape:", tuple(model(Xs).mean.shape))
    Xa = torch.cat([X, Xf]).expand(b, n + m, d)
    Ya = torch.cat([Y, Yf], -1)
    K = model.covar_module(Xa).to_dense() + lik.noise.unsqueeze(-1) * torch.eye(n + m)
    Ks = model.covar_module(Xs.expand(b, t, d), Xa).to_dense()
    ref = model.mean_module(Xs.expand(b, t, d)) + (Ks @ torch.linalg.solve(K, (Ya - model.mean_module(Xa)).unsqueeze(-1))).squeeze(-1)
    fm = model.get_fantasy_model(Xf.expand(b, m, d), Yf)
    print("explicitly expanded fantasy inputs (b x m x d): max |mean - dense| =", (fm(Xs).mean - ref).abs().max().item())
    try:
        fm = model.get_fantasy_model(Xf, Yf)
        err = (fm(Xs).mean - ref).abs().max().item()
        print("shared fantasy inputs (m x d): max |mean - dense| =", err)
        sys.exit(1 if err > 1e-8 else 0)
    except Exception as e:  # noqa
        print("shared fantasy inputs (m x d): RAISED", type(e).__name__, str(e)[:120])
        sys.exit(1)
