"""
C04 bug 3: get_fantasy_model raises for the combination  KISS-GP (GridInterpolationKernel -> InterpolatedPredictionStrategy,
the "WISKI" fantasy update)  x  FixedNoiseGaussianLikelihood.

InterpolatedPredictionStrategy.get_fantasy_strategy asks the *fantasy* likelihood (whose fixed noise already holds
n + m entries) for the noise of the m fantasy points without forwarding the `noise` kwarg:
    fant_noise = fant_likelihood.noise_covar(fant_wmat.transpose(-1, -2) ...)
FixedGaussianNoise.forward sees m != n + m and returns a ZeroLinearOperator, and `fant_noise.sqrt_inv_matmul` fails with
an IndexError.  Both ingredients are supported on their own: the source model predicts, a from-scratch KISS-GP with
the concatenated data / noise predicts (that is the reference), and the same fantasy with a GaussianLikelihood
matches its from-scratch reference.
"""
import copy
import sys
import warnings

import torch

import gpytorch

warnings.filterwarnings("ignore")
torch.set_default_dtype(torch.float64)


class KissGP(gpytorch.models.ExactGP):
    def __init__(self, x, y, lik):
        super().__init__(x, y, lik)
        self.mean_module = gpytorch.means.ConstantMean()
        self.covar_module = gpytorch.kernels.ScaleKernel(
            gpytorch.kernels.GridInterpolationKernel(
                gpytorch.kernels.RBFKernel(), grid_size=16, num_dims=1, grid_bounds=[(-0.2, 1.2)]
            )
        )

    def forward(self, x):
        return gpytorch.distributions.MultivariateNormal(self.mean_module(x), self.covar_module(x))


def run(fixed_noise, fpv):
    torch.manual_seed(0)
    n, m, t = 15, 2, 5
    X, Y, N = torch.rand(n, 1), torch.randn(n), torch.rand(n) * 0.3 + 0.05
    Xf, Yf, Nf = torch.rand(m, 1), torch.randn(m), torch.rand(m) * 0.3 + 0.05
    Xs = torch.rand(t, 1)
    if fixed_noise:
        lik = gpytorch.likelihoods.FixedNoiseGaussianLikelihood(N)
        ref_lik = gpytorch.likelihoods.FixedNoiseGaussianLikelihood(torch.cat([N, Nf]))
        kw = {"noise": Nf}
    else:
        lik = gpytorch.likelihoods.GaussianLikelihood()
        lik.noise = 0.2
        ref_lik = copy.deepcopy(lik)
        kw = {}
    model = KissGP(X, Y, lik)
    model.covar_module.base_kernel.base_kernel.lengthscale = 0.3
    model.mean_module.constant = 0.4
    model.eval()

    # from-scratch reference: same hyper-parameters, concatenated data
    ref = KissGP(torch.cat([X, Xf]), torch.cat([Y, Yf]), ref_lik)
    ref.covar_module.load_state_dict(model.covar_module.state_dict())
    ref.mean_module.load_state_dict(model.mean_module.state_dict())
    ref.eval()

    with torch.no_grad(), gpytorch.settings.fast_pred_var(fpv):
        with gpytorch.settings.fast_pred_var(False):
            pr = ref(Xs)
        src = model(Xs)  # source predicts fine
        try:
            fm = model.get_fantasy_model(Xf, Yf, **kw)
            pf = fm(Xs)
        except Exception as e:  # noqa
            return f"source ok (mean[0]={src.mean[0]:.4f}), reference ok (mean[0]={pr.mean[0]:.4f}), fantasy RAISED {type(e).__name__}: {str(e)[:60]}", True
        err = max((pf.mean - pr.mean).abs().max().item(), (pf.covariance_matrix - pr.covariance_matrix).abs().max().item())
        return f"max |fantasy - from-scratch| = {err:.2e}", err > 1e-5


bad = False
for fixed_noise in (False, True):
    for fpv in (False, True):
        msg, violated = run(fixed_noise, fpv)
        name = "FixedNoiseGaussianLikelihood" if fixed_noise else "GaussianLikelihood"
        print(f"KISS-GP + {name}, fast_pred_var={fpv}: {msg}")
        bad = bad or violated
if bad:
    print("VIOLATION: KISS-GP fantasies with a fixed-noise likelihood raise")
    sys.exit(1)
print("OK")
sys.exit(0)
