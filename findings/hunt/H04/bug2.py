"""
C04 bug 2: a fantasy model whose batch shape is  f x 1 x b  (source model batch shape (1, b), f fantasies - shared or
per-fantasy inputs) cannot predict: DefaultPredictionStrategy.exact_predictive_mean squeezes dimension 1 of every
4-dimensional mean cache (`if len(mean_cache.shape) == 4: mean_cache = mean_cache.squeeze(1)`), so the
f x 1 x b x N cache becomes f x b x N, the matmul broadcasts to f x f x b and the final `.view` raises.

The source model (batch shape 1 x b) predicts fine, get_fantasy_model succeeds, and the same data with model batch
shape (b,) (no singleton) gives a fantasy model that matches the dense reference - so this is a valid input.
Reference: dense GP formulas on the concatenated data.
"""
import sys
import warnings

import torch

import gpytorch

warnings.filterwarnings("ignore")
torch.set_default_dtype(torch.float64)


class GP(gpytorch.models.ExactGP):
    def __init__(self, x, y, lik, bs):
        super().__init__(x, y, lik)
        self.mean_module = gpytorch.means.ConstantMean(batch_shape=bs)
        self.covar_module = gpytorch.kernels.ScaleKernel(gpytorch.kernels.RBFKernel(batch_shape=bs), batch_shape=bs)

    def forward(self, x):
        return gpytorch.distributions.MultivariateNormal(self.mean_module(x), self.covar_module(x))


def dense_posterior(model, noise, X, Y, Xs):
    K = model.covar_module(X).to_dense()
    Ks = model.covar_module(Xs, X).to_dense()
    Kss = model.covar_module(Xs).to_dense()
    mu, mus = model.mean_module(X), model.mean_module(Xs)
    A = K + noise * torch.eye(K.shape[-1])
    mean = mus + (Ks @ torch.linalg.solve(A, (Y - mu).unsqueeze(-1))).squeeze(-1)
    cov = Kss - Ks @ torch.linalg.solve(A, Ks.transpose(-1, -2))
    return mean, cov


def run(model_bs, shared_inputs, fpv):
    torch.manual_seed(3)
    n, m, t, d, f, b = 6, 2, 4, 2, 3, 2
    bs = torch.Size(model_bs)
    # identical numbers for both layouts: generate for (b,) and view
    X = torch.rand(b, n, d).view(*bs, n, d)
    Y = torch.randn(b, n).view(*bs, n)
    Xs = torch.rand(b, t, d).view(*bs, t, d)
    Xf = (torch.rand(b, m, d).view(*bs, m, d) if shared_inputs else torch.rand(f, b, m, d).view(f, *bs, m, d))
    Yf = torch.randn(f, b, m).view(f, *bs, m)
    lik = gpytorch.likelihoods.GaussianLikelihood(batch_shape=bs)
    model = GP(X, Y, lik, bs)
    with torch.no_grad():
        model.covar_module.base_kernel.raw_lengthscale.copy_(torch.linspace(-1.0, 0.0, b).view(*bs, 1, 1))
        model.mean_module.raw_constant.copy_(torch.linspace(-0.5, 0.5, b).view(*bs))
    model.eval()
    with torch.no_grad(), gpytorch.settings.fast_pred_var(fpv):
        src = model(Xs)  # the source model itself works
        fm = model.get_fantasy_model(Xf, Yf)  # ... and so does the creation of the fantasy model
        fbs = torch.Size([f, *bs])
        Xa = torch.cat([X.expand(*fbs, n, d), Xf.expand(*fbs, m, d)], -2)
        Ya = torch.cat([Y.expand(*fbs, n), Yf], -1)
        ref_mean, ref_cov = dense_posterior(model, lik.noise.unsqueeze(-1), Xa, Ya, Xs.expand(*fbs, t, d))
        try:
            pred = fm(Xs)
        except Exception as e:  # noqa
            return f"RAISED {type(e).__name__}: {str(e)[:90]}", True, tuple(fm.train_targets.shape), tuple(src.mean.shape)
        err = max((pred.mean - ref_mean).abs().max().item(), (pred.covariance_matrix - ref_cov).abs().max().item())
        return f"max |fantasy - dense reference| = {err:.2e}", err > 1e-8, tuple(fm.train_targets.shape), tuple(src.mean.shape)


bad = False
for model_bs in [(2,), (1, 2)]:
    for shared in (True, False):
        for fpv in (False, True):
            msg, violated, tshape, sshape = run(model_bs, shared, fpv)
            is_bug_cfg = model_bs == (1, 2)
            print(
                f"model batch {model_bs}, f=3 fantasies, {'shared' if shared else 'per-fantasy'} inputs, fast_pred_var={fpv}: "
                f"source mean {sshape}, fantasy train_targets {tshape} -> {msg}"
            )
            bad = bad or violated

if bad:
    print("VIOLATION: fantasy model with batch shape f x 1 x b cannot be evaluated (same data without the singleton works)")
    sys.exit(1)
print("OK")
sys.exit(0)
