"""
Extra (confirmed, exception): FixedNoiseGaussianLikelihood.get_fantasy_likelihood only handles a `noise` kwarg that has
at least as many dimensions as the stored noise:  `old_noise.expand(*new_noise.shape[:-1], n)` (gaussian_likelihood.py
l.329-331) instead of broadcasting both.
 (a) batch model (b,), observation shared by the batch: X_f m x d, y_f m, noise m  -> "expand(...)" RuntimeError
     (the same call works with a GaussianLikelihood and matches the dense reference)
 (b) fantasy of a fantasy: first per-fantasy fantasies (f x m x d), then one shared real observation (m x d, y m, noise m)
     -> same RuntimeError
 (c) shared inputs m x d with per-fantasy targets AND per-fantasy noise f x m -> "All tensors must have the same number of
     dimensions" from cat_rows (cross term is non-batch, the f x m x m noise block is batched)
"""
import sys
import warnings

import torch

import gpytorch

warnings.filterwarnings("ignore")
torch.set_default_dtype(torch.float64)
torch.manual_seed(1)
n, m, t, d = 6, 2, 4, 2


class GP(gpytorch.models.ExactGP):
    def __init__(self, x, y, lik, bs=torch.Size()):
        super().__init__(x, y, lik)
        self.mean_module = gpytorch.means.ConstantMean(batch_shape=bs)
        self.covar_module = gpytorch.kernels.ScaleKernel(gpytorch.kernels.RBFKernel(batch_shape=bs), batch_shape=bs)

    def forward(self, x):
        return gpytorch.distributions.MultivariateNormal(self.mean_module(x), self.covar_module(x))


def noise(*shape):
    return torch.rand(*shape) * 0.3 + 0.05


bad = False
with torch.no_grad():
    # (a)
    X, Y = torch.rand(2, n, d), torch.randn(2, n)
    for lik in [gpytorch.likelihoods.GaussianLikelihood(batch_shape=torch.Size([2])), gpytorch.likelihoods.FixedNoiseGaussianLikelihood(noise(2, n))]:
        model = GP(X, Y, lik, torch.Size([2])).eval()
        model(torch.rand(2, t, d))
        kw = {"noise": noise(m)} if isinstance(lik, gpytorch.likelihoods.FixedNoiseGaussianLikelihood) else {}
        try:
            fm = model.get_fantasy_model(torch.rand(m, d), torch.randn(m), **kw)
            print("(a)", type(lik).__name__, "ok, prediction", tuple(fm(torch.rand(2, t, d)).mean.shape))
        except Exception as e:  # noqa
            print("(a)", type(lik).__name__, "RAISED", type(e).__name__, str(e)[:80])
            bad = True
    # (b)
    X, Y = torch.rand(n, d), torch.randn(n)
    model = GP(X, Y, gpytorch.likelihoods.FixedNoiseGaussianLikelihood(noise(n))).eval()
    model(torch.rand(t, d))
    fm = model.get_fantasy_model(torch.rand(3, m, d), torch.randn(3, m), noise=noise(3, m))
    print("(b) first level ok, prediction", tuple(fm(torch.rand(t, d)).mean.shape))
    try:
        fm2 = fm.get_fantasy_model(torch.rand(m, d), torch.randn(m), noise=noise(m))
        print("(b) second level ok", tuple(fm2(torch.rand(t, d)).mean.shape))
    except Exception as e:  # noqa
        print("(b) second level RAISED", type(e).__name__, str(e)[:80])
        bad = True
    # (c)
    try:
        fm = model.get_fantasy_model(torch.rand(m, d), torch.randn(3, m), noise=noise(3, m))
        print("(c) ok", tuple(fm(torch.rand(t, d)).mean.shape))
    except Exception as e:  # noqa
        print("(c) RAISED", type(e).__name__, str(e)[:80])
        bad = True
sys.exit(1 if bad else 0)
