"""
C08 violation 1: selecting batch element b of a lazily evaluated kernel matrix (or of the prior MultivariateNormal
of a batched ExactGP) uses the hyper-parameters of a DIFFERENT batch element when the data carry more batch
dimensions than the kernel parameters (kernel batch_shape [2], data batch shape [3, 2]).

Reference: an un-batched replica kernel carrying slice j of the lengthscale, applied to data slice [i, j];
and the dense batched matrix itself (kernel(x).to_dense()[i, j]), which is correct.
"""
import sys
import warnings

import torch

import gpytorch

warnings.filterwarnings("ignore")
torch.set_default_dtype(torch.float64)
torch.manual_seed(0)

n, d = 5, 2
x = torch.randn(3, 2, n, d)  # data batch shape [3, 2]
kernel = gpytorch.kernels.RBFKernel(batch_shape=torch.Size([2]))  # parameter batch shape [2]
kernel.lengthscale = torch.tensor([0.3, 3.0]).view(2, 1, 1)

failed = False
with torch.no_grad():
    lazy = kernel(x)  # LazyEvaluatedKernelTensor, shape 3 x 2 x n x n
    dense = kernel(x).to_dense()
    print("batched kernel matrix shape:", tuple(lazy.shape))
    worst = 0.0
    for i in range(3):
        for j in range(2):
            replica = gpytorch.kernels.RBFKernel()
            replica.lengthscale = kernel.lengthscale[j].reshape(1, 1)
            ref = replica(x[i, j]).to_dense()
            err_dense = (dense[i, j] - ref).abs().max().item()
            err_lazy = (lazy[i, j].to_dense() - ref).abs().max().item()
            worst = max(worst, err_lazy)
            print(f"  element ({i},{j}): |dense[i,j] - replica| = {err_dense:.2e}   |lazy[i,j] - replica| = {err_lazy:.2e}")
            assert err_dense < 1e-10, "the dense batched matrix is expected to be right"
    print(f"max error of kernel(x)[i, j] against the independent replica: {worst:.3e}")
    if worst > 1e-6:
        failed = True

    # The same through a model: prior of a batched ExactGP, indexed as a MultivariateNormal
    class GP(gpytorch.models.ExactGP):
        def __init__(self, train_x, train_y):
            super().__init__(train_x, train_y, gpytorch.likelihoods.GaussianLikelihood())
            self.mean_module = gpytorch.means.ZeroMean()
            self.covar_module = kernel

        def forward(self, inp):
            return gpytorch.distributions.MultivariateNormal(self.mean_module(inp), self.covar_module(inp))

    y = torch.randn(3, 2, n)
    model = GP(x, y)
    model.train()
    prior = model(x)  # batch shape [3, 2]
    i, j = 1, 0
    cov_sel = prior[i, j].covariance_matrix
    replica = gpytorch.kernels.RBFKernel()
    replica.lengthscale = kernel.lengthscale[j].reshape(1, 1)
    ref = replica(x[i, j]).to_dense()
    err = (cov_sel - ref).abs().max().item()
    print(f"ExactGP prior: |prior[{i},{j}].covariance_matrix - replica| = {err:.3e}")
    wrong = gpytorch.kernels.RBFKernel()
    wrong.lengthscale = kernel.lengthscale[i].reshape(1, 1)
    err_wrong = (cov_sel - wrong(x[i, j]).to_dense()).abs().max().item()
    print(f"   (it equals the kernel with lengthscale[{i}] instead of lengthscale[{j}]: diff {err_wrong:.1e})")
    if err > 1e-6:
        failed = True

    # leading-index only: lazy[i] must keep both lengthscales, but picks lengthscale[i] for both
    err_lead = (lazy[1].to_dense() - dense[1]).abs().max().item()
    print(f"|kernel(x)[1] - kernel(x).to_dense()[1]| = {err_lead:.3e}")
    if err_lead > 1e-6:
        failed = True

print("VIOLATION PRESENT" if failed else "no violation")
sys.exit(1 if failed else 0)
