"""
C08 violation 3: SpectralMixtureKernel.initialize_from_data on a batched kernel with batched data.
The method computes the inter-point distance statistics per batch element, but sets the mixture weights of EVERY
batch element from the standard deviation of the targets pooled over the whole batch (`train_y.std()`), so the
weights of batch element b depend on the targets (scale AND offset) of the other batch elements.

Reference: un-batched replica kernels initialised from slice b of the data; the documented rule
"mixture weights = std of the y values / number of mixtures" evaluated per batch element.
The mixture weights are set deterministically (no random draw is involved).
"""
import sys
import warnings

import torch

import gpytorch

warnings.filterwarnings("ignore")
torch.set_default_dtype(torch.float64)
torch.manual_seed(0)

B, n, Q = 2, 12, 3
x = torch.rand(B, n, 1)
y = torch.stack([0.1 * torch.randn(n), 50.0 + 10.0 * torch.randn(n)])  # two unrelated data sets

batched = gpytorch.kernels.SpectralMixtureKernel(num_mixtures=Q, batch_shape=torch.Size([B]))
batched.initialize_from_data(x, y)
got = batched.mixture_weights.detach()  # B x Q

ref = []
for b in range(B):
    rep = gpytorch.kernels.SpectralMixtureKernel(num_mixtures=Q)
    rep.initialize_from_data(x[b], y[b])
    ref.append(rep.mixture_weights.detach())
ref = torch.stack(ref)
formula = (y.std(dim=-1) / Q).unsqueeze(-1).expand(B, Q)

print("mixture weights of the batched kernel :", got.tolist())
print("mixture weights of the replicas       :", ref.tolist())
print("std(y[b]) / num_mixtures              :", formula.tolist())
err = (got - ref).abs().max().item()
print(f"max |batched - replica| = {err:.3e}   (replica vs formula: {(ref - formula).abs().max().item():.1e})")

# consequence: the prior variance k(x, x) = sum of the mixture weights of batch element 0 is off by orders of magnitude
with torch.no_grad():
    var_b = batched(x, diag=True)[0, 0].item()
    rep0 = gpytorch.kernels.SpectralMixtureKernel(num_mixtures=Q)
    rep0.initialize_from_data(x[0], y[0])
    var_r = rep0(x[0], diag=True)[0].item()
print(f"prior variance of batch element 0: batched {var_b:.4f}  vs replica {var_r:.4f}   (var(y[0]) = {y[0].var().item():.4f})")

# changing only the OTHER batch element's targets changes the weights of element 0
y2 = y.clone()
y2[1] += 1000.0
other = gpytorch.kernels.SpectralMixtureKernel(num_mixtures=Q, batch_shape=torch.Size([B]))
other.initialize_from_data(x, y2)
cross = (other.mixture_weights[0] - batched.mixture_weights[0]).abs().max().item()
print(f"change of element 0's weights when only y[1] is shifted: {cross:.3e}")

failed = err > 1e-6 or cross > 1e-6
print("VIOLATION PRESENT" if failed else "no violation")
sys.exit(1 if failed else 0)
