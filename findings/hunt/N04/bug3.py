"""C04: an exact GP with a DirichletClassificationLikelihood cannot be fantasized: get_fantasy_model has no way to hand the
new class labels to DirichletClassificationLikelihood.get_fantasy_likelihood(targets=...)."""
import sys, warnings
import torch, gpytorch
warnings.filterwarnings("ignore")
torch.set_default_dtype(torch.float64)
torch.manual_seed(0)
C = 3


class DGP(gpytorch.models.ExactGP):
    def __init__(self, x, y, lik):
        super().__init__(x, y, lik)
        bs = torch.Size((C,))
        self.mean_module = gpytorch.means.ConstantMean(batch_shape=bs)
        self.covar_module = gpytorch.kernels.ScaleKernel(gpytorch.kernels.RBFKernel(batch_shape=bs), batch_shape=bs)

    def forward(self, x):
        return gpytorch.distributions.MultivariateNormal(self.mean_module(x), self.covar_module(x))


n, m, t = 8, 3, 4
X, lab = torch.rand(n, 2), torch.tensor([0, 1, 2, 0, 1, 2, 0, 1])
lik = gpytorch.likelihoods.DirichletClassificationLikelihood(lab, dtype=torch.float64)
model = DGP(X, lik.transformed_targets, lik).eval()
Xt = torch.rand(t, 2)
model(Xt)

Xf, labf = torch.rand(m, 2), torch.tensor([2, 0, 1])
# reference: from scratch on the concatenated data
lik_ref = gpytorch.likelihoods.DirichletClassificationLikelihood(torch.cat([lab, labf]), dtype=torch.float64)
ref = DGP(torch.cat([X, Xf]), lik_ref.transformed_targets, lik_ref)
ref.mean_module, ref.covar_module = model.mean_module, model.covar_module
ref.eval()
ref_mean = ref(Xt).mean
print("from-scratch posterior mean shape:", tuple(ref_mean.shape))

# the likelihood's own fantasy method works and produces the right noise / transformed targets
fl = lik.get_fantasy_likelihood(targets=labf)
print("likelihood.get_fantasy_likelihood(targets=...) noise vs from scratch:", (fl.noise - lik_ref.noise).abs().max().item())
yf = fl.transformed_targets[..., n:]  # C x m regression targets of the new labels

ok = False
attempts = {
    "targets=labels keyword": lambda: model.get_fantasy_model(Xf, yf, targets=labf),
    "noise=fantasy noise": lambda: model.get_fantasy_model(Xf, yf, noise=fl.noise[..., n:]),
    "no keyword": lambda: model.get_fantasy_model(Xf, yf),
}
for name, fn in attempts.items():
    try:
        fm = fn()
        d = (fm(Xt).mean - ref_mean).abs().max().item()
        print(f"get_fantasy_model [{name}]: max diff to from-scratch {d:.3e}")
        ok |= d < 1e-6
    except Exception as e:
        print(f"get_fantasy_model [{name}] RAISED {type(e).__name__}: {e}")
print("some way of fantasizing a Dirichlet classification GP works:", ok)
sys.exit(0 if ok else 1)
