"""C04: a fantasy of a fantasy whose first fantasy batch has size 1 (batch model b=3, first step f1=1, second step f2=4:
training data of shape 4 x 1 x 3 x n) returns a posterior mean of shape 4 x 4 x 3 x t instead of 4 x 1 x 3 x t
(entry [i, j] mixes the cross-covariance of fantasy i with the solve of fantasy j). Reference: dense GP formula per batch element."""
import sys, warnings
import torch, gpytorch
warnings.filterwarnings("ignore")
torch.set_default_dtype(torch.float64)
torch.manual_seed(0)


class GP(gpytorch.models.ExactGP):
    def __init__(self, x, y, lik, bs):
        super().__init__(x, y, lik)
        self.mean_module = gpytorch.means.ConstantMean(batch_shape=bs)
        self.covar_module = gpytorch.kernels.ScaleKernel(gpytorch.kernels.RBFKernel(batch_shape=bs), batch_shape=bs)

    def forward(self, x):
        return gpytorch.distributions.MultivariateNormal(self.mean_module(x), self.covar_module(x))


b, n, m, t, f1, f2 = 3, 6, 2, 5, 1, 4
bs = torch.Size([b])
X, Y = torch.rand(b, n, 2), torch.randn(b, n)
model = GP(X, Y, gpytorch.likelihoods.GaussianLikelihood(batch_shape=bs), bs)
model.covar_module.base_kernel.lengthscale = torch.tensor([0.3, 0.5, 0.8]).view(b, 1, 1)
model.covar_module.outputscale = torch.tensor([1.0, 2.0, 0.5])
model.likelihood.noise = torch.tensor([0.1, 0.2, 0.3]).view(b, 1)
model.mean_module.constant.data = torch.tensor([0.2, -0.4, 1.0])
model.eval()
Xt = torch.rand(b, t, 2)
model(Xt)

Xa, Ya = torch.rand(f1, b, m, 2), torch.randn(f1, b, m)
fm1 = model.get_fantasy_model(Xa, Ya)
p1 = fm1(Xt)
Xb, Yb = torch.rand(f2, f1, b, m, 2), torch.randn(f2, f1, b, m)
fm2 = fm1.get_fantasy_model(Xb, Yb)
p2 = fm2(Xt)

# dense reference
fullX = torch.cat([X.expand(f2, f1, b, n, 2), Xa.expand(f2, f1, b, m, 2), Xb], -2)
fullY = torch.cat([Y.expand(f2, f1, b, n), Ya.expand(f2, f1, b, m), Yb], -1)
with torch.no_grad():
    K = model.covar_module(fullX).to_dense() + model.likelihood.noise.unsqueeze(-1) * torch.eye(n + 2 * m)
    Ks = model.covar_module(Xt.expand(f2, f1, b, t, 2), fullX).to_dense()
    mu = model.mean_module.constant.view(b, 1)
    ref_mean = mu + (Ks @ torch.linalg.solve(K, (fullY - mu).unsqueeze(-1))).squeeze(-1)
    ref_cov = model.covar_module(Xt).to_dense() - Ks @ torch.linalg.solve(K, Ks.transpose(-1, -2))

print("train inputs of the second fantasy model:", tuple(fm2.train_inputs[0].shape))
print("first-level fantasy mean shape:", tuple(p1.mean.shape), "(expected", (f1, b, t), ")")
print("second-level fantasy mean shape:", tuple(p2.mean.shape), " reference (dense formula):", tuple(ref_mean.shape))
print("second-level fantasy covariance shape:", tuple(p2.covariance_matrix.shape), " reference:", tuple(ref_cov.shape))
bad = False
if p2.mean.shape != ref_mean.shape:
    bad = True
    # entry [i, j, k] pairs the cross-covariance of fantasy i with the solve of fantasy j
    got = p2.mean.detach()
    diag = torch.stack([got[i, i] for i in range(f2)]).unsqueeze(1)
    print("  'diagonal' entries [i, i] vs reference: max diff", (diag - ref_mean).abs().max().item())
    off = (got[0, 1] - ref_mean[0, 0]).abs().max().item()
    print("  off-diagonal entry [0, 1] vs reference of fantasy 0: max diff", off)
else:
    d = (p2.mean - ref_mean).abs().max().item()
    print("max mean diff", d)
    bad = d > 1e-6
dc = (p2.covariance_matrix - ref_cov).abs().max().item() if p2.covariance_matrix.shape == ref_cov.shape else float("nan")
print("covariance max diff:", dc)
sys.exit(1 if bad else 0)
