from h1 import *
# active_dims tests: kernel(active_dims=ad)(x) == kernel()(x[..., ad])
D = 4; ad = (2, 0)
d = 2
def mk_ad(bs, ad):
    ks = {}
    ks['rbf'] = lambda a: RBFKernel(ard_num_dims=d, batch_shape=bs, active_dims=a)
    ks['mat'] = lambda a: MaternKernel(nu=1.5, ard_num_dims=d, batch_shape=bs, active_dims=a)
    ks['rq'] = lambda a: RQKernel(ard_num_dims=d, batch_shape=bs, active_dims=a)
    ks['per'] = lambda a: PeriodicKernel(ard_num_dims=d, batch_shape=bs, active_dims=a)
    ks['cos'] = lambda a: CosineKernel(batch_shape=bs, active_dims=a)
    ks['lin'] = lambda a: LinearKernel(ard_num_dims=d, batch_shape=bs, active_dims=a)
    ks['poly'] = lambda a: PolynomialKernel(power=2, batch_shape=bs, active_dims=a)
    ks['pp'] = lambda a: PiecewisePolynomialKernel(q=1, ard_num_dims=d, batch_shape=bs, active_dims=a)
    ks['sm'] = lambda a: SpectralMixtureKernel(num_mixtures=2, ard_num_dims=d, batch_shape=bs, active_dims=a)
    ks['sd'] = lambda a: SpectralDeltaKernel(num_dims=d, num_deltas=4, batch_shape=bs, active_dims=a)
    ks['const'] = lambda a: ConstantKernel(batch_shape=bs, active_dims=a)
    ks['rff'] = lambda a: RFFKernel(num_samples=3, num_dims=d, batch_shape=bs, active_dims=a)
    ks['rbfgrad'] = lambda a: RBFKernelGrad(ard_num_dims=d, batch_shape=bs, active_dims=a)
    ks['rbfgradgrad'] = lambda a: RBFKernelGradGrad(batch_shape=bs, active_dims=a)
    ks['mat52grad'] = lambda a: Matern52KernelGrad(batch_shape=bs, active_dims=a)
    ks['polygrad'] = lambda a: PolynomialKernelGrad(power=2, batch_shape=bs, active_dims=a)
    ks['scale'] = lambda a: ScaleKernel(RBFKernel(batch_shape=bs, active_dims=a), batch_shape=bs)
    ks['scale_outer'] = lambda a: ScaleKernel(RBFKernel(batch_shape=bs), batch_shape=bs, active_dims=a)
    ks['scale_scale'] = lambda a: ScaleKernel(ScaleKernel(MaternKernel(batch_shape=bs, active_dims=a), batch_shape=bs), batch_shape=bs)
    ks['scale_add'] = lambda a: ScaleKernel(RBFKernel(batch_shape=bs, active_dims=a) + LinearKernel(batch_shape=bs, active_dims=a), batch_shape=bs)
    ks['add'] = lambda a: RBFKernel(batch_shape=bs, active_dims=a) + LinearKernel(batch_shape=bs, active_dims=a)
    ks['prod'] = lambda a: RBFKernel(batch_shape=bs, active_dims=a) * LinearKernel(batch_shape=bs, active_dims=a)
    ks['mt'] = lambda a: MultitaskKernel(RBFKernel(batch_shape=bs, active_dims=a), num_tasks=2, batch_shape=bs)
    ks['mt_outer'] = lambda a: MultitaskKernel(RBFKernel(batch_shape=bs), num_tasks=2, batch_shape=bs, active_dims=a)
    ks['mt_scale'] = lambda a: MultitaskKernel(ScaleKernel(RBFKernel(batch_shape=bs, active_dims=a), batch_shape=bs), num_tasks=2, batch_shape=bs)
    ks['mt_add'] = lambda a: MultitaskKernel(RBFKernel(batch_shape=bs, active_dims=a) + MaternKernel(batch_shape=bs, active_dims=a), num_tasks=2, batch_shape=bs)
    ks['lcm'] = lambda a: LCMKernel([RBFKernel(active_dims=a), ScaleKernel(MaternKernel(active_dims=a))], num_tasks=2)
    ks['arc'] = lambda a: ArcKernel(MaternKernel(nu=2.5), ard_num_dims=d, active_dims=a)
    ks['arc_inner'] = lambda a: ArcKernel(MaternKernel(nu=2.5, active_dims=a), ard_num_dims=d)
    ks['cyl'] = lambda a: CylindricalKernel(3, RBFKernel(batch_shape=bs), batch_shape=bs, active_dims=a)
    ks['cyl_inner'] = lambda a: CylindricalKernel(3, RBFKernel(batch_shape=bs, active_dims=a), batch_shape=bs)
    ks['ng'] = lambda a: NewtonGirardAdditiveKernel(RBFKernel(ard_num_dims=d), num_dims=d, max_degree=2, active_dims=a)
    return ks
only = sys.argv[1:]
for kb, b1, b2 in [((), (), ()), ((2,), (2,), (2,)), ((2,), (), ()), ((), (2,), (2,)), ((), (2,), ())]:
    bs = torch.Size(kb)
    for name, ctor in mk_ad(bs, ad).items():
        if only and name not in only: continue
        if name in ('lcm','arc','ng', 'arc_inner') and kb != (): continue
        if 'grad' in name and not (kb == b1 == b2): continue
        torch.manual_seed(3)
        try:
            ka = rnd(ctor(ad))
            torch.manual_seed(3)
            k0 = rnd(ctor(None))
        except Exception as ex:
            print("CTOR", name, ex); continue
        sd0 = k0.state_dict(); 
        ka.load_state_dict({**ka.state_dict(), **{kk: v for kk, v in sd0.items() if 'active_dims' not in kk}})
        s = 0.3 if 'cyl' in name else 1.0
        x1 = torch.rand(*b1, 4, D)*s; x2 = torch.rand(*b2, 3, D)*s
        sel = torch.tensor(ad)
        if name in ('arc_inner', 'cyl_inner'):
            # semantic unclear; only check internal consistency
            k0 = ka; r1, r2 = x1, x2
        else:
            r1, r2 = x1[..., sel], x2[..., sel]
        tag = "%s|%s|%s " % (kb, b1, b2)
        Kref = None
        try:
            Kref = dense(k0, r1, r2); Kref11 = dense(k0, r1)
        except Exception as ex:
            print("REFEXC", name, tag, str(ex)[:100]); continue
        run(name, lambda: err(dense(ka, x1, x2), Kref), tag+"eager")
        run(name, lambda: err(dense(ka, x1, x2, lazy=True), Kref), tag+"lazy")
        run(name, lambda: err(ka(x1, x2).transpose(-1,-2).to_dense().detach(), Kref.transpose(-1,-2)), tag+"lazy transpose")
        run(name, lambda: err(ka(x1, diag=True).detach(), Kref11.diagonal(dim1=-1,dim2=-2)), tag+"diag=True")
        run(name, lambda: err(ka(x1).diagonal(dim1=-1,dim2=-2).detach(), Kref11.diagonal(dim1=-1,dim2=-2)), tag+"lazy diagonal")
        no = ka.num_outputs_per_input(x1, x2)
        run(name, lambda: err(ka(x1, x2)[..., no:, :2*no].to_dense().detach(), Kref[..., no:, :2*no]), tag+"lazy slice")
        run(name, lambda: err(ka(x1, x2)[..., 1:, :2].to_dense().detach(), Kref[..., 1:, :2]), tag+"lazy slice unaligned")
        run(name, lambda: err(ka(x1, x2)[..., torch.tensor([1,0]), torch.tensor([0,2])].detach(), Kref[..., torch.tensor([1,0]), torch.tensor([0,2])]), tag+"lazy tensor idx")
        run(name, lambda: err(ka(x1, x2)[..., torch.tensor([1,0]), :].to_dense().detach(), Kref[..., torch.tensor([1,0]), :]), tag+"lazy tensor row idx")
        run(name, lambda: err(ka(x1, x2)[..., 1, :].detach(), Kref[..., 1, :]), tag+"lazy int row")
        if len(Kref.shape) > 2:
            run(name, lambda: err(ka(x1, x2)[1].to_dense().detach(), Kref[1]), tag+"lazy batch int")
            run(name, lambda: err(ka(x1, x2)[1, no:, :no].to_dense().detach(), Kref[1, no:, :no]), tag+"lazy batch int+slice")
            run(name, lambda: err(ka(x1, x2)[torch.tensor([1,0,1])].to_dense().detach(), Kref[torch.tensor([1,0,1])]), tag+"lazy batch tensor")
            run(name, lambda: err(ka(x1, x2).unsqueeze(0).to_dense().detach(), Kref.unsqueeze(0)), tag+"lazy unsqueeze")
        if len(kb):
            run(name, lambda: err(dense(ka[1], x1[1] if len(b1) else x1, x2[1] if len(b2) else x2), Kref[1]), tag+"kernel[1]")
            run(name, lambda: err(dense(ka[1], x1[1] if len(b1) else x1, x2[1] if len(b2) else x2, lazy=True), Kref[1]), tag+"kernel[1] lazy")
        run(name, lambda: err(dense(ka.expand_batch(torch.Size([3, *Kref.shape[:-2]])), x1, x2), Kref.expand(3, *Kref.shape)), tag+"expand_batch")
        run(name, lambda: err(dense(ka.expand_batch(torch.Size([3, *Kref.shape[:-2]])), x1, x2, lazy=True), Kref.expand(3, *Kref.shape)), tag+"expand_batch lazy")
