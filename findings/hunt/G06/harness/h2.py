from h1 import *
# batch patterns
d = 2; n, m = 4, 3
pats = [
  # (kernel bs, x1 batch, x2 batch)
  ((), (2,), (2,)),
  ((), (2,), ()),
  ((), (), (2,)),
  ((2,), (2,), (2,)),
  ((2,), (), ()),
  ((2,), (2,), ()),
  ((2,), (), (2,)),
  ((2,), (3,1), (2,)),
  ((3,1), (2,), (2,)),
  ((3,2), (), ()),
  ((1,), (2,), (2,)),
  ((2,), (1,), (1,)),
]
only = sys.argv[1:] 
for kb, b1, b2 in pats:
    for name, ctor in mk(d, torch.Size(kb)).items():
        if only and name not in only: continue
        if name in ('lcm','arc','ng') and kb != (): continue
        torch.manual_seed(1)
        try:
            k = rnd(ctor()); k.eval()
        except Exception as ex:
            print("CTOR", name, kb, ex); continue
        s = 0.4 if name == 'cyl' else 1.0
        x1 = torch.rand(*b1, n, d)*s; x2 = torch.rand(*b2, m, d)*s
        bshape = torch.broadcast_shapes(torch.Size(kb), torch.Size(b1), torch.Size(b2))
        tag = "%s|%s|%s " % (kb, b1, b2)
        # reference: loop over broadcast batch, evaluate kernel[i] on slices, non-batch
        def ref(xa, xb, bshape=bshape):
            out = None
            xa_e = xa.expand(*bshape, *xa.shape[-2:]); xb_e = xb.expand(*bshape, *xb.shape[-2:])
            ke = k.expand_batch(bshape) if k.batch_shape != bshape else k
            rows = []
            for idx in itertools.product(*[range(s_) for s_ in bshape]):
                ki = ke[idx] if len(bshape) else ke
                rows.append(dense(ki, xa_e[idx], xb_e[idx]))
            return torch.stack(rows).reshape(*bshape, *rows[0].shape)
        if name not in ('add', 'prod'):
            run(name, lambda: err(dense(k, x1, x2), ref(x1, x2)), tag + "eager vs per-batch ref")
        run(name, lambda: err(dense(k, x1, x2), dense(k, x1, x2, lazy=True)), tag + "lazy vs eager")
        run(name, lambda: err(dense(k, x1, x2), dense(k, x2, x1).transpose(-1, -2)), tag + "transpose")
        bs1 = torch.broadcast_shapes(torch.Size(kb), torch.Size(b1))
        def dg():
            K = dense(k, x1)
            return err(K.diagonal(dim1=-1, dim2=-2), k(x1, diag=True))
        run(name, dg, tag + "diag=True x1")
        def dg2():
            K = dense(k, x1)
            return err(K.diagonal(dim1=-1, dim2=-2), k(x1).diagonal(dim1=-1,dim2=-2))
        run(name, dg2, tag + "lazy.diagonal x1")
        def dg3():
            x3 = torch.rand(*b2, n, d)*s
            K = dense(k, x1, x3)
            return err(K.diagonal(dim1=-1, dim2=-2), k(x1, x3, diag=True))
        if 'grad' not in name:
            run(name, dg3, tag + "diag=True x1,x3")
