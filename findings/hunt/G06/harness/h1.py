import warnings, itertools, traceback, sys
warnings.filterwarnings("ignore")
import torch, gpytorch
from gpytorch.kernels import *
torch.set_default_dtype(torch.float64)
torch.manual_seed(0)

def rnd(k):
    # randomize params
    for p in k.parameters():
        p.data = p.data + 0.5*torch.randn_like(p.data)
    return k

def mk(d, bs=torch.Size([])):
    ks = {}
    ks['rbf'] = lambda: RBFKernel(batch_shape=bs)
    ks['rbf_ard'] = lambda: RBFKernel(ard_num_dims=d, batch_shape=bs)
    ks['mat05'] = lambda: MaternKernel(nu=0.5, batch_shape=bs)
    ks['mat15'] = lambda: MaternKernel(nu=1.5, ard_num_dims=d, batch_shape=bs)
    ks['mat25'] = lambda: MaternKernel(nu=2.5, batch_shape=bs)
    ks['rq'] = lambda: RQKernel(ard_num_dims=d, batch_shape=bs)
    ks['per'] = lambda: PeriodicKernel(batch_shape=bs)
    ks['per_ard'] = lambda: PeriodicKernel(ard_num_dims=d, batch_shape=bs)
    ks['cos'] = lambda: CosineKernel(batch_shape=bs)
    ks['lin'] = lambda: LinearKernel(batch_shape=bs)
    ks['lin_ard'] = lambda: LinearKernel(ard_num_dims=d, batch_shape=bs)
    ks['poly'] = lambda: PolynomialKernel(power=3, batch_shape=bs)
    ks['pp0'] = lambda: PiecewisePolynomialKernel(q=0, batch_shape=bs)
    ks['pp2'] = lambda: PiecewisePolynomialKernel(q=2, ard_num_dims=d, batch_shape=bs)
    ks['sm'] = lambda: SpectralMixtureKernel(num_mixtures=3, ard_num_dims=d, batch_shape=bs)
    ks['sd'] = lambda: SpectralDeltaKernel(num_dims=d, num_deltas=5, batch_shape=bs)
    ks['const'] = lambda: ConstantKernel(batch_shape=bs)
    ks['rff'] = lambda: RFFKernel(num_samples=4, num_dims=d, batch_shape=bs)
    ks['rbfgrad'] = lambda: RBFKernelGrad(batch_shape=bs)
    ks['rbfgradgrad'] = lambda: RBFKernelGradGrad(batch_shape=bs)
    ks['mat52grad'] = lambda: Matern52KernelGrad(batch_shape=bs)
    ks['polygrad'] = lambda: PolynomialKernelGrad(power=2, batch_shape=bs)
    ks['scale_rbf'] = lambda: ScaleKernel(RBFKernel(batch_shape=bs), batch_shape=bs)
    ks['scale_per'] = lambda: ScaleKernel(PeriodicKernel(batch_shape=bs), batch_shape=bs)
    ks['add'] = lambda: ScaleKernel(RBFKernel(batch_shape=bs), batch_shape=bs) + LinearKernel(batch_shape=bs)
    ks['prod'] = lambda: MaternKernel(batch_shape=bs) * PolynomialKernel(power=2, batch_shape=bs)
    ks['mt'] = lambda: MultitaskKernel(RBFKernel(batch_shape=bs), num_tasks=2, rank=1, batch_shape=bs)
    ks['mt_scale'] = lambda: MultitaskKernel(ScaleKernel(MaternKernel(batch_shape=bs), batch_shape=bs), num_tasks=3, rank=2, batch_shape=bs)
    ks['lcm'] = lambda: LCMKernel([RBFKernel(), MaternKernel(nu=1.5)], num_tasks=2, rank=1)
    ks['arc'] = lambda: ArcKernel(MaternKernel(nu=2.5), ard_num_dims=d)
    ks['cyl'] = lambda: CylindricalKernel(3, RBFKernel(batch_shape=bs), batch_shape=bs)
    ks['ng'] = lambda: NewtonGirardAdditiveKernel(RBFKernel(ard_num_dims=d), num_dims=d, max_degree=2)
    return ks

def dense(k, x1, x2=None, lazy=False, **kw):
    with gpytorch.settings.lazily_evaluate_kernels(lazy):
        return k(x1, x2, **kw).to_dense().detach()

def err(a, b):
    if a.shape != b.shape:
        return "SHAPE %s vs %s" % (tuple(a.shape), tuple(b.shape))
    return (a-b).abs().max().item() if a.numel() else 0.0

def report(name, test, e):
    if isinstance(e, str) or e > 1e-8:
        print("FAIL %-12s %-40s %s" % (name, test, e)); sys.stdout.flush()

def run(name, f, test):
    try:
        e = f()
        report(name, test, e)
    except Exception as ex:
        print("EXC  %-12s %-40s %s: %s" % (name, test, type(ex).__name__, str(ex)[:150])); sys.stdout.flush()

if __name__ == "__main__":
    d = 2
    n, m = 4, 3
    for name, ctor in mk(d).items():
        torch.manual_seed(1)
        k = rnd(ctor()); k.eval()
        x1 = torch.rand(n, d) * (0.4 if name == 'cyl' else 1.0); x2 = torch.rand(m, d)* (0.4 if name == 'cyl' else 1.0); x3 = torch.rand(n, d)* (0.4 if name == 'cyl' else 1.0)
        no = k.num_outputs_per_input(x1, x2)
        K12 = None
        def f():
            global K12
            K12 = dense(k, x1, x2); return err(K12, dense(k, x1, x2, lazy=True))
        run(name, f, "lazy vs eager x1,x2")
        run(name, lambda: err(dense(k, x1), dense(k, x1, lazy=True)), "lazy vs eager x1")
        run(name, lambda: err(dense(k, x1, x1.clone()), dense(k, x1)), "x1,x1clone vs x1")
        run(name, lambda: err(dense(k, x1, x2), dense(k, x2, x1).transpose(-1, -2)), "transpose")
        run(name, lambda: err(dense(k, x1, x2, lazy=True), k(x2, x1).transpose(-1, -2).to_dense()), "lazy transpose")
        run(name, lambda: err(dense(k, x1).diagonal(dim1=-1, dim2=-2), k(x1, diag=True)), "diag=True vs full x1")
        run(name, lambda: err(dense(k, x1).diagonal(dim1=-1, dim2=-2), k(x1).diagonal()), "lazy.diagonal() vs full x1")
        run(name, lambda: err(dense(k, x1, x3).diagonal(dim1=-1, dim2=-2), k(x1, x3, diag=True)), "diag=True vs full x1,x3")
        run(name, lambda: err(dense(k, x1, x3).diagonal(dim1=-1, dim2=-2), k(x1, x3).diagonal()), "lazy.diagonal() vs full x1,x3")
        # blocks
        def blocks():
            xx = torch.cat([x1, x2], 0)
            K = dense(k, xx)
            if no == 1:
                return max(err(K[:n, n:], dense(k, x1, x2)), err(K[:n, :n], dense(k, x1)), err(K[n:, :n], dense(k, x2, x1)))
            return 0.0
        run(name, blocks, "blocks")
