from h1 import *
import torch.nn.functional as F
def checks(name, k, x1, x2, x3, blocks=True):
    n = x1.shape[-2]
    no = k.num_outputs_per_input(x1, x2)
    run(name, lambda: err(dense(k, x1, x2), dense(k, x1, x2, lazy=True)), "lazy vs eager x1,x2")
    run(name, lambda: err(dense(k, x1), dense(k, x1, lazy=True)), "lazy vs eager x1")
    run(name, lambda: err(dense(k, x1, x2), dense(k, x2, x1).transpose(-1, -2)), "transpose")
    run(name, lambda: err(dense(k, x1, x2, lazy=True), k(x2, x1).transpose(-1, -2).to_dense().detach()), "lazy transpose")
    run(name, lambda: err(dense(k, x1).diagonal(dim1=-1, dim2=-2), k(x1, diag=True).detach()), "diag=True vs full x1")
    run(name, lambda: err(dense(k, x1).diagonal(dim1=-1, dim2=-2), k(x1).diagonal(dim1=-1,dim2=-2).detach()), "lazy.diagonal() vs full x1")
    run(name, lambda: err(dense(k, x1, x3).diagonal(dim1=-1, dim2=-2), k(x1, x3, diag=True).detach()), "diag=True vs full x1,x3")
    run(name, lambda: err(dense(k, x1, x3).diagonal(dim1=-1, dim2=-2), k(x1, x3).diagonal(dim1=-1,dim2=-2).detach()), "lazy.diagonal() vs full x1,x3")
    run(name, lambda: err(dense(k, x1)[..., :2*no, no:], k(x1)[..., :2*no, no:].to_dense().detach()), "lazy slice of K(x1,x1)")
    run(name, lambda: err(dense(k, x1, x2)[..., :2*no, no:], k(x1, x2)[..., :2*no, no:].to_dense().detach()), "lazy slice of K(x1,x2)")
    run(name, lambda: err(dense(k, x1, x2)[..., torch.tensor([1,0]), :], k(x1, x2)[..., torch.tensor([1,0]), :].to_dense().detach()), "lazy tensor rows of K(x1,x2)")
    if blocks:
        def bl():
            xx = torch.cat([x1, x2], -2)
            K = dense(k, xx); N = n*no
            return max(err(K[..., :N, N:], dense(k, x1, x2)), err(K[..., N:, N:], dense(k, x2)) if True else 0)
        run(name, bl, "blocks")

torch.manual_seed(0)
# Hamming
V = 3; L = 2
def onehot(*shape):
    idx = torch.randint(0, V, (*shape, L))
    return F.one_hot(idx, V).to(torch.get_default_dtype()).reshape(*shape, L*V)
for kb, b in [((), ()), ((), (2,)), ((2,), (2,)), ((2,), ())]:
    k = rnd(HammingIMQKernel(vocab_size=V, batch_shape=torch.Size(kb)))
    checks("hamming%s%s" % (kb, b), k, onehot(*b, 4), onehot(*b, 3), onehot(*b, 4))
# Index kernel
for kb, b in [((), ()), ((), (2,)), ((2,), (2,)), ((2,), ())]:
    k = rnd(IndexKernel(num_tasks=4, rank=2, batch_shape=torch.Size(kb)))
    i1 = torch.randint(0, 4, (*b, 4, 1)); i2 = torch.randint(0, 4, (*b, 3, 1)); i3 = torch.randint(0, 4, (*b, 4, 1))
    checks("index%s%s" % (kb, b), k, i1, i2, i3)
# GridInterpolation
for b in [(), (2,)]:
    for nd in (1, 2):
        k = GridInterpolationKernel(rnd(RBFKernel()), grid_size=8, num_dims=nd, grid_bounds=[(-0.2, 1.2)]*nd); k.eval()
        checks("gridinterp d%d %s" % (nd, b), k, torch.rand(*b, 4, nd), torch.rand(*b, 3, nd), torch.rand(*b, 4, nd))
    k = GridInterpolationKernel(rnd(RBFKernel()), grid_size=8, num_dims=2); k.eval()   # dynamic grid
    checks("gridinterp dyn %s" % (b,), k, torch.rand(*b, 4, 2), torch.rand(*b, 3, 2)*2, torch.rand(*b, 4, 2)*3)
    k = ScaleKernel(GridInterpolationKernel(rnd(MaternKernel(nu=2.5, ard_num_dims=2)), grid_size=[8, 10], num_dims=2, grid_bounds=[(-0.2, 1.2)]*2)); k.eval()
    checks("scale gridinterp ragged %s" % (b,), k, torch.rand(*b, 4, 2), torch.rand(*b, 3, 2), torch.rand(*b, 4, 2))
# InducingPoint
for b in [(), (2,)]:
    for mode in ("train", "eval"):
        k = InducingPointKernel(rnd(ScaleKernel(RBFKernel())), inducing_points=torch.rand(3, 2), likelihood=gpytorch.likelihoods.GaussianLikelihood())
        k.train(mode == "train")
        if mode == "train":
            x1 = torch.rand(*b, 4, 2)
            run("ip train", lambda: err(dense(k, x1).diagonal(dim1=-1, dim2=-2), k(x1, diag=True).detach()), "diag")
            run("ip train", lambda: err(dense(k, x1).diagonal(dim1=-1, dim2=-2), k(x1).diagonal(dim1=-1,dim2=-2).detach()), "lazy diag")
            run("ip train", lambda: err(dense(k, x1), dense(k, x1, lazy=True)), "lazy")
        else:
            checks("ip eval %s" % (b,), k, torch.rand(*b, 4, 2), torch.rand(*b, 3, 2), torch.rand(*b, 4, 2))
# Grid kernel
grid = torch.linspace(0, 1, 4).unsqueeze(-1).repeat(1, 2)
k = GridKernel(rnd(RBFKernel()), grid=grid); k.train()
fg = k.full_grid
run("grid", lambda: err(dense(k, fg), dense(k.base_kernel, fg)), "full grid vs base")
run("grid", lambda: err(dense(k, fg, lazy=True), dense(k.base_kernel, fg)), "full grid vs base lazy")
run("grid", lambda: err(k(fg, diag=True).detach(), dense(k.base_kernel, fg).diagonal()), "diag=True")
run("grid", lambda: err(k(fg).diagonal().detach(), dense(k.base_kernel, fg).diagonal()), "lazy diagonal")
run("grid", lambda: err(k(fg)[2:5, 1:7].to_dense().detach(), dense(k.base_kernel, fg)[2:5, 1:7]), "lazy slice")
run("grid", lambda: err(k(fg, fg[:5]).to_dense().detach(), dense(k.base_kernel, fg)[:, :5]), "rect")
fgb = fg.expand(2, *fg.shape)
run("grid", lambda: err(dense(k, fgb), dense(k.base_kernel, fgb)), "batched full grid")
run("grid", lambda: err(k(fgb, diag=True).detach(), dense(k.base_kernel, fgb).diagonal(dim1=-1,dim2=-2)), "batched diag")
# ragged grid
k = GridKernel(rnd(RBFKernel(ard_num_dims=2)), grid=[torch.linspace(0,1,3), torch.linspace(0,2,5)]); k.train()
fg = k.full_grid
run("grid ragged", lambda: err(dense(k, fg), dense(k.base_kernel, fg)), "full grid vs base")
run("grid ragged", lambda: err(k(fg, diag=True).detach(), dense(k.base_kernel, fg).diagonal()), "diag=True")
with gpytorch.settings.use_toeplitz(False):
    run("grid ragged notoep", lambda: err(dense(k, fg), dense(k.base_kernel, fg)), "full grid vs base")
# GaussianSymmetrizedKL
for b in [(), (2,)]:
    k = rnd(GaussianSymmetrizedKLKernel())
    def g(*s): return torch.cat([torch.randn(*s, 2), torch.randn(*s, 2)*0.3 - 1], -1)
    checks("gskl %s" % (b,), k, g(*b, 4), g(*b, 3), g(*b, 4))
