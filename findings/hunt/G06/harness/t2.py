from h1 import *
torch.manual_seed(0)
k = MultitaskKernel(RBFKernel(batch_shape=torch.Size([2])), num_tasks=2, rank=1, batch_shape=torch.Size([2])); rnd(k)
x1 = torch.rand(2,3,2); x2 = torch.rand(2,4,2)
K = dense(k,x1,x2)
print(K.shape, k.batch_shape, k[0].batch_shape, k[0]._batch_shape, k[0].task_covar_module.batch_shape, k[0].data_covar_module.batch_shape)
for idx in [(0,), (1,), (slice(0,1),), (slice(1,None),), (torch.tensor([1,0]),), (torch.tensor([1,0,0]),), (0, slice(0,2), slice(0,2)), (1, slice(None), slice(2,4)), (0, 0), (1, slice(None), 3)]:
    try:
        g = k(x1,x2)[idx]
        g = g.to_dense() if hasattr(g,'to_dense') else g
        print(idx, tuple(g.shape), tuple(K[idx].shape), err(g.detach(), K[idx]))
    except Exception as ex:
        print(idx, "EXC", type(ex).__name__, str(ex)[:200])
