from h1 import *
# exhaustive indexing of lazy tensors
d = 2
def index_space(shape):
    per = []
    for i, s in enumerate(shape):
        opts = [slice(None), slice(0, 1), slice(1, None), slice(None, None, 2), slice(-2, None), slice(None,-1), 0, -1, s-1,
                torch.tensor([0, s-1]), torch.tensor([s-1, 0, 0]), slice(1,1), [0, s-1]]
        if s >= 3: opts += [slice(1, 3), slice(2, 100), slice(-100, 2), torch.tensor([True] + [False]*(s-2) + [True])]
        per.append(opts)
    return per
def isadv(o): return torch.is_tensor(o) or isinstance(o, list)
import random
only = sys.argv[1:]
configs = [((), (), (), 4, 3), ((2,), (2,), (2,), 3, 4), ((), (2,), (2,), 3, 3), ((2,), (), (), 3, 3), ((3,2),(3,2),(3,2), 3, 2)]
for kb, b1, b2, n, m in configs:
    for name, ctor in mk(d, torch.Size(kb)).items():
        if only and name not in only: continue
        if 'grad' in name and not (kb == b1 == b2): continue
        if name in ('lcm','arc','ng') and kb != (): continue
        torch.manual_seed(1)
        k = rnd(ctor()); k.eval()
        s = 0.4 if name == 'cyl' else 1.0
        x1 = torch.rand(*b1, n, d)*s; x2 = torch.rand(*b2, m, d)*s
        K = dense(k, x1, x2)
        per = index_space(K.shape)
        random.seed(0)
        allidx = list(itertools.product(*per))
        if len(allidx) > 1500: allidx = random.sample(allidx, 1500)
        # also ellipsis forms
        extra = [(Ellipsis, a, b) for a in per[-2] for b in per[-1]] + [(a,) for a in per[0]] + [(Ellipsis, b) for b in per[-1]]
        nfail = 0
        for idx in allidx + extra:
            # skip combos with 2-d index or mismatched advanced index lengths
            adv = [torch.as_tensor(o) for o in idx if isadv(o)]
            try:
                ref = K[idx]
            except Exception:
                continue
            try:
                L = k(x1, x2)
                got = L[idx]
                got = got.to_dense() if hasattr(got, 'to_dense') else got
                e = err(got.detach(), ref)
            except Exception as ex:
                e = "EXC %s: %s" % (type(ex).__name__, str(ex)[:100])
            if isinstance(e, str) or e > 1e-8:
                nfail += 1
                if nfail <= 4:
                    print("FAIL %-10s kb=%s b1=%s b2=%s idx=%s -> %s" % (name, kb, b1, b2, idx, e)); sys.stdout.flush()
        if nfail: print("     %-10s kb=%s b1=%s: %d failures of %d" % (name, kb, b1, nfail, len(allidx)+len(extra)))
