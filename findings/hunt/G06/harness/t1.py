from h1 import *
k = RBFKernel(batch_shape=torch.Size([3,2])); rnd(k)
x1 = torch.rand(3,2,3,2); x2 = torch.rand(3,2,2,2)
K = dense(k,x1,x2)
for idx in [(slice(None,None,2), slice(1,None), -1, 0), (slice(None), slice(None), -1, 0), (slice(None), slice(None), 2, 0),(slice(None), slice(None), -1, slice(None)), (Ellipsis, -1, 0), (0, 0, -1, 0), (slice(None), 0, -1, 0), (slice(None), 0, 2, 0)]:
    try:
        g = k(x1,x2)[idx]
        g = g.to_dense() if hasattr(g,'to_dense') else g
        print(idx, tuple(g.shape), tuple(K[idx].shape), err(g.detach(), K[idx]))
    except Exception as ex:
        print(idx, "EXC", type(ex).__name__, str(ex)[:200])
from linear_operator import to_linear_operator
print("dense linop:", to_linear_operator(K)[:, :, -1, 0].shape)
k = RBFKernel(); x1 = torch.rand(3,2); x2 = torch.rand(2,2); K = dense(k,x1,x2)
for idx in [(-1, 0), (-1, slice(None)), (slice(None), -1), (-1,-1), (2,1)]:
    g = k(x1,x2)[idx]
    g = g.to_dense() if hasattr(g,'to_dense') else g
    print(idx, tuple(g.shape), tuple(K[idx].shape), err(g.detach(), K[idx]))
