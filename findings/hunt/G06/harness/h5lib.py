from h1 import *
import torch.nn.functional as F
def checks(name, k, x1, x2, x3, blocks=True):
    n = x1.shape[-2]
    no = k.num_outputs_per_input(x1, x2)
    run(name, lambda: err(dense(k, x1, x2), dense(k, x1, x2, lazy=True)), "lazy vs eager x1,x2")
    run(name, lambda: err(dense(k, x1), dense(k, x1, lazy=True)), "lazy vs eager x1")
    run(name, lambda: err(dense(k, x1, x2), dense(k, x2, x1).transpose(-1, -2)), "transpose")
    run(name, lambda: err(dense(k, x1, x2, lazy=True), k(x2, x1).transpose(-1, -2).to_dense().detach()), "lazy transpose")
    run(name, lambda: err(dense(k, x1).diagonal(dim1=-1, dim2=-2), k(x1, diag=True).detach()), "diag=True vs full x1")
    run(name, lambda: err(dense(k, x1).diagonal(dim1=-1, dim2=-2), k(x1).diagonal(dim1=-1,dim2=-2).detach()), "lazy.diagonal() vs full x1")
    run(name, lambda: err(dense(k, x1, x3).diagonal(dim1=-1, dim2=-2), k(x1, x3, diag=True).detach()), "diag=True vs full x1,x3")
    run(name, lambda: err(dense(k, x1, x3).diagonal(dim1=-1, dim2=-2), k(x1, x3).diagonal(dim1=-1,dim2=-2).detach()), "lazy.diagonal() vs full x1,x3")
    run(name, lambda: err(dense(k, x1)[..., :2*no, no:], k(x1)[..., :2*no, no:].to_dense().detach()), "lazy slice of K(x1,x1)")
    run(name, lambda: err(dense(k, x1, x2)[..., :2*no, no:], k(x1, x2)[..., :2*no, no:].to_dense().detach()), "lazy slice of K(x1,x2)")
    run(name, lambda: err(dense(k, x1, x2)[..., torch.tensor([1,0]), :], k(x1, x2)[..., torch.tensor([1,0]), :].to_dense().detach()), "lazy tensor rows of K(x1,x2)")
    if blocks:
        def bl():
            xx = torch.cat([x1, x2], -2)
            K = dense(k, xx); N = n*no
            return max(err(K[..., :N, N:], dense(k, x1, x2)), err(K[..., N:, N:], dense(k, x2)) if True else 0)
        run(name, bl, "blocks")

