from h1 import *
from h5lib import checks
torch.manual_seed(0)
# 1-d inputs
for name, ctor in mk(1).items():
    if name in ('arc',): continue
    torch.manual_seed(1)
    k = rnd(ctor()); k.eval()
    s = 0.4 if name == 'cyl' else 1.0
    a = torch.rand(4)*s; b = torch.rand(3)*s
    run(name, lambda: err(dense(k, a, b), dense(k, a.unsqueeze(-1), b.unsqueeze(-1))), "1d vs (n,1) eager")
    run(name, lambda: err(dense(k, a, b, lazy=True), dense(k, a.unsqueeze(-1), b.unsqueeze(-1))), "1d vs (n,1) lazy")
    run(name, lambda: err(dense(k, a, b.unsqueeze(-1), lazy=True), dense(k, a.unsqueeze(-1), b.unsqueeze(-1))), "mixed 1d,(n,1) lazy")
    run(name, lambda: err(k(a, diag=True).detach(), dense(k, a.unsqueeze(-1)).diagonal()), "1d diag")
    run(name, lambda: err(k(a).diagonal().detach(), dense(k, a.unsqueeze(-1)).diagonal()), "1d lazy diag")
    no = k.num_outputs_per_input(a.unsqueeze(-1), b.unsqueeze(-1))
    run(name, lambda: err(k(a, b)[no:, :no].to_dense().detach(), dense(k, a.unsqueeze(-1), b.unsqueeze(-1))[no:, :no]), "1d lazy slice")
# compositions
d = 2
comps = {
 'scale(mt)': lambda: ScaleKernel(MultitaskKernel(RBFKernel(), num_tasks=2)),
 'mt+mt': lambda: MultitaskKernel(RBFKernel(), num_tasks=2) + MultitaskKernel(MaternKernel(), num_tasks=2, rank=2),
 'mt*mt': lambda: MultitaskKernel(RBFKernel(), num_tasks=2) * MultitaskKernel(MaternKernel(), num_tasks=2, rank=2),
 'scale(lcm)': lambda: ScaleKernel(LCMKernel([RBFKernel(), MaternKernel()], num_tasks=3, rank=2)),
 'rbfgrad+rbfgrad': lambda: RBFKernelGrad() + RBFKernelGrad(),
 'scale(rbfgrad)*polygrad': lambda: ScaleKernel(RBFKernelGrad()) * PolynomialKernelGrad(power=2),
 'scale(add(scale))': lambda: ScaleKernel(ScaleKernel(RBFKernel()) + ScaleKernel(PeriodicKernel()) * LinearKernel()),
 'prod3': lambda: RBFKernel() * PeriodicKernel() * CosineKernel(),
 'mt(add)': lambda: MultitaskKernel(RBFKernel() + LinearKernel(), num_tasks=2),
 'mt(prod)': lambda: MultitaskKernel(RBFKernel() * LinearKernel(), num_tasks=2),
 'mt(lin)': lambda: MultitaskKernel(LinearKernel(), num_tasks=2),
 'mt(poly)': lambda: MultitaskKernel(PolynomialKernel(power=2), num_tasks=2),
 'mt(rff)': lambda: MultitaskKernel(RFFKernel(num_samples=3, num_dims=2), num_tasks=2),
 'mt(sm)': lambda: MultitaskKernel(SpectralMixtureKernel(num_mixtures=2, ard_num_dims=2), num_tasks=2),
 'mt(per)': lambda: MultitaskKernel(PeriodicKernel(), num_tasks=2),
 'mt(cos)': lambda: MultitaskKernel(CosineKernel(), num_tasks=2),
 'mt(ng)': lambda: MultitaskKernel(NewtonGirardAdditiveKernel(RBFKernel(ard_num_dims=d), num_dims=d), num_tasks=2),
 'mt(const)': lambda: MultitaskKernel(ConstantKernel(), num_tasks=2),
 'mt(const+rbf)': lambda: MultitaskKernel(ConstantKernel()+RBFKernel(), num_tasks=2),
 'lcm(lin,per)': lambda: LCMKernel([LinearKernel(), PeriodicKernel(), ScaleKernel(CosineKernel())], num_tasks=2, rank=[1,2,1]),
 'const+rbf': lambda: ConstantKernel() + RBFKernel(),
 'const*rbf': lambda: ConstantKernel() * RBFKernel(),
 'ng3': lambda: NewtonGirardAdditiveKernel(MaternKernel(ard_num_dims=d), num_dims=d),
 'scale(ng)': lambda: ScaleKernel(NewtonGirardAdditiveKernel(RBFKernel(ard_num_dims=d), num_dims=d, max_degree=1)),
 'arc': lambda: ArcKernel(MaternKernel(nu=2.5), ard_num_dims=d),
 'scale(arc)': lambda: ScaleKernel(ArcKernel(RBFKernel())),
 'cyl(mat)': lambda: CylindricalKernel(4, ScaleKernel(MaternKernel(nu=1.5))),
}
for b in [(), (2,)]:
    for name, ctor in comps.items():
        torch.manual_seed(2)
        try:
            k = rnd(ctor()); k.eval()
        except Exception as ex:
            print("CTOR", name, ex); continue
        s = 0.4 if 'cyl' in name else 1.0
        checks(name + str(b), k, torch.rand(*b, 4, d)*s, torch.rand(*b, 3, d)*s, torch.rand(*b, 4, d)*s)
