from h1 import *
torch.manual_seed(0)
for n in (3, 4, 5):
    k = ScaleKernel(RBFKernel(batch_shape=torch.Size([4])), batch_shape=torch.Size([4])); rnd(k)
    x = torch.rand(n, 2)
    K = dense(k, x)
    d1 = k(x, diag=True).detach()
    d2 = k(x).diagonal(dim1=-1, dim2=-2).detach()
    print(n, K.shape, "diag=True", tuple(d1.shape), "lazy diag", tuple(d2.shape), "ref", tuple(K.diagonal(dim1=-1,dim2=-2).shape), err(d1, K.diagonal(dim1=-1,dim2=-2)))
