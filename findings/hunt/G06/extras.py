"""Secondary C06 observations (weaker / partly outside gpytorch / partly by design).  Informational; exit 1 if any is present."""
import sys
import warnings

import torch
import torch.nn.functional as F

import gpytorch
from gpytorch.kernels import GridKernel, HammingIMQKernel, InducingPointKernel, RBFKernel, RBFKernelGrad, ScaleKernel

warnings.filterwarnings("ignore")
torch.set_default_dtype(torch.float64)
torch.manual_seed(0)
bad = 0

# (a) negative integer row index of a lazy kernel tensor -> empty dimension (root cause: linear_operator turns the int i into slice(i, i+1);
#     LazyEvaluatedKernelTensor has _check_size = False, so nothing notices)
k = RBFKernel()
x1, x2 = torch.rand(3, 2), torch.rand(2, 2)
with gpytorch.settings.lazily_evaluate_kernels(False):
    K = k(x1, x2).to_dense().detach()
got = k(x1, x2)[-1, 0]
print("(a) K[-1, 0]: lazy shape", tuple(got.shape), "dense shape", tuple(K[-1, 0].shape))
bad += tuple(got.shape) != tuple(K[-1, 0].shape)
got = k(x1, x2)[-1]
print("(a) K[-1]   : lazy shape", tuple(got.shape), "dense shape", tuple(K[-1].shape))
bad += tuple(got.shape) != tuple(K[-1].shape)

# (b) HammingIMQKernel diag=True with batched inputs and an un-batched kernel drops the batch dimension
V, L = 3, 2
x = F.one_hot(torch.randint(0, V, (2, 4, L)), V).to(torch.float64).reshape(2, 4, L * V)
hk = HammingIMQKernel(vocab_size=V)
with gpytorch.settings.lazily_evaluate_kernels(False):
    full = hk(x).to_dense().detach()
d = hk(x, diag=True)
print("(b) Hamming: diag of full", tuple(full.diagonal(dim1=-1, dim2=-2).shape), "diag=True", tuple(d.shape))
bad += d.shape != full.diagonal(dim1=-1, dim2=-2).shape
try:
    hk(x).diagonal(dim1=-1, dim2=-2)
    print("(b) Hamming lazy .diagonal(): ok")
except Exception as ex:  # noqa
    print("(b) Hamming lazy .diagonal(): raised", str(ex)[:110])
    bad += 1

# (c) GridKernel on its own grid: the lazy diagonal raises
grid = torch.linspace(0, 1, 4).unsqueeze(-1).repeat(1, 2)
gk = GridKernel(RBFKernel(), grid=grid)
fg = gk.full_grid
try:
    dd = gk(fg).diagonal()
    print("(c) GridKernel lazy diagonal ok", tuple(dd.shape))
except Exception as ex:  # noqa
    print("(c) GridKernel(full_grid).diagonal(): raised", str(ex)[:110])
    bad += 1

# (d) InducingPointKernel in eval mode: the SGPR diagonal correction is only applied when x1 == x2, so slicing the lazy tensor
#     first (-> kernel(x[:2], x)) differs from slicing the dense matrix
ip = InducingPointKernel(ScaleKernel(RBFKernel()), inducing_points=torch.rand(3, 2), likelihood=gpytorch.likelihoods.GaussianLikelihood()).eval()
x = torch.rand(5, 2)
with gpytorch.settings.lazily_evaluate_kernels(False):
    K = ip(x).to_dense().detach()
lazy = ip(x)[:2, :].to_dense().detach()
print("(d) InducingPointKernel eval: max |K(x,x)[:2] (dense) - lazy K(x,x)[:2]| =", (K[:2] - lazy).abs().max().item())
bad += (K[:2] - lazy).abs().max().item() > 1e-8

# (e) .diagonal() of a square cross-covariance K(x1, x3), x1 != x3, raises for derivative kernels
gk2 = RBFKernelGrad()
a, b = torch.rand(3, 2), torch.rand(3, 2)
try:
    gk2(a, b).diagonal()
    print("(e) ok")
except Exception as ex:  # noqa
    print("(e) RBFKernelGrad()(x1, x3).diagonal(): raised", str(ex)[:80], "(documented: diag requires x1 == x2)")

sys.exit(1 if bad else 0)
