"""C06 bug 3: the derivative kernels do not broadcast batch shapes between x1, x2 and the kernel parameters.

RBFKernelGrad (same for RBFKernelGradGrad, Matern52KernelGrad, PolynomialKernelGrad) takes batch_shape = x1.shape[:-2] and
view()s / allocates everything with it.  Every ordinary kernel broadcasts x1.shape[:-2], x2.shape[:-2] and kernel.batch_shape;
these raise as soon as the three differ - including the configuration of the class docstring
(RBFKernelGrad(batch_shape=[2]) applied to an un-batched x, "Output: LinearOperator of size (2 x 60 x 60)").
Reference: closed-form RBF value/gradient covariance, written from scratch.
"""
import sys
import warnings

import torch

import gpytorch
from gpytorch.kernels import Matern52KernelGrad, PolynomialKernelGrad, RBFKernelGrad, RBFKernelGradGrad, ScaleKernel

warnings.filterwarnings("ignore")
torch.set_default_dtype(torch.float64)
torch.manual_seed(0)


def rbf_grad_reference(x1, x2, ls):
    """x1: n x d, x2: m x d, ls: d.  Rows/cols ordered point-major: (value, d/dx_1 .. d/dx_d) per point."""
    n, d = x1.shape
    m = x2.shape[0]
    diff = x1.unsqueeze(1) - x2.unsqueeze(0)  # n m d
    k = torch.exp(-0.5 * (diff / ls).pow(2).sum(-1))  # n m
    K = torch.zeros(n, d + 1, m, d + 1)
    K[:, 0, :, 0] = k
    for j in range(d):
        K[:, 0, :, j + 1] = diff[..., j] / ls[j] ** 2 * k  # d/dx2_j
        K[:, j + 1, :, 0] = -diff[..., j] / ls[j] ** 2 * k  # d/dx1_j
        for i in range(d):
            K[:, i + 1, :, j + 1] = ((i == j) / ls[i] ** 2 - diff[..., i] * diff[..., j] / (ls[i] * ls[j]) ** 2) * k
    return K.reshape(n * (d + 1), m * (d + 1))


def batched_reference(x1, x2, ls):
    bshape = torch.broadcast_shapes(x1.shape[:-2], x2.shape[:-2], ls.shape[:-2])
    x1e = x1.expand(*bshape, *x1.shape[-2:]).reshape(-1, *x1.shape[-2:])
    x2e = x2.expand(*bshape, *x2.shape[-2:]).reshape(-1, *x2.shape[-2:])
    lse = ls.expand(*bshape, *ls.shape[-2:]).reshape(-1, ls.shape[-1])
    out = torch.stack([rbf_grad_reference(a, b, l) for a, b, l in zip(x1e, x2e, lse)])
    return out.reshape(*bshape, *out.shape[-2:])


n, m, d = 4, 3, 2
bad = 0
cases = [
    # kernel batch, x1 batch, x2 batch
    ((), (), ()),  # sanity: validates the reference
    ((2,), (2,), (2,)),  # sanity
    ((2,), (), ()),  # docstring example: batched kernel, un-batched inputs
    ((), (2,), ()),  # batched x1 against shared x2 (e.g. batched train inputs vs. common test inputs)
    ((), (), (2,)),
    ((2,), (2,), ()),
    ((3, 1), (2,), (2,)),
]
for kb, b1, b2 in cases:
    torch.manual_seed(1)
    k = RBFKernelGrad(ard_num_dims=d, batch_shape=torch.Size(kb))
    k.raw_lengthscale.data.add_(0.5 * torch.randn_like(k.raw_lengthscale))
    k.eval()
    x1 = torch.rand(*b1, n, d)
    x2 = torch.rand(*b2, m, d)
    ref = batched_reference(x1, x2, k.lengthscale.detach())
    ref_diag = batched_reference(x1, x1, k.lengthscale.detach()).diagonal(dim1=-1, dim2=-2)
    for what in ("eager", "lazy", "diag=True"):
        try:
            if what == "diag=True":
                got = k(x1, diag=True).detach()
                r = ref_diag
            else:
                with gpytorch.settings.lazily_evaluate_kernels(what == "lazy"):
                    got = k(x1, x2).to_dense().detach()
                r = ref
            if got.shape != r.shape:
                print(f"RBFKernelGrad batch_shape={kb} x1 batch={b1} x2 batch={b2} {what}: shape {tuple(got.shape)} expected {tuple(r.shape)}")
                bad += 1
            else:
                e = (got - r).abs().max().item()
                print(f"RBFKernelGrad batch_shape={kb} x1 batch={b1} x2 batch={b2} {what}: max abs err vs closed form {e:.2e}")
                bad += e > 1e-8
        except Exception as ex:  # noqa
            print(f"RBFKernelGrad batch_shape={kb} x1 batch={b1} x2 batch={b2} {what}: raised {type(ex).__name__}: {str(ex)[:90]}")
            bad += 1

# the literal docstring example
x = torch.randn(10, 5)
covar_module = ScaleKernel(RBFKernelGrad(batch_shape=torch.Size([2])))
try:
    covar = covar_module(x)
    print("docstring example: size", tuple(covar.to_dense().shape), "(documented: 2 x 60 x 60)")
except Exception as ex:  # noqa
    print("docstring example: raised", type(ex).__name__, str(ex)[:90], "(documented: size 2 x 60 x 60)")
    bad += 1

# the sibling kernels share the defect (informational)
for cls, kw in [(RBFKernelGradGrad, {}), (Matern52KernelGrad, {}), (PolynomialKernelGrad, {"power": 2})]:
    for kb, b1, b2 in [((2,), (), ()), ((), (2,), ())]:
        kk = cls(batch_shape=torch.Size(kb), **kw).eval()
        try:
            with gpytorch.settings.lazily_evaluate_kernels(False):
                out = kk(torch.rand(*b1, n, d), torch.rand(*b2, m, d)).to_dense()
            print(f"{cls.__name__} batch_shape={kb} x1 batch={b1} x2 batch={b2}: ok {tuple(out.shape)}")
        except Exception as ex:  # noqa
            print(f"{cls.__name__} batch_shape={kb} x1 batch={b1} x2 batch={b2}: raised {type(ex).__name__}: {str(ex)[:80]}")
            bad += 1

print("VIOLATION PRESENT" if bad else "no violation")
sys.exit(1 if bad else 0)
