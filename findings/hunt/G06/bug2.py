"""C06 bug 2: kernel(x, diag=True) != diagonal of the full matrix when the kernel's batch size equals the number of points.

A kernel with batch_shape (b,) applied to un-batched inputs x (n x d) has the full covariance b x n x n, so diag=True must give b x n.
Kernel.__call__ post-processes the result of forward(diag=True) with the heuristic "did this kernel ignore diag?":
    if res.dim() == x1_.dim() and res.shape[-2:] == (n, m): res = res.diagonal(dim1=-1, dim2=-2)
For b == n the (correct) b x n diagonal has exactly that signature and is "diagonalised" a second time: the result has shape (n,)
and contains entry [i, i] of the true b x n answer.
"""
import sys
import warnings

import torch

import gpytorch
from gpytorch.kernels import LinearKernel, RBFKernel, ScaleKernel

warnings.filterwarnings("ignore")
torch.set_default_dtype(torch.float64)
torch.manual_seed(0)


def make(kind, b):
    bs = torch.Size(b)
    if kind == "scale_rbf":
        k = ScaleKernel(RBFKernel(batch_shape=bs), batch_shape=bs)
    else:
        k = LinearKernel(batch_shape=bs)
    for p in k.parameters():
        p.data.add_(0.5 * torch.randn_like(p))
    return k.eval()


bad = 0
for kind in ("scale_rbf", "linear"):
    for b, xshape in [((4,), (3, 2)), ((4,), (4, 2)), ((4,), (5, 2)), ((5, 4), (4, 4, 2)), ((5, 3), (3, 4, 2))]:
        k = make(kind, b)
        x = torch.rand(*xshape)
        with gpytorch.settings.lazily_evaluate_kernels(False):
            full = k(x).to_dense().detach()
        # from-scratch reference of the diagonal
        if kind == "scale_rbf":
            ref = k.outputscale.detach().unsqueeze(-1).expand(*full.shape[:-1])
        else:
            ref = (x.pow(2).sum(-1) * k.variance.detach().squeeze(-1)).expand(*full.shape[:-1])
        assert torch.allclose(full.diagonal(dim1=-1, dim2=-2), ref)
        got = k(x, diag=True).detach()
        lazy_diag = k(x).diagonal(dim1=-1, dim2=-2).detach()
        ok = got.shape == ref.shape and torch.allclose(got, ref)
        ok_lazy = lazy_diag.shape == ref.shape and torch.allclose(lazy_diag, ref)
        msg = "ok" if ok else "MISMATCH"
        print(
            f"{kind:9s} batch_shape={b} x={xshape}: full {tuple(full.shape)}, diag of full {tuple(ref.shape)}, "
            f"kernel(x, diag=True) {tuple(got.shape)} -> {msg};  kernel(x).diagonal() {tuple(lazy_diag.shape)} -> {'ok' if ok_lazy else 'MISMATCH'}"
        )
        if not ok:
            if got.dim() == ref.dim() - 1:
                print("      returned values == diag of the (batch x n) answer:", torch.allclose(got, ref.diagonal(dim1=-1, dim2=-2)),
                      "; max |expected[0] - returned| =", (ref.reshape(-1, ref.shape[-1])[0] - got.reshape(-1, got.shape[-1])[0]).abs().max().item())
            bad += 1
        if not ok_lazy:
            bad += 1

print("VIOLATION PRESENT" if bad else "no violation")
sys.exit(1 if bad else 0)
