"""C06 bug 1: batch-indexing a lazily evaluated kernel tensor of a batched MultitaskKernel.

K = MultitaskKernel(RBFKernel(batch_shape=[2]), num_tasks=2, batch_shape=[2])(x1, x2) is a 2 x (n*T) x (m*T) lazy tensor.
K[0], K[1], K[0:1], K[1, :, 2:4] ... must equal the dense matrix indexed the same way.  They raise instead
(or, with debug off, report a wrong shape), because Kernel.__getitem__ leaves the `_batch_shape` of a kernel
that owns no parameters itself (MultitaskKernel keeps them in sub-kernels) untouched: kernel[0].batch_shape stays (2,).
"""
import sys
import warnings

import torch

import gpytorch
from gpytorch.kernels import MultitaskKernel, RBFKernel, ScaleKernel

warnings.filterwarnings("ignore")
torch.set_default_dtype(torch.float64)
torch.manual_seed(0)

B = torch.Size([2])
kernel = MultitaskKernel(ScaleKernel(RBFKernel(batch_shape=B), batch_shape=B), num_tasks=2, rank=1, batch_shape=B)
for p in kernel.parameters():
    p.data.add_(0.5 * torch.randn_like(p))
kernel.eval()
x1 = torch.rand(2, 3, 2)
x2 = torch.rand(2, 4, 2)

with gpytorch.settings.lazily_evaluate_kernels(False):
    dense = kernel(x1, x2).to_dense().detach()  # eager reference, 2 x 6 x 8
# independent replica of the reference: K_x (x) K_t per batch element
Kx = kernel.data_covar_module(x1, x2).to_dense().detach()
Kt = kernel.task_covar_module.covar_matrix.to_dense().detach()
replica = torch.stack([torch.kron(Kx[i], Kt[i]) for i in range(2)])
print("eager vs kron replica:", (dense - replica).abs().max().item())

bad = 0

sub = kernel[0]
print("kernel.batch_shape =", tuple(kernel.batch_shape), "; kernel[0].batch_shape =", tuple(sub.batch_shape), "(expected ())")
print("   sub-kernels of kernel[0]:", tuple(sub.task_covar_module.batch_shape), tuple(sub.data_covar_module.batch_shape))
if tuple(sub.batch_shape) != ():
    bad += 1

indices = {
    "[0]": (0,),
    "[1]": (1,),
    "[0:1]": (slice(0, 1),),
    "[1, :, 2:4]": (1, slice(None), slice(2, 4)),
    "[0, 0:2, 0:2]": (0, slice(0, 2), slice(0, 2)),
    "[tensor([1,0,0])]": (torch.tensor([1, 0, 0]),),
}
for name, idx in indices.items():
    ref = dense[idx]
    try:
        lazy = kernel(x1, x2)  # LazyEvaluatedKernelTensor
        got = lazy[idx]
        shape = tuple(got.shape)
        got = got.to_dense().detach() if hasattr(got, "to_dense") else got.detach()
        if shape != tuple(ref.shape) or got.shape != ref.shape:
            print(f"K{name}: reported shape {shape}, dense shape {tuple(got.shape)}, expected {tuple(ref.shape)}  -> MISMATCH")
            bad += 1
        else:
            e = (got - ref).abs().max().item()
            print(f"K{name}: max abs err {e:.2e}")
            bad += e > 1e-10
    except Exception as ex:  # noqa
        print(f"K{name}: raised {type(ex).__name__}: {str(ex)[:140]}   (expected shape {tuple(ref.shape)})")
        bad += 1

# same without the debug shape check: the lazy tensor then silently reports a wrong shape
with gpytorch.settings.debug(False):
    got = kernel(x1, x2)[0]
    print("debug off: K[0].shape =", tuple(got.shape), " K[0].to_dense().shape =", tuple(got.to_dense().shape), " expected", tuple(dense[0].shape))
    if tuple(got.shape) != tuple(dense[0].shape):
        bad += 1

print("VIOLATION PRESENT" if bad else "no violation")
sys.exit(1 if bad else 0)
