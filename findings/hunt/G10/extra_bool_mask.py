#!/usr/bin/env python3
"""
C10 / extra A: MultivariateNormal.__getitem__ with boolean masks (over the event dimension or over a batch dimension)
raises, although mean[mask] is a perfectly valid selection of components.
"""
import sys
import warnings

import torch

from gpytorch.distributions import MultivariateNormal

warnings.simplefilter("ignore")
torch.manual_seed(0)
torch.set_default_dtype(torch.float64)

b, n = 3, 4
a = torch.randn(b, n, n)
C = a @ a.transpose(-1, -2) + 0.5 * torch.eye(n)
mean = torch.randn(b, n)
emask = torch.tensor([True, False, True, True])
bmask = torch.tensor([True, False, True])
eidx, bidx = emask.nonzero()[:, 0], bmask.nonzero()[:, 0]

cases = [
    ("no batch, dist[emask]", MultivariateNormal(mean[0], C[0]), (emask,), mean[0][eidx], C[0][eidx][:, eidx]),
    ("batch, dist[..., emask]", MultivariateNormal(mean, C), (Ellipsis, emask), mean[:, eidx], C[:, eidx][:, :, eidx]),
    ("batch, dist[0, emask]", MultivariateNormal(mean, C), (0, emask), mean[0][eidx], C[0][eidx][:, eidx]),
    ("batch, dist[bmask]", MultivariateNormal(mean, C), (bmask,), mean[bidx], C[bidx]),
    ("batch, dist[bmask, 1:3]", MultivariateNormal(mean, C), (bmask, slice(1, 3)), mean[bidx, 1:3], C[bidx, 1:3, 1:3]),
]
bad = False
for label, d, idx, rm, rc in cases:
    try:
        s = d[idx if len(idx) > 1 else idx[0]]
        e = max((s.mean - rm).abs().max().item(), (s.covariance_matrix - rc).abs().max().item())
        print(f"{label}: ok, error {e:.2e}")
        bad |= e > 1e-8
    except Exception as ex:  # noqa
        print(f"{label}: RAISED {type(ex).__name__}: {str(ex)[:150]}")
        bad = True
    # the same selection with integer indices works
    iidx = tuple(i.nonzero()[:, 0] if torch.is_tensor(i) else i for i in idx)
    s = d[iidx if len(iidx) > 1 else iidx[0]]
    e = max((s.mean - rm).abs().max().item(), (s.covariance_matrix - rc).abs().max().item())
    print(f"    same selection with integer index tensor: error {e:.2e}")
print("VIOLATION" if bad else "ok")
sys.exit(1 if bad else 0)
