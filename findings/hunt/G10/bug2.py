#!/usr/bin/env python3
"""
C10 / bug 2: the inherited / overridden batch operations of MultitaskMultivariateNormal break when the covariance
was given as a dense tensor (the documented, most common way to build one):

 * unsqueeze(dim) (inherited from MultivariateNormal) builds the result with __new__ and torch's MVN __init__, so the
   MultitaskMultivariateNormal it returns has no _output_shape / _interleaved: .mean, .event_shape, .log_prob raise.
 * expand(batch_shape) (MultitaskMultivariateNormal.expand) reads self._covar, which exists only for lazy covariances.

Reference: the same distribution built from the same covariance wrapped as a LinearOperator, and the dense formulas.
"""
import sys
import warnings

import torch
from linear_operator import to_linear_operator

from gpytorch.distributions import MultitaskMultivariateNormal

warnings.simplefilter("ignore")
torch.manual_seed(0)
torch.set_default_dtype(torch.float64)

n, t = 3, 2
a = torch.randn(n * t, n * t)
C = a @ a.T + 0.5 * torch.eye(n * t)
mean = torch.randn(n, t)
value = torch.randn(n, t)

ref = torch.distributions.MultivariateNormal(mean.reshape(-1), C).log_prob(value.reshape(-1))

bad = False


def attempt(label, fn, want):
    global bad
    try:
        got = fn()
        err = (got - want).abs().max().item()
        print(f"{label}: ok, max error {err:.2e}")
        if got.shape != want.shape or err > 1e-8:
            bad = True
    except Exception as e:  # noqa
        print(f"{label}: RAISED {type(e).__name__}: {e}")
        bad = True


for kind, cov in [("LinearOperator covariance", to_linear_operator(C)), ("dense tensor covariance", C)]:
    print("---", kind)

    def mk():
        return MultitaskMultivariateNormal(mean, cov)

    attempt("  unsqueeze(0).mean         ", lambda: mk().unsqueeze(0).mean, mean.unsqueeze(0))
    attempt("  unsqueeze(0).log_prob     ", lambda: mk().unsqueeze(0).log_prob(value), ref.unsqueeze(0))
    attempt("  expand([2]).mean          ", lambda: mk().expand(torch.Size([2])).mean, mean.expand(2, n, t))
    attempt("  expand([2]).log_prob      ", lambda: mk().expand(torch.Size([2])).log_prob(value), ref.expand(2))
    attempt(
        "  expand([2]).covariance    ", lambda: mk().expand(torch.Size([2])).covariance_matrix, C.expand(2, n * t, n * t)
    )

print("VIOLATION" if bad else "ok")
sys.exit(1 if bad else 0)
