#!/usr/bin/env python3
"""
C10 / bug 3: MultivariateNormal.__getitem__ with None (newaxis) in the index.

x ~ MVN(mean, C), batch shape (3,), event size 4.  x[None, 0] is x[0] with a new leading batch dimension of size 1, so
dist[None, 0] must be N(mean[0], C[0]) with batch shape (1,).  The library counts None as if it consumed a dimension of
the mean, takes the branch "the last index is an int on the event dimension" and returns the DIAGONAL of C[0] only:
all covariances between the components are silently dropped.  Other placements of None (dist[None], dist[:, None],
dist[..., None, :]) raise from LinearOperator.__getitem__.
"""
import sys
import warnings

import torch

from gpytorch.distributions import MultivariateNormal

warnings.simplefilter("ignore")
torch.manual_seed(0)
torch.set_default_dtype(torch.float64)

b, n = 3, 4
a = torch.randn(b, n, n)
C = a @ a.transpose(-1, -2) + 0.5 * torch.eye(n)
mean = torch.randn(b, n)
dist = MultivariateNormal(mean, C)

bad = False

sub = dist[None, 0]
ref_mean, ref_cov = mean[None, 0], C[None, 0]
print("dist[None, 0]: batch_shape", tuple(sub.batch_shape), "event_shape", tuple(sub.event_shape))
err_mean = (sub.mean - ref_mean).abs().max().item()
err_cov = (sub.covariance_matrix - ref_cov).abs().max().item()
print("  returned covariance:\n", sub.covariance_matrix[0])
print("  C[0] (reference):\n", ref_cov[0])
print(f"  mean error {err_mean:.3e}, covariance error {err_cov:.3e}")
v = torch.randn(1, n)
lp = sub.log_prob(v)
lp_ref = torch.distributions.MultivariateNormal(ref_mean, ref_cov).log_prob(v)
print(f"  log_prob {lp.item():.6f} vs reference {lp_ref.item():.6f}")
if err_cov > 1e-8 or err_mean > 1e-8:
    bad = True

for label, idx, (rm, rc) in [
    ("dist[None]", (None,), (mean[None], C[None])),
    ("dist[:, None]", (slice(None), None), (mean[:, None], C[:, None])),
    ("dist[None, :, 1:3]", (None, slice(None), slice(1, 3)), (mean[None, :, 1:3], C[None, :, 1:3, 1:3])),
]:
    try:
        s = dist[idx]
        e = max((s.mean - rm).abs().max().item(), (s.covariance_matrix - rc).abs().max().item())
        print(f"{label}: ok, error {e:.2e}")
        if e > 1e-8:
            bad = True
    except Exception as ex:  # noqa
        print(f"{label}: RAISED {type(ex).__name__}: {str(ex)[:140]}")
        bad = True

print("VIOLATION" if bad else "ok")
sys.exit(1 if bad else 0)
