#!/usr/bin/env python3
"""
C10 / bug 1: MultivariateNormal.__getitem__ with index tensors (or lists) on BOTH a batch dimension and the event
dimension returns a covariance that is not the covariance of the selected components (it is not even symmetric).

x ~ MVN(mean, C) with batch shape (3,) and event size 4.   bi = [0, 1], ei = [0, 2]
mean[bi, ei] selects the random vector  y = (x[0, 0], x[1, 2])  (torch advanced indexing pairs the two index tensors).
Batch members are independent, so Cov(y) = diag(C[0, 0, 0], C[1, 2, 2]).
The library returns [[C[0,0,0], C[0,0,2]], [C[1,2,0], C[1,2,2]]].
"""
import sys
import warnings

import torch

from gpytorch.distributions import MultivariateNormal

warnings.simplefilter("ignore")
torch.manual_seed(0)
torch.set_default_dtype(torch.float64)

b, n = 3, 4
a = torch.randn(b, n, n)
C = a @ a.transpose(-1, -2) + 0.5 * torch.eye(n)
mean = torch.randn(b, n)
dist = MultivariateNormal(mean, C)

bi, ei = torch.tensor([0, 1]), torch.tensor([0, 2])

# reference: joint covariance of the whole (batch x event) random array is block diagonal; select the components by id
ids = torch.arange(b * n).reshape(b, n)
joint = torch.block_diag(*C)  # (b*n) x (b*n)
sel = ids[bi, ei]
ref_mean = mean.reshape(-1)[sel]
ref_cov = joint[sel][:, sel]

bad = False
for label, idx in [("tensor,tensor", (bi, ei)), ("list,list", ([0, 1], [0, 2]))]:
    sub = dist[idx]
    got_mean, got_cov = sub.mean, sub.covariance_matrix
    err_mean = (got_mean - ref_mean).abs().max().item()
    err_cov = (got_cov - ref_cov).abs().max().item()
    asym = (got_cov - got_cov.transpose(-1, -2)).abs().max().item()
    print(f"index ({label}): mean error {err_mean:.3e}")
    print("  covariance returned by dist[idx]:\n", got_cov)
    print("  covariance of the selected components (reference):\n", ref_cov)
    print(f"  max |cov - ref| = {err_cov:.3e}   asymmetry of returned covariance = {asym:.3e}")
    if err_cov > 1e-8 or err_mean > 1e-8:
        bad = True

# the same through a Monte-Carlo free consistency check: marginal variances are right, so only the cross terms are wrong
print("VIOLATION" if bad else "ok")
sys.exit(1 if bad else 0)
