#!/usr/bin/env python3
"""
C10 / extra B (gpytorch/distributions/delta.py, only when pyro is not installed): Delta.expand initialises SELF instead of the
new instance: the original distribution silently changes its batch_shape and the returned one has no batch_shape.
"""
import sys

import torch

from gpytorch.distributions import Delta

torch.manual_seed(0)
v = torch.randn(3, 4, dtype=torch.float64)
d = Delta(v, event_dim=1)
before = d.batch_shape
bad = False
e = d.expand(torch.Size([2, 3]))
print("batch_shape of the ORIGINAL before / after expand:", tuple(before), tuple(d.batch_shape))
if d.batch_shape != before:
    bad = True
try:
    print("batch_shape of the expanded distribution:", tuple(e.batch_shape))
    lp = e.log_prob(v.expand(2, 3, 4))
    print("log_prob of the support point:", lp)
    bad |= e.batch_shape != torch.Size([2, 3]) or not torch.equal(lp, torch.zeros(2, 3, dtype=v.dtype))
except Exception as ex:  # noqa
    print(f"expanded distribution RAISED {type(ex).__name__}: {ex}")
    bad = True
print("VIOLATION" if bad else "ok")
sys.exit(1 if bad else 0)
