# Concerns commit 7b3dc80 (Kernel.expand_batch / __getitem__ replace the members of composite kernels).
# Incomplete repair + lost parameter tie: named_sub_kernels() is built on named_modules(), which yields a
# module that occurs twice only once (under its first path).  For k + k / k * k the new code replaces
# 'kernels.0' by the expanded kernel and leaves 'kernels.1' as the un-expanded deep copy: the two
# occurrences of the SAME kernel become two different modules (1 parameter -> 2 independent parameters),
# with different batch shapes ((2,) and ()) - the very symptom the commit describes ("reported batch shape
# (2,) while its members kept ()") for the second member.  Before the commit the expanded copy kept the tie
# (kernels[0] is kernels[1]); none of the members were expanded then.
import sys
import warnings

import torch

from gpytorch.kernels import RBFKernel

warnings.simplefilter("ignore")
bad = 0
for opname, op in (("k + k", lambda k: k + k), ("k * k", lambda k: k * k)):
    k = RBFKernel()
    comp = op(k)
    e = comp.expand_batch(torch.Size([2]))
    tied_before = comp.kernels[0] is comp.kernels[1]
    tied_after = e.kernels[0] is e.kernels[1]
    shapes = [tuple(m.batch_shape) for m in e.kernels]
    nparams = (len(list(comp.parameters())), len(list(e.parameters())))
    print(f"{opname}: tied before expand: {tied_before}, after: {tied_after}; member batch shapes after: {shapes}; "
          f"number of parameters before/after: {nparams}")
    if tied_before and (not tied_after or shapes[0] != shapes[1]):
        bad += 1
print("PROBLEM PRESENT" if bad else "no problem")
sys.exit(1 if bad else 0)
