# Concerns commit 84cf7a9 (_Likelihood.expected_log_prob does not hand the extra arguments to log_prob).
# Behaviour change (low severity): before the commit the extra arguments of expected_log_prob were given
# to forward AND to the log_prob of the distribution that forward returns.  A user likelihood whose forward
# returns a distribution with a log_prob(value, weight=None) signature (per-observation weights / masks)
# worked with the old code; the new code silently drops the argument for log_prob (no error), so the
# expected log-likelihood is computed un-weighted.  (log_marginal never forwarded them, so the old
# behaviour was inconsistent; with torch distributions the old code raised TypeError.)
import sys
import warnings

import torch

from gpytorch.distributions import base_distributions, MultivariateNormal
from gpytorch.likelihoods import Likelihood

warnings.simplefilter("ignore")


class WeightedNormal(base_distributions.Normal):
    def log_prob(self, value, weight=None):
        lp = super().log_prob(value)
        return lp if weight is None else lp * weight


class WeightedLikelihood(Likelihood):
    def forward(self, function_samples, *args, weight=None, **kwargs):
        return WeightedNormal(function_samples, 1.0)


torch.manual_seed(0)
fd = MultivariateNormal(torch.zeros(4), torch.eye(4))
y = torch.randn(4)
w = torch.tensor([1.0, 0.0, 1.0, 0.0])
lik = WeightedLikelihood()
res = lik.expected_log_prob(y, fd, weight=w)
print("weights:", w.tolist())
print("expected_log_prob(y, f, weight=w):", res.tolist())
ignored = bool((res[w == 0] != 0).any())
print("entries with weight 0 are non-zero (weight was not given to log_prob):", ignored)
print("PROBLEM PRESENT" if ignored else "no problem")
sys.exit(1 if ignored else 0)
