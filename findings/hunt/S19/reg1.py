# Concerns commit 7b3dc80 (Kernel.expand_batch / __getitem__ replace the members of composite kernels).
# Incomplete repair: expand_batch() now expands the members of a sum / product / LCM kernel and stamps the
# composite with _batch_shape = new_batch_shape, but AdditiveKernel / ProductKernel / LCMKernel override
# __getitem__ and never update that _batch_shape.  Indexing the expanded kernel therefore gives a kernel
# whose members are indexed (batch ()) while the composite still reports the expanded batch shape, and
# evaluating it raises.  This is exactly the sequence LazyEvaluatedKernelTensor._getitem uses as fallback
# (kernel.expand_batch(batch_shape).__getitem__(batch_indices)), which still fails for sum kernels.
# (Before the commit the same programs failed too - one step earlier / with IndexError.)
import sys
import warnings

import torch

import gpytorch
from gpytorch.kernels import LCMKernel, MaternKernel, RBFKernel, ScaleKernel

warnings.simplefilter("ignore")
torch.manual_seed(0)
x = torch.randn(5, 2)
bad = 0


def check(name, fn, expected_shape):
    global bad
    try:
        shape = tuple(fn())
        ok = shape == expected_shape
        print(f"{name}: shape {shape}, expected {expected_shape} -> {'ok' if ok else 'WRONG'}")
    except Exception as e:  # noqa
        ok = False
        print(f"{name}: raised {type(e).__name__}: {str(e)[:140]}")
    bad += not ok


# reference: a kernel without overriding __getitem__ works
def scale_case():
    k = ScaleKernel(RBFKernel()).expand_batch(torch.Size([2]))[0]
    print("  ScaleKernel expanded+indexed batch_shape:", tuple(k.batch_shape))
    return k(x).to_dense().shape


def sum_case():
    k = (RBFKernel() + MaternKernel()).expand_batch(torch.Size([2]))[0]
    print("  AdditiveKernel expanded+indexed batch_shape:", tuple(k.batch_shape), "members:", [tuple(m.batch_shape) for m in k.kernels])
    return k(x).to_dense().shape


def prod_case():
    k = (RBFKernel() * MaternKernel()).expand_batch(torch.Size([2]))[0]
    print("  ProductKernel expanded+indexed batch_shape:", tuple(k.batch_shape))
    return k(x).to_dense().shape


def lcm_case():
    k = LCMKernel([RBFKernel(), MaternKernel()], num_tasks=2).expand_batch(torch.Size([2]))[0]
    print("  LCMKernel expanded+indexed batch_shape:", tuple(k.batch_shape))
    return k(x).to_dense().shape


def lazy_case():
    # library path: batch index of a lazily evaluated sum kernel whose inputs have one more batch dimension
    B = torch.Size([2])
    k = RBFKernel(batch_shape=B) + MaternKernel(batch_shape=B)
    xb = torch.randn(3, 2, 5, 2)
    lz = k(xb)
    full = lz.to_dense()
    sub = lz[2]
    dense = sub.to_dense()
    assert torch.allclose(dense, full[2])
    return dense.shape


check("ScaleKernel(RBF).expand_batch([2])[0](x)", scale_case, (5, 5))
check("(RBF+Matern).expand_batch([2])[0](x)", sum_case, (5, 5))
check("(RBF*Matern).expand_batch([2])[0](x)", prod_case, (5, 5))
check("LCMKernel.expand_batch([2])[0](x)", lcm_case, (10, 10))
check("LazyEvaluatedKernelTensor of batch sum kernel, lz[2]", lazy_case, (2, 5, 5))
print("PROBLEM PRESENT" if bad else "no problem")
sys.exit(1 if bad else 0)
