#!/usr/bin/env python3
"""
C11 / extra finding 4 (adjacent to the stated property): arithmetic on a NON-INTERLEAVED MultitaskMultivariateNormal
silently re-labels the covariance as interleaved.

MultivariateNormal.__add__, __mul__ (hence __truediv__, __radd__/sum) and add_jitter build the result with
`self.__class__(mean=..., covariance_matrix=...)`.  For a MultitaskMultivariateNormal this calls the constructor with the
default `interleaved=True`, while the covariance that is passed on is still stored task-major.  So for every
distribution with interleaved=False (e.g. everything returned by from_independent_mvns) `d * 2`, `d + 1.0`, `d + d`,
`d / 2`, `sum([d, d])` and `d.add_jitter()` denote a different joint Gaussian: the variances/covariances are attached to the
wrong (point, task) pairs.

Reference: Var[(a X + c)] = a^2 Var[X] entry-wise, and the same operations on the interleaved copy of the distribution.
"""
import sys
import warnings

import torch

from linear_operator import to_linear_operator
from gpytorch.distributions import MultitaskMultivariateNormal, MultivariateNormal

warnings.filterwarnings("ignore")
torch.manual_seed(0)
torch.set_default_dtype(torch.float64)

n, t = 3, 2
mvns = []
for k in range(t):
    A = torch.randn(n, n)
    mvns.append(MultivariateNormal(torch.randn(n), to_linear_operator(A @ A.T + (10 * k + 1) * torch.eye(n))))
d = MultitaskMultivariateNormal.from_independent_mvns(mvns)  # interleaved=False
ref_var = torch.stack([m.variance for m in mvns], -1)
assert torch.allclose(d.variance, ref_var)
val = torch.randn(n, t)

ops = [
    ("d * 2", lambda x: x * 2, 4.0, lambda v: v / 2),
    ("d / 2", lambda x: x / 2, 0.25, lambda v: v * 2),
    ("d + 1.0", lambda x: x + 1.0, 1.0, lambda v: v - 1.0),
    ("d + d", lambda x: x + x, 2.0, None),
    ("sum([d, d])", lambda x: sum([x, x]), 2.0, None),
    ("d.add_jitter(0.)", lambda x: x.add_jitter(0.0), 1.0, lambda v: v),
]
bad = False
for name, op, var_factor, back in ops:
    r = op(d)
    err = (r.variance - var_factor * ref_var).abs().max().item()
    msg = f"{name}: result interleaved={r._interleaved}, max |variance - {var_factor} * Var[d]| = {err:.3e}"
    if back is not None:
        # change of variables: log p_r(v) = log p_d(back(v)) - n t log|a|
        a = var_factor ** 0.5
        lp_ref = d.log_prob(back(val)) - n * t * torch.log(torch.tensor(a))
        lerr = (r.log_prob(val) - lp_ref).abs().item()
        msg += f", |log_prob - ref| = {lerr:.3e}"
        bad |= lerr > 1e-6
    print(msg)
    bad |= err > 1e-8

print("VIOLATION PRESENT" if bad else "no violation")
sys.exit(1 if bad else 0)
