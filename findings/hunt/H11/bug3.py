#!/usr/bin/env python3
"""
C11 / bug 3: MultitaskMultivariateNormal.from_batch_mvn on a batch MVN whose mean and covariance carry DIFFERENT
(broadcastable) batch shapes.

gpytorch.distributions.MultivariateNormal accepts mean `... x N` and a lazy covariance `... x N x N` whose batch shapes
only broadcast against each other (batch_shape = broadcast_shapes(mean.shape[:-1], covar.shape[:-2])); e.g. one mean
vector shared by a batch of covariances, or one covariance shared by a batch of means.  `mvn.batch_shape` then reports
the broadcast shape and from_batch_mvn validates `task_dim` against that shape, but it permutes `batch_mvn.mean` using
`num_dim = batch_mvn.mean.dim()` and wraps the *un-broadcast* covariance in a BlockInterleavedLinearOperator:
  A  mean (T, n), covar (b, T, n, n), T == n : the permutation degenerates to the identity, the (T, n) mean is used as an
     (n, T) mean -> silently TRANSPOSED mean (wrong joint distribution, no error)
  B  mean (n,),   covar (T, n, n)            : RuntimeError "mean should be a matrix ..."
  C  mean (T, n), covar (n, n)               : RuntimeError "base_linear_op must be a batch matrix"
  D  mean (b, T, n), covar (b, 1, n, n)      : RuntimeError "mean shape ... is incompatible with covariance shape"

Reference: the same distribution after mvn.expand(mvn.batch_shape) (what from_repeated_mvn does itself), and the
dense formula: mean[..., i, k] = mean_k[i], Cov[(i,k),(j,l)] = delta_kl K_k[i, j].
"""
import sys
import warnings

import torch

from linear_operator import to_linear_operator
from gpytorch.distributions import MultitaskMultivariateNormal, MultivariateNormal

warnings.filterwarnings("ignore")
torch.manual_seed(0)
torch.set_default_dtype(torch.float64)


def rand_cov(*shape):
    A = torch.randn(*shape)
    return A @ A.transpose(-1, -2) + shape[-1] * torch.eye(shape[-1])


def dense_reference(mean, cov, task_dim):
    """mean (..., n), cov (..., n, n) both with the full batch shape; returns (mean (..., n, T), joint (..., nT, nT))"""
    nb = mean.dim() - 1
    td = task_dim % nb
    m = mean.movedim(td, -1)  # ... x n x T
    c = cov.movedim(td, -3)  # ... x T x n x n
    T, n = c.shape[-3], c.shape[-1]
    J = torch.zeros(*c.shape[:-3], n, T, n, T)
    for k in range(T):
        J[..., :, k, :, k] = c[..., k, :, :]
    return m, J.reshape(*c.shape[:-3], n * T, n * T)


n = 3
cases = [
    ("A: mean (T=3, n=3), covar (2, 3, 3, 3), task_dim=-1", (3, n), (2, 3, n, n), -1),
    ("B: mean (n,), covar (T=2, n, n), task_dim=-1", (n,), (2, n, n), -1),
    ("C: mean (T=2, n), covar (n, n), task_dim=0", (2, n), (n, n), 0),
    ("D: mean (2, T=4, n), covar (2, 1, n, n), task_dim=-1", (2, 4, n), (2, 1, n, n), -1),
]

bad = False
for name, mshape, cshape, task_dim in cases:
    mean = torch.randn(*mshape)
    cov = rand_cov(*cshape)
    mvn = MultivariateNormal(mean, to_linear_operator(cov))
    bshape = mvn.batch_shape
    assert bshape == torch.broadcast_shapes(mshape[:-1], cshape[:-2])
    ref_mean, ref_joint = dense_reference(mean.expand(*bshape, n), cov.expand(*bshape, n, n), task_dim)
    # independent replica: expand first (this is what from_repeated_mvn does), then from_batch_mvn
    rep = MultitaskMultivariateNormal.from_batch_mvn(mvn.expand(bshape), task_dim=task_dim)
    assert rep._interleaved
    assert torch.allclose(rep.mean, ref_mean) and torch.allclose(rep.covariance_matrix, ref_joint)
    print(f"{name}: mvn.batch_shape = {tuple(bshape)}")
    try:
        d = MultitaskMultivariateNormal.from_batch_mvn(mvn, task_dim=task_dim)
        ok_shape = d.mean.shape == ref_mean.shape
        merr = (d.mean - ref_mean).abs().max().item() if ok_shape else float("nan")
        cerr = (d.covariance_matrix - ref_joint).abs().max().item()
        val = torch.randn(*ref_mean.shape)
        lp = d.log_prob(val)
        lp_ref = torch.distributions.MultivariateNormal(ref_mean.reshape(*ref_mean.shape[:-2], -1), ref_joint).log_prob(
            val.reshape(*val.shape[:-2], -1)
        )
        lerr = (lp - lp_ref).abs().max().item()
        print(f"    mean shape ok: {ok_shape}, max |mean - ref| = {merr:.3e}, max |cov - ref| = {cerr:.3e}, "
              f"max |log_prob - ref| = {lerr:.3e}")
        bad |= (not ok_shape) or merr > 1e-8 or cerr > 1e-8 or lerr > 1e-6
    except Exception as e:  # noqa
        print(f"    raised {type(e).__name__}: {str(e)[:120]}")
        bad = True

print("VIOLATION PRESENT" if bad else "no violation")
sys.exit(1 if bad else 0)
