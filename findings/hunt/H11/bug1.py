#!/usr/bin/env python3
"""
C11 / bug 1: MultitaskMultivariateNormal.__getitem__ with an INDEX TENSOR IN A BATCH DIMENSION combined with
a (non-trivial) slice or an index tensor in the point/task dimensions.

d[idx] must have mean `mean[idx]` and, per selected batch element, the covariance sub-matrix of the selected
(point, task) pairs.  The branches of __getitem__ that build a flat index tensor do
    self.lazy_covariance_matrix[batch_idx + (indices,)][..., indices]
With a tensor in `batch_idx`, that tensor and `indices` are *paired/broadcast against each other* (advanced
indexing) instead of forming the outer product "these batches x these rows".  Result: a covariance that mixes rows
of different batch elements (silently, when the sizes happen to broadcast) or an exception.

Reference: dense covariance indexed by hand, and the library itself applied in two steps d[bidx][:, rows, cols].
"""
import sys
import warnings

import torch

from linear_operator import to_linear_operator
from gpytorch.distributions import MultitaskMultivariateNormal

warnings.filterwarnings("ignore")
torch.manual_seed(0)
torch.set_default_dtype(torch.float64)

b, n, t = 2, 3, 2
N = n * t
A = torch.randn(b, N, N)
joint = A @ A.transpose(-1, -2) + N * torch.eye(N)  # joint covariance, (point, task) flattened point-major
mean = torch.randn(b, n, t)


def stored_cov(interleaved):
    if interleaved:
        return joint
    # task-major storage
    return joint.reshape(b, n, t, n, t).permute(0, 2, 1, 4, 3).reshape(b, N, N)


def joint_of(dist):
    """dense joint covariance of a (Multitask)MVN in point-major order"""
    cov = dist.covariance_matrix
    if isinstance(dist, MultitaskMultivariateNormal) and not dist._interleaved:
        nn, tt = dist.mean.shape[-2:]
        bb = cov.shape[:-2]
        cov = cov.reshape(*bb, tt, nn, tt, nn).transpose(-1, -2).transpose(-3, -4).reshape(*bb, nn * tt, nn * tt)
    return cov


bidx = torch.tensor([1, 0])
cases = [
    ("d[tensor([1,0]), 0:1, :]", (bidx, slice(0, 1), slice(None))),
    ("d[tensor([1,0]), :, 0:1]", (bidx, slice(None), slice(0, 1))),
    ("d[tensor([1,0]), 1:]", (bidx, slice(1, None))),
    ("d[tensor([1,0]), ::2, :]", (bidx, slice(None, None, 2), slice(None))),
    ("d[tensor([1,0]), 1:2, 0:1]", (bidx, slice(1, 2), slice(0, 1))),
]

bad = False
labels = torch.arange(N).reshape(n, t)
for interleaved in (True, False):
    d = MultitaskMultivariateNormal(mean, to_linear_operator(stored_cov(interleaved)), interleaved=interleaved)
    for name, idx in cases:
        ev_idx = idx[1:] if len(idx) == 3 else idx[1:] + (slice(None),)
        sel = labels[ev_idx].reshape(-1)  # selected (point, task) pairs, point-major
        ref_mean = mean[idx]
        ref_cov = joint[bidx][:, sel][:, :, sel]
        # second reference: the library in two steps
        two_step = d[bidx][(slice(None),) + ev_idx]
        assert torch.allclose(two_step.mean, ref_mean) and torch.allclose(joint_of(two_step), ref_cov)
        try:
            r = d[idx]
            got = joint_of(r)
            mean_ok = r.mean.shape == ref_mean.shape and torch.allclose(r.mean, ref_mean)
            if got.shape != ref_cov.shape:
                print(f"interleaved={interleaved} {name}: covariance shape {tuple(got.shape)} but expected {tuple(ref_cov.shape)}"
                      f" (mean ok: {mean_ok})")
                bad = True
            else:
                err = (got - ref_cov).abs().max().item()
                print(f"interleaved={interleaved} {name}: cov shape {tuple(got.shape)}, max |cov - ref| = {err:.3e} (mean ok: {mean_ok})")
                bad |= err > 1e-8 or not mean_ok
        except Exception as e:  # noqa
            print(f"interleaved={interleaved} {name}: raised {type(e).__name__}: {str(e)[:110]}")
            bad = True

print("VIOLATION PRESENT" if bad else "no violation")
sys.exit(1 if bad else 0)
