#!/usr/bin/env python3
"""
C11 / bug 2: MultitaskMultivariateNormal.__getitem__ with a BOOLEAN index tensor (mask) in the point or task dimension.

mean[idx] is perfectly valid for a mask, and __getitem__ computes new_mean = self.mean[idx] that way, but the
covariance is then built by *arithmetic on the mask* (`row_idx * num_cols + col_idx`, torch.meshgrid(row_idx, col_idx)):
True/False are used as the integers 1/0.  Depending on the branch the result is
  * a (Multitask)MVN whose covariance belongs to other (point, task) pairs than its mean, possibly even with a
    covariance of a different size than the mean (no exception at construction), or
  * a RuntimeError from torch.meshgrid ("expects all tensors to have the same dtype").

Reference: the same selection written with the equivalent integer index tensor mask.nonzero(), and the dense formula.
"""
import sys
import warnings

import torch

from linear_operator import to_linear_operator
from gpytorch.distributions import MultitaskMultivariateNormal

warnings.filterwarnings("ignore")
torch.manual_seed(0)
torch.set_default_dtype(torch.float64)

n, t = 3, 3
N = n * t
A = torch.randn(N, N)
joint = A @ A.T + N * torch.eye(N)  # point-major joint covariance
mean = torch.randn(n, t)
labels = torch.arange(N).reshape(n, t)


def stored_cov(interleaved):
    return joint if interleaved else joint.reshape(n, t, n, t).permute(1, 0, 3, 2).reshape(N, N)


def joint_of(dist):
    cov = dist.covariance_matrix
    if isinstance(dist, MultitaskMultivariateNormal) and not dist._interleaved:
        nn, tt = dist.mean.shape[-2:]
        cov = cov.reshape(tt, nn, tt, nn).transpose(-1, -2).transpose(-3, -4).reshape(nn * tt, nn * tt)
    return cov


m_all = torch.tensor([True, True, True])
m_two = torch.tensor([True, False, True])
cases = [
    ("d[0, mask(T,T,T)]", (0, m_all)),
    ("d[mask(T,T,T), 1]", (m_all, 1)),
    ("d[0, mask(T,F,T)]", (0, m_two)),
    ("d[mask(T,F,T), 1]", (m_two, 1)),
    ("d[mask(T,F,T), :]", (m_two, slice(None))),
    ("d[:, mask(T,F,T)]", (slice(None), m_two)),
    ("d[mask(T,F,T)]", (m_two,)),
]

bad = False
for interleaved in (True, False):
    d = MultitaskMultivariateNormal(mean, to_linear_operator(stored_cov(interleaved)), interleaved=interleaved)
    for name, idx in cases:
        full_idx = idx if len(idx) == 2 else idx + (slice(None),)
        ref_mean = mean[idx]
        sel = labels[full_idx].reshape(-1)
        ref_cov = joint[sel][:, sel]
        # the same request with integer index tensors works and agrees with the dense formula
        int_idx = tuple(i.nonzero().squeeze(-1) if torch.is_tensor(i) else i for i in idx)
        r_int = d[int_idx]
        assert torch.allclose(r_int.mean, ref_mean) and torch.allclose(joint_of(r_int), ref_cov)
        try:
            r = d[idx]
            mean_ok = r.mean.shape == ref_mean.shape and torch.allclose(r.mean, ref_mean)
            got = joint_of(r)
            if got.shape != ref_cov.shape:
                print(f"interleaved={interleaved} {name}: mean has {r.mean.numel()} entries (ok: {mean_ok}) but the covariance is "
                      f"{tuple(got.shape)}; expected {tuple(ref_cov.shape)}")
                bad = True
            else:
                err = (got - ref_cov).abs().max().item()
                print(f"interleaved={interleaved} {name}: mean ok: {mean_ok}, max |cov - ref| = {err:.3e}")
                bad |= err > 1e-8 or not mean_ok
        except Exception as e:  # noqa
            print(f"interleaved={interleaved} {name}: raised {type(e).__name__}: {str(e)[:100]}")
            bad = True

print("VIOLATION PRESENT" if bad else "no violation")
sys.exit(1 if bad else 0)
