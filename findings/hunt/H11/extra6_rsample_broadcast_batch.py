#!/usr/bin/env python3
"""
C11 / extra finding 6: the MultitaskMultivariateNormal constructor explicitly broadcasts the batch shapes of mean and
covariance (it expands the mean, not the covariance).  With a batched mean (b x n x t) and an un-batched lazy covariance
(nt x nt) the distribution reports batch_shape (b,), mean/variance/log_prob are right, but
rsample(sample_shape) raises for every non-empty sample_shape (MultivariateNormal.rsample adds `loc.unsqueeze(0)` of shape
1 x b x nt to `zero_mean_mvn_samples(num)` of shape num x nt).  With a dense covariance the same call works.
"""
import sys
import warnings

import torch

from linear_operator import to_linear_operator
from gpytorch.distributions import MultitaskMultivariateNormal

warnings.filterwarnings("ignore")
torch.manual_seed(0)
torch.set_default_dtype(torch.float64)
b, n, t = 2, 3, 2
A = torch.randn(n * t, n * t)
cov = A @ A.T + torch.eye(n * t)
mean = torch.randn(b, n, t)
bad = False
for lazy in (False, True):
    d = MultitaskMultivariateNormal(mean, to_linear_operator(cov) if lazy else cov)
    for ss in [torch.Size([5]), torch.Size([2]), torch.Size([4, 3])]:
        try:
            s = d.rsample(ss)
            ok = s.shape == ss + mean.shape
            print(f"lazy={lazy} batch_shape={tuple(d.batch_shape)} rsample({tuple(ss)}) -> {tuple(s.shape)} ok={ok}")
            bad |= not ok
        except Exception as e:  # noqa
            print(f"lazy={lazy} batch_shape={tuple(d.batch_shape)} rsample({tuple(ss)}) raised {type(e).__name__}: {str(e)[:90]}")
            bad = True
print("VIOLATION PRESENT" if bad else "no violation")
sys.exit(1 if bad else 0)
