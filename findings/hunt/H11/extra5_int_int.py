#!/usr/bin/env python3
"""
C11 / extra finding 5: d[i, j] (two ints, no batch dimension left) returns a MultivariateNormal with a 0-dimensional
DiagLinearOperator as covariance; its variance / stddev / log_prob / confidence_region raise IndexError.
(The int/int branch of __getitem__ turns the remaining *batch* dimension into the event dimension; with no batch
dimension left nothing remains.  The plain MultivariateNormal has the same problem for mvn[i].)
Expected: a distribution with mean mean[i, j] and variance Cov[(i,j),(i,j)].
"""
import sys
import warnings

import torch

from linear_operator import to_linear_operator
from gpytorch.distributions import MultitaskMultivariateNormal

warnings.filterwarnings("ignore")
torch.manual_seed(0)
torch.set_default_dtype(torch.float64)
n, t = 3, 2
A = torch.randn(n * t, n * t)
cov = A @ A.T + torch.eye(n * t)
mean = torch.randn(n, t)
bad = False
for idx, flat in [((1, 0), 2), ((-1, -1), 5), ((..., 2, 0), 4)]:
    d = MultitaskMultivariateNormal(mean, to_linear_operator(cov))
    r = d[idx]
    print(f"d[{idx}]: mean {r.mean.item():.4f} (ref {mean[idx].item():.4f}), expected variance {cov[flat, flat].item():.4f}")
    for name, f in [("variance", lambda: r.variance), ("stddev", lambda: r.stddev), ("log_prob", lambda: r.log_prob(mean[idx]))]:
        try:
            print("   ", name, "=", f())
        except Exception as e:  # noqa
            print("   ", name, "raised", type(e).__name__, str(e)[:80])
            bad = True
print("VIOLATION PRESENT" if bad else "no violation")
sys.exit(1 if bad else 0)
