# Concerns commit 338f702 (deep copy of an InducingPointKernel copies its likelihood through the memo); the behaviour is
# kept by the later rewrites of __deepcopy__ (a2110e8, be65cdd).
# Before the commit a copy of the KERNEL ALONE (copy.deepcopy(kernel), Kernel.__getitem__ of a batch kernel, ...) kept a
# reference to the likelihood it was built with. Now the likelihood is always deep-copied, so
#  (1) a kernel-only copy raises when the likelihood holds a tensor that cannot be deep-copied (e.g. a fixed noise that is
#      a non-leaf tensor) - the old code copied the kernel fine;
#  (2) a kernel-only copy used together with the original likelihood (new model re-using a copy of a trained kernel)
#      computes the SGPR trace term with an orphan copy of the noise: the gradient of the added loss term no longer reaches
#      the likelihood's noise parameter, it goes to a second, separate `covar_module.likelihood...raw_noise` parameter.
import copy
import sys
import warnings

import torch

warnings.filterwarnings("ignore")
import gpytorch

torch.manual_seed(0)
x = torch.linspace(0, 1, 12).unsqueeze(-1)
y = torch.sin(6 * x.squeeze(-1))


def make_kernel(lik):
    return gpytorch.kernels.InducingPointKernel(
        gpytorch.kernels.ScaleKernel(gpytorch.kernels.RBFKernel()),
        inducing_points=torch.linspace(0, 1, 5).unsqueeze(-1),
        likelihood=lik,
    )


class SGPR(gpytorch.models.ExactGP):
    def __init__(self, x, y, lik, covar_module):
        super().__init__(x, y, lik)
        self.mean_module = gpytorch.means.ConstantMean()
        self.covar_module = covar_module

    def forward(self, x):
        return gpytorch.distributions.MultivariateNormal(self.mean_module(x), self.covar_module(x))


bad = False

# (1) likelihood with a non-leaf fixed noise
raw = torch.zeros(12, requires_grad=True)
lik1 = gpytorch.likelihoods.FixedNoiseGaussianLikelihood(torch.nn.functional.softplus(raw) * 0.1)
k1 = make_kernel(lik1)
try:
    copy.deepcopy(k1)
    print("(1) deepcopy(kernel) with a non-leaf fixed noise in its likelihood: ok")
except Exception as e:  # noqa
    print(f"(1) deepcopy(kernel) with a non-leaf fixed noise in its likelihood: RAISED {type(e).__name__}: {str(e)[:80]}")
    bad = True

# (2) copy of a kernel re-used in a new model with the same likelihood
lik2 = gpytorch.likelihoods.GaussianLikelihood()
k2 = copy.deepcopy(make_kernel(lik2))
print("(2) kernel-only copy still refers to the likelihood it was built with:", k2.likelihood is lik2)
model = SGPR(x, y, lik2, k2).train()
out = model(x)
out.lazy_covariance_matrix.evaluate_kernel()  # computes the added loss term
trace_term = sum(term.loss() for term in model.added_loss_terms())
trace_term.sum().backward()
g = lik2.noise_covar.raw_noise.grad
n_noise_params = sum(1 for name, _ in model.named_parameters() if name.endswith("raw_noise"))
print("(2) gradient of the SGPR trace term w.r.t. the model likelihood's raw_noise:", g)
print("(2) number of distinct raw_noise parameters in the model:", n_noise_params)
if g is None or float(g.abs().sum()) == 0.0 or n_noise_params != 1:
    bad = True

print("PROBLEM PRESENT" if bad else "ok")
sys.exit(1 if bad else 0)
