# Concerns commit 5320a0a (boolean masks index a MultitaskMultivariateNormal like the equivalent integer indices).
# Incomplete repair: only masks in the point / task positions are converted to integer positions. A boolean mask in a
# BATCH position still fails: the mean is indexed fine, but the (un-normalised) mask is handed to the covariance
# LinearOperator, whose __getitem__ raises "Expected a final shape ...". The equivalent integer index works.
# (Code before the commit failed the same way: this is a sibling path the fix did not cover.)
import sys
import warnings

import torch

warnings.filterwarnings("ignore")
from gpytorch.distributions import MultitaskMultivariateNormal

torch.manual_seed(0)
b, n, t = 3, 4, 2
mean = torch.randn(b, n, t)
A = torch.randn(b, n * t, n * t)
cov = A @ A.transpose(-1, -2) + torch.eye(n * t)
bmask = torch.tensor([True, False, True])
bint = torch.tensor([0, 2])
rmask = torch.tensor([True, False, True, True])
rint = torch.tensor([0, 2, 3])

bad = 0
for interleaved in (True, False):
    d = MultitaskMultivariateNormal(mean, cov, interleaved=interleaved)
    cases = {
        "d[bmask]": ((bmask,), (bint,)),
        "d[bmask, :, :]": ((bmask, slice(None), slice(None)), (bint, slice(None), slice(None))),
        "d[bmask, :, 1:]": ((bmask, slice(None), slice(1, None)), (bint, slice(None), slice(1, None))),
        "d[:, rmask, :] (point mask, covered by the fix)": ((slice(None), rmask, slice(None)), (slice(None), rint, slice(None))),
        "d[bmask, 1, :]": ((bmask, 1, slice(None)), (bint, 1, slice(None))),
    }
    for name, (midx, iidx) in cases.items():
        ref = d[iidx]
        try:
            got = d[midx]
            ok = (
                type(got) is type(ref)
                and got.mean.shape == ref.mean.shape
                and torch.allclose(got.mean, ref.mean)
                and torch.allclose(got.covariance_matrix, ref.covariance_matrix)
            )
            msg = "matches integer index" if ok else "DIFFERS from integer index"
        except Exception as e:  # noqa
            ok = False
            msg = f"RAISED {type(e).__name__}: {str(e)[:90]}"
        print(f"interleaved={interleaved} {name}: integer index -> {type(ref).__name__}{tuple(ref.mean.shape)}; mask -> {msg}")
        bad += not ok

print("PROBLEM PRESENT" if bad else "ok")
sys.exit(1 if bad else 0)
