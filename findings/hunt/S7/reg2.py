# Concerns commit 6857ba8 (KISS-GP fantasy update evaluates the fantasy noise with the given noise).
# The repaired line asks `fant_likelihood.noise_covar(...)` for the noise of the fantasy points. For a
# FixedNoiseGaussianLikelihood(learn_additional_noise=True) the observation noise is noise_covar + second_noise_covar
# (see _shaped_noise_covar); the KISS-GP fantasy update (and the interp_inner_prod / interp_response caches it builds on)
# only use noise_covar. Before the commit get_fantasy_model raised an IndexError for every fixed-noise likelihood; now it
# returns a model whose predictive mean is silently wrong (computed as if the learned additional noise were 0).
# Reference: the same KISS-GP model built from scratch on the n + m points, and an exact GP fantasy (which is right).
import sys
import warnings

import torch

warnings.filterwarnings("ignore")
import gpytorch

torch.manual_seed(0)
FN = gpytorch.likelihoods.FixedNoiseGaussianLikelihood


class KissGP(gpytorch.models.ExactGP):
    def __init__(self, x, y, lik):
        super().__init__(x, y, lik)
        self.mean_module = gpytorch.means.ConstantMean()
        self.covar_module = gpytorch.kernels.GridInterpolationKernel(
            gpytorch.kernels.ScaleKernel(gpytorch.kernels.RBFKernel()), grid_size=20, num_dims=1, grid_bounds=[(-0.2, 1.2)]
        )

    def forward(self, x):
        return gpytorch.distributions.MultivariateNormal(self.mean_module(x), self.covar_module(x))


x = torch.linspace(0, 1, 12).unsqueeze(-1)
y = torch.sin(6 * x.squeeze(-1))
xn = torch.tensor([[0.33], [0.71], [0.05]])
yn = torch.sin(6 * xn.squeeze(-1)) + 0.3
xt = torch.linspace(0.02, 0.98, 7).unsqueeze(-1)
noise = torch.full((12,), 0.05)
new_noise = torch.tensor([0.3, 0.01, 0.1])


def fantasy_vs_scratch(learn):
    model = KissGP(x, y, FN(noise, learn_additional_noise=learn)).eval()
    with torch.no_grad():
        model(xt)
        fant = model.get_fantasy_model(xn, yn, noise=new_noise)
        fant_mean = fant(xt).mean
        scratch = KissGP(torch.cat([x, xn]), torch.cat([y, yn]), FN(torch.cat([noise, new_noise]), learn_additional_noise=learn))
        scratch.load_state_dict(model.state_dict(), strict=False)
        scratch_mean = scratch.eval()(xt).mean
    return (fant_mean - scratch_mean).abs().max().item()


bad = False
for learn in (False, True):
    try:
        diff = fantasy_vs_scratch(learn)
        print(f"learn_additional_noise={learn}: max |fantasy mean - from-scratch mean| = {diff:.3e}")
        bad |= diff > 1e-2
    except Exception as e:  # noqa
        print(f"learn_additional_noise={learn}: raised {type(e).__name__}: {e}")
        bad = True
print("PROBLEM PRESENT" if bad else "ok")
sys.exit(1 if bad else 0)
