"""
C19 / bug 2: the kernels with hand-written derivative blocks (RBFKernelGrad, RBFKernelGradGrad, Matern52KernelGrad,
PolynomialKernelGrad) size their output from the batch shape of x1 alone.  With batched hyperparameters
(batch_shape=[2]) and inputs that do not carry that batch dimension - a configuration every base kernel
(RBFKernel, MaternKernel, PolynomialKernel) broadcasts - they raise a RuntimeError instead of returning the
(2 x n(d+1) x n(d+1)) matrix of values and derivatives.

Reference: the same kernel evaluated once per batch member with an un-batched copy of the hyperparameters
(equivalently: the kernel evaluated on explicitly expanded inputs, which works).
"""
import sys
import warnings

import torch

import gpytorch
from gpytorch.kernels import (
    MaternKernel,
    Matern52KernelGrad,
    PolynomialKernel,
    PolynomialKernelGrad,
    RBFKernel,
    RBFKernelGrad,
    RBFKernelGradGrad,
)

warnings.filterwarnings("ignore")
torch.manual_seed(0)
torch.set_default_dtype(torch.float64)

n, d = 4, 2
x = torch.randn(n, d)  # shared, un-batched inputs
bshape = torch.Size([2])


def build(cls, batch_shape):
    kw = dict(batch_shape=batch_shape)
    if cls in (PolynomialKernel, PolynomialKernelGrad):
        kw["power"] = 2
    if cls is MaternKernel:
        kw["nu"] = 2.5
    return cls(**kw).double()


def set_hypers(k, i=None):
    if k.has_lengthscale:
        ls = torch.tensor([0.7, 1.3]).view(2, 1, 1)
        k.lengthscale = ls if i is None else ls[i]
    else:
        off = torch.tensor([0.5, 1.5]).view(2, 1)
        k.offset = off if i is None else off[i]


failures = 0
print("base kernels (batched hyperparameters, un-batched inputs):")
for cls in (RBFKernel, MaternKernel, PolynomialKernel):
    k = build(cls, bshape)
    set_hypers(k)
    out = k(x).to_dense()
    print(f"    {cls.__name__:22s} -> shape {tuple(out.shape)}")

print("kernels with hand-written derivative blocks, same configuration:")
for cls in (RBFKernelGrad, RBFKernelGradGrad, Matern52KernelGrad, PolynomialKernelGrad):
    # reference: one un-batched kernel per batch member
    refs = []
    for i in range(2):
        k0 = build(cls, torch.Size([]))
        set_hypers(k0, i)
        refs.append(k0(x).to_dense().detach())
    ref = torch.stack(refs)
    k = build(cls, bshape)
    set_hypers(k)
    # sanity: explicitly expanded inputs work and agree with the reference
    exp_err = (k(x.expand(2, n, d)).to_dense().detach() - ref).abs().max().item()
    try:
        out = k(x).to_dense().detach()
        err = (out - ref).abs().max().item() if out.shape == ref.shape else float("inf")
        status = f"shape {tuple(out.shape)}, max |diff to reference| {err:.2e}"
        bad = err > 1e-10
    except Exception as e:  # noqa
        status = f"raises {type(e).__name__}: {str(e)[:90]}"
        bad = True
    failures += int(bad)
    print(f"    {cls.__name__:22s} expected shape {tuple(ref.shape)} (expanded inputs: diff {exp_err:.1e});  got: {status}")

if failures:
    print(f"VIOLATION: {failures} derivative kernel(s) fail on batched hyperparameters with un-batched inputs")
    sys.exit(1)
print("no violation")
sys.exit(0)
