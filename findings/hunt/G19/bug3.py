"""
C19 (wrapper functions forwarding to linear_operator) / bug 3: gpytorch.pivoted_cholesky documents and accepts the
stopping criterion `error_tol`, but does not forward it to linear_operator.pivoted_cholesky.  The argument is silently
ignored: the factor is always computed with the default tolerance.

Reference: linear_operator.pivoted_cholesky called with the same arguments, and the documented meaning of
`error_tol` ("If the residual of the factorization is less than error_tol, the factorization will exit early").

(For completeness the script also shows the deprecated wrapper gpytorch.inv_matmul, which drops `mat` and passes a
keyword that linear_operator.solve does not have, so that every call raises TypeError.  It is reported but does not
decide the exit code because the wrapper is deprecated.)
"""
import sys
import warnings

import linear_operator
import torch

import gpytorch

warnings.filterwarnings("ignore")
torch.manual_seed(0)
torch.set_default_dtype(torch.float64)

x = torch.linspace(0, 1, 30).unsqueeze(-1)
A = gpytorch.kernels.RBFKernel().double()(x).to_dense().detach() + 1e-6 * torch.eye(30)


def trace_residual(L):
    return (A - L @ L.transpose(-1, -2)).diagonal().sum().item()


bad = False
print("pivoted_cholesky(A, rank=20, error_tol=tol): number of columns / trace of the residual")
for tol in (1e-1, 1e-2, 1e-8):
    L_g = gpytorch.pivoted_cholesky(A, rank=20, error_tol=tol)
    L_l = linear_operator.pivoted_cholesky(A, rank=20, error_tol=tol)
    print(
        f"    error_tol={tol:7.0e}:  gpytorch {L_g.shape[-1]:2d} columns, residual {trace_residual(L_g):.3e}   |   "
        f"linear_operator {L_l.shape[-1]:2d} columns, residual {trace_residual(L_l):.3e}"
    )
    if L_g.shape != L_l.shape or (L_g - L_l).abs().max().item() > 1e-10:
        bad = True
shapes = {tuple(gpytorch.pivoted_cholesky(A, rank=20, error_tol=t).shape) for t in (1e-1, 1e-2, 1e-8)}
print(f"    distinct gpytorch results over the three tolerances: {len(shapes)} (the argument has no effect)" if len(shapes) == 1 else "")

print("deprecated wrapper gpytorch.inv_matmul(A, rhs):")
rhs = torch.randn(30, 2)
try:
    sol = gpytorch.inv_matmul(A, rhs)
    print(f"    max |A^-1 rhs - result| = {(torch.linalg.solve(A, rhs) - sol).abs().max().item():.2e}")
except Exception as e:  # noqa
    print(f"    raises {type(e).__name__}: {e}")

if bad:
    print("VIOLATION: gpytorch.pivoted_cholesky ignores error_tol")
    sys.exit(1)
print("no violation")
sys.exit(0)
