"""
C19 / bug 1: a prediction made under torch.no_grad() (the usual evaluation idiom) leaves graph-free caches behind;
a later prediction under gpytorch.settings.detach_test_caches(False) - the documented way to obtain gradients through
the training data / hyperparameters in eval mode - silently re-uses them and returns a hyperparameter gradient that is
NOT the derivative of the prediction that was computed.

Reference: central finite differences of the very same prediction (caches rebuilt for every evaluation), and the
gradient delivered by an identical model whose first eval-mode call already happened with gradients enabled.
"""
import sys
import warnings

import torch

import gpytorch

warnings.filterwarnings("ignore")
torch.manual_seed(0)
torch.set_default_dtype(torch.float64)


class GP(gpytorch.models.ExactGP):
    def __init__(self, x, y, lik):
        super().__init__(x, y, lik)
        self.mean_module = gpytorch.means.ConstantMean()
        self.covar_module = gpytorch.kernels.ScaleKernel(gpytorch.kernels.RBFKernel())

    def forward(self, x):
        return gpytorch.distributions.MultivariateNormal(self.mean_module(x), self.covar_module(x))


xtr = torch.rand(15, 2)
ytr = torch.sin(3 * xtr.sum(-1))
xte = torch.rand(4, 2)
w_mean, w_var = torch.randn(4), torch.randn(4)


def make():
    lik = gpytorch.likelihoods.GaussianLikelihood()
    lik.noise = 0.05
    model = GP(xtr, ytr, lik).double()
    model.covar_module.base_kernel.lengthscale = 0.4
    model.eval()
    return model


def objective(model):
    with gpytorch.settings.detach_test_caches(False):
        out = model(xte)
        return (out.mean * w_mean).sum() + (out.variance * w_var).sum()


def finite_difference(model, p, eps=1e-6):
    num = torch.zeros_like(p)
    for i in range(p.numel()):
        old = p.data.view(-1)[i].item()
        vals = []
        for s in (1.0, -1.0):
            p.data.view(-1)[i] = old + s * eps
            model.train()  # drops the prediction strategy, so the caches are rebuilt from the perturbed parameter
            model.eval()
            with torch.no_grad():
                vals.append(objective(model).item())
        p.data.view(-1)[i] = old
        num.view(-1)[i] = (vals[0] - vals[1]) / (2 * eps)
    model.train()
    model.eval()
    return num


results = {}
for history in ("fresh", "no_grad call first", "default (detaching) call first"):
    model = make()
    params = dict(model.named_parameters())
    if history == "no_grad call first":
        with torch.no_grad():
            model(xte)  # plain evaluation, e.g. computing a test metric
    elif history == "default (detaching) call first":
        model(xte)  # detach_test_caches is on by default
    val = objective(model)
    grads = torch.autograd.grad(val, list(params.values()), allow_unused=True)
    worst = 0.0
    print(f"history: {history};  objective = {val.item():.12f}")
    for (name, p), g in zip(params.items(), grads):
        g = torch.zeros_like(p) if g is None else g
        fd = finite_difference(model, p)
        err = (g - fd).abs().max().item()
        worst = max(worst, err)
        print(f"    {name:50s} autograd {g.view(-1)[0].item(): .6e}   finite diff {fd.view(-1)[0].item(): .6e}   |diff| {err:.2e}")
    results[history] = worst

print()
for k, v in results.items():
    print(f"max |autograd - finite difference| with history '{k}': {v:.3e}")

ok_fresh = results["fresh"] < 1e-6
bad = max(results["no_grad call first"], results["default (detaching) call first"]) > 1e-3
if ok_fresh and bad:
    print("VIOLATION: same model, same inputs, same setting - the delivered gradient depends on the call history "
          "and is not the derivative of the computed prediction.")
    sys.exit(1)
print("no violation")
sys.exit(0)
