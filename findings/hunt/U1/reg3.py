# Concerns commit 794b710 ("LikelihoodList iterates a noise tensor row-wise again ...").
# REGRESSION / RE-OPENED DEFECT (named in 95b2914): one noise tensor for all members, given to
# LikelihoodList.expected_log_prob (and log_marginal / marginal / forward / __call__ / pyro_sample_output), is again
# iterated element-wise. For expected_log_prob and pyro_sample_output the original library never split `noise` at all:
# every member received the whole tensor, which is the only form these two methods ever took.
# Now: n == number of members -> every member gets a 0-dim scalar -> IndexError;
#      n != number of members -> ValueError from length_safe_zip.
# The code before the commit returned, for every member, what the member returns when called directly.
import sys
import warnings

import torch

from gpytorch.distributions import MultivariateNormal
from gpytorch.likelihoods import FixedNoiseGaussianLikelihood, LikelihoodList

warnings.simplefilter("ignore")
torch.manual_seed(0)

ll = LikelihoodList(
    FixedNoiseGaussianLikelihood(torch.full((5,), 0.1)), FixedNoiseGaussianLikelihood(torch.full((5,), 0.2))
)
bad = False
for n in (2, 3):
    d = MultivariateNormal(torch.zeros(n), torch.eye(n))
    y = torch.linspace(-0.3, 0.3, n)
    noise = torch.linspace(0.5, 2.0, n)  # the known noise of the n test points, the same for both members
    ref = [lik.expected_log_prob(y, d, noise=noise) for lik in ll.likelihoods]
    print(f"n={n}: members called directly: {[r.tolist() for r in ref]}")
    try:
        got = ll.expected_log_prob((y, d), (y, d), noise=noise)
        print(f"n={n}: through the list:        {[g.tolist() for g in got]}")
        if not all(g.shape == r.shape and torch.allclose(g, r) for g, r in zip(got, ref)):
            bad = True
    except Exception as e:  # noqa
        print(f"n={n}: through the list raised {type(e).__name__}: {str(e)[:90]}")
        bad = True
if bad:
    print("PROBLEM: a single noise tensor for all members is no longer accepted by LikelihoodList.expected_log_prob")
    sys.exit(1)
print("ok")
sys.exit(0)
