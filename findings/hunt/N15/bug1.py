"""C15: VariationalELBO with CiqVariationalStrategy + NaturalVariationalDistribution omits the KL term:
N * ELBO exceeds the collapsed (Titsias) bound and even the exact log marginal likelihood."""
import sys, math, warnings
import torch, gpytorch
from gpytorch.variational import CiqVariationalStrategy, NaturalVariationalDistribution
warnings.filterwarnings("ignore")
torch.set_default_dtype(torch.float64)
torch.manual_seed(0)

N, d = 12, 2
X = torch.randn(N, d)
y = torch.sin(X.sum(-1)) + 0.1 * torch.randn(N)
Z = X[:8].clone() + 0.05 * torch.randn(8, d)
M = Z.size(0)


class GP(gpytorch.models.ApproximateGP):
    def __init__(self):
        vd = NaturalVariationalDistribution(M)
        vs = CiqVariationalStrategy(self, Z.clone(), vd, learn_inducing_locations=False)
        super().__init__(vs)
        self.mean_module = gpytorch.means.ConstantMean()
        self.covar_module = gpytorch.kernels.ScaleKernel(gpytorch.kernels.RBFKernel())

    def forward(self, x):
        return gpytorch.distributions.MultivariateNormal(self.mean_module(x), self.covar_module(x))


m = GP()
lik = gpytorch.likelihoods.GaussianLikelihood()
lik.noise = 0.05
m.mean_module.constant.data.fill_(0.3)
m.covar_module.base_kernel.lengthscale = 1.3
m.covar_module.outputscale = 1.7
mll = gpytorch.mlls.VariationalELBO(lik, m, num_data=N)

# one natural-gradient step of size one -> q(u) is the exact (optimal) posterior
opt = gpytorch.optim.NGD(m.variational_parameters(), num_data=N, lr=1.0)
opt.zero_grad()
(-mll(m(X), y)).backward()
opt.step()

with torch.no_grad():
    out = m(X)
    reported = N * mll(out, y).item()
    kl_reported = m.variational_strategy.kl_divergence().item()

    # dense references
    s2 = lik.noise.item()
    K = lambda a, b: m.covar_module(a, b).to_dense()
    mu = m.mean_module(X)
    Kff, Kuu, Kuf = K(X, X), K(Z, Z) + 1e-6 * torch.eye(M), K(Z, X)  # same jitter as the strategy (float64: 1e-6)
    exact = torch.distributions.MultivariateNormal(mu, Kff + s2 * torch.eye(N)).log_prob(y).item()
    Q = Kuf.T @ torch.linalg.solve(Kuu, Kuf)
    titsias = (
        torch.distributions.MultivariateNormal(mu, Q + s2 * torch.eye(N)).log_prob(y) - 0.5 / s2 * (Kff - Q).diagonal().sum()
    ).item()

    # the ELBO by its definition for the q(u) that is stored in the model (whitened: p(u) = N(0, I))
    vd = m.variational_strategy._variational_distribution
    S = torch.linalg.inv(-2.0 * vd.natural_mat)
    mw = S @ vd.natural_vec
    q_u = torch.distributions.MultivariateNormal(mw, S)
    p_u = torch.distributions.MultivariateNormal(torch.zeros(M), torch.eye(M))
    kl_true = torch.distributions.kl_divergence(q_u, p_u).item()
    ell = lik.expected_log_prob(y, out).sum().item()
    definition = ell - kl_true

print(f"exact log marginal likelihood        : {exact:.5f}")
print(f"collapsed (Titsias) bound            : {titsias:.5f}")
print(f"N * VariationalELBO (library)        : {reported:.5f}")
print(f"ELBO by definition (E log p - KL)    : {definition:.5f}")
print(f"KL(q(u)||p(u)) library / dense       : {kl_reported:.5f} / {kl_true:.5f}")
print(f"library ELBO - exact MLL             : {reported - exact:.5f}  (must be <= 0)")
print(f"library ELBO - definition            : {reported - definition:.5f}  (must be 0)")

bad = (reported > exact + 1e-3) or abs(reported - definition) > 1e-3
print("VIOLATION" if bad else "ok")
sys.exit(1 if bad else 0)
