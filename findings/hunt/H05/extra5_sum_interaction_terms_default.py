#!/usr/bin/env python3
"""
Additional confirmed finding (C05, gpytorch/utils/sum_interaction_terms.py): the documented default
`max_degree=None` ("If not provided, this will default to `D`") is never resolved: line 44 calls
`torch.arange(max_degree, ...)` with None and raises a TypeError.  With an explicit max_degree (also > D) the
function agrees with the brute-force sum over all interaction terms.
Exit code 1 if the problem is present, 0 otherwise.
"""
import itertools
import sys
import warnings

import torch

warnings.filterwarnings("ignore")
from gpytorch.utils.sum_interaction_terms import sum_interaction_terms  # noqa: E402

torch.manual_seed(0)
torch.set_default_dtype(torch.float64)


def brute(covars, max_degree):
    D = covars.shape[-3]
    out = 0
    for m in range(1, max_degree + 1):
        for comb in itertools.combinations(range(D), m):
            term = 1
            for i in comb:
                term = term * covars[..., i, :, :]
            out = out + term
    return out


D = 4
covars = torch.rand(2, D, 3, 5)
for M in (1, 2, D):
    err = (sum_interaction_terms(covars, max_degree=M) - brute(covars, M)).abs().max().item()
    print(f"max_degree={M}: max |library - brute force| = {err:.2e}")

violation = False
try:
    res = sum_interaction_terms(covars)  # documented: defaults to D
    err = (res - brute(covars, D)).abs().max().item()
    print(f"max_degree=None (default): max |library - brute force| = {err:.2e}")
    violation = err > 1e-10
except Exception as e:  # noqa: BLE001
    print(f"max_degree=None (default): EXCEPTION {type(e).__name__}: {str(e)[:120]}")
    violation = True

if violation:
    print("PROBLEM PRESENT: sum_interaction_terms does not support its documented default max_degree=None")
    sys.exit(1)
print("no problem")
sys.exit(0)
