#!/usr/bin/env python3
"""
Additional, smaller confirmed findings (C05).  Each is printed with PRESENT / absent; exit code 1 if any is present.

 (a) PeriodicKernel(ard_num_dims=None): passing the documented default explicitly raises a TypeError
     (periodic_kernel.py line 96: `kwargs.get("ard_num_dims", 1)` returns None).
 (b) IndexKernel(batch_shape=[B]) called with diag=True on un-batched indices returns the full B x n x n matrices
     instead of the B x n diagonals (kernel.py line 532: the "did the kernel eat diag" test compares res.dim() with
     x1.dim(), which differ when the batch shape comes from the kernel).
 (c) GaussianSymmetrizedKLKernel / DistributionalInputKernel: documented as k = exp(-a * d(p, p')) "where a is the
     lengthscale", implemented as exp(-d / lengthscale) (distributional_input_kernel.py line 40).  Documentation
     mismatch in how the lengthscale enters (borderline).
"""
import sys
import warnings

import torch

warnings.filterwarnings("ignore")
import gpytorch  # noqa: E402
from gpytorch.kernels import GaussianSymmetrizedKLKernel, IndexKernel, PeriodicKernel  # noqa: E402
from torch.distributions import kl_divergence, Normal  # noqa: E402

torch.manual_seed(0)
torch.set_default_dtype(torch.float64)
present = False

# (a)
try:
    PeriodicKernel(ard_num_dims=None)
    print("(a) PeriodicKernel(ard_num_dims=None): constructed - absent")
except Exception as e:  # noqa: BLE001
    print(f"(a) PeriodicKernel(ard_num_dims=None): PRESENT - {type(e).__name__}: {str(e)[:90]}")
    present = True

# (b)
B, T, n = 2, 4, 3
kern = IndexKernel(num_tasks=T, rank=2, batch_shape=torch.Size([B]))
idx = torch.randint(0, T, (n, 1))
with torch.no_grad():
    full = kern(idx, idx).to_dense()
    dg = kern(idx, idx, diag=True)
    dg = dg.to_dense() if hasattr(dg, "to_dense") else dg
expected = full.diagonal(dim1=-1, dim2=-2)
if dg.shape != expected.shape:
    print(f"(b) IndexKernel batch diag: PRESENT - diag=True returned shape {tuple(dg.shape)}, expected {tuple(expected.shape)}")
    present = True
else:
    print(f"(b) IndexKernel batch diag: absent (err {(dg - expected).abs().max().item():.1e})")

# (c)
d, n1, n2, ls = 2, 3, 4, 1.7
a = torch.cat([torch.randn(n1, d), 0.3 * torch.randn(n1, d)], -1)
b = torch.cat([torch.randn(n2, d), 0.3 * torch.randn(n2, d)], -1)
D = torch.zeros(n1, n2)
for i in range(n1):
    for j in range(n2):
        p = Normal(a[i, :d], a[i, d:].exp().sqrt())
        q = Normal(b[j, :d], b[j, d:].exp().sqrt())
        D[i, j] = (kl_divergence(p, q) + kl_divergence(q, p)).sum()
kern = GaussianSymmetrizedKLKernel()
kern.lengthscale = ls
with torch.no_grad():
    K = kern(a, b).to_dense()
err_doc = (K - torch.exp(-ls * D)).abs().max().item()
err_impl = (K - torch.exp(-D / ls)).abs().max().item()
print(f"(c) GaussianSymmetrizedKLKernel: |K - exp(-a d)| (documented) = {err_doc:.2e}, |K - exp(-d / a)| = {err_impl:.2e}")
if err_doc > 1e-6:
    print("    PRESENT - the lengthscale divides the distance instead of multiplying it as documented")
    present = True

sys.exit(1 if present else 0)
