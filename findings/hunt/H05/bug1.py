#!/usr/bin/env python3
"""
C05 violation 1: PiecewisePolynomialKernel(q=2) (q=2 is the DEFAULT) does not evaluate to its documented
covariance function

    K_ppD,2(x1, x2) = (1 - r)_+^(j+2) * (1 + (j+2) r + (j^2 + 4j + 3)/3 r^2),   j = floor(D/2) + q + 1,

because gpytorch/kernels/piecewise_polynomial_kernel.py::_get_cov uses (j + 4*j + 3)/3 instead of
(j**2 + 4*j + 3)/3 for the quadratic coefficient.

Reference: the documented formula (class docstring, = Rasmussen & Williams eq. 4.21), written out per pair of rows.
Exit code 1 if the violation is present, 0 otherwise.
"""
import math
import sys
import warnings

import torch

warnings.filterwarnings("ignore")
import gpytorch  # noqa: E402
from gpytorch.kernels import PiecewisePolynomialKernel  # noqa: E402

torch.manual_seed(0)
torch.set_default_dtype(torch.float64)


def documented_pp(x1, x2, lengthscale, q):
    """documented formula, evaluated pair by pair (lengthscale: tensor of d per-dimension lengthscales)"""
    D = x1.shape[-1]
    j = math.floor(D / 2.0) + q + 1
    out = torch.zeros(x1.shape[0], x2.shape[0])
    for a in range(x1.shape[0]):
        for b in range(x2.shape[0]):
            r = (((x1[a] - x2[b]) / lengthscale) ** 2).sum().sqrt()
            base = max(0.0, 1.0 - r.item()) ** (j + q)
            r = r.item()
            if q == 0:
                poly = 1.0
            elif q == 1:
                poly = (j + 1) * r + 1
            elif q == 2:
                poly = 1 + (j + 2) * r + (j**2 + 4 * j + 3) / 3.0 * r**2
            else:
                poly = (
                    1
                    + (j + 3) * r
                    + (6 * j**2 + 36 * j + 45) / 15.0 * r**2
                    + (j**3 + 9 * j**2 + 23 * j + 15) / 15.0 * r**3
                )
            out[a, b] = base * poly
    return out


worst = {}
for d in (1, 2, 3, 5):
    x1 = 0.3 * torch.randn(4, d)
    x2 = 0.3 * torch.randn(6, d)  # n1 != n2
    for ard in (False, True):
        ls = (torch.rand(d) + 0.6) if ard else torch.full((d,), 0.9)
        for q in (0, 1, 2, 3):
            kern = PiecewisePolynomialKernel(q=q, ard_num_dims=d if ard else None)
            kern.lengthscale = ls.view(1, d) if ard else ls[0]
            with torch.no_grad():
                K = kern(x1, x2).to_dense()
            err = (K - documented_pp(x1, x2, ls, q)).abs().max().item()
            worst[q] = max(worst.get(q, 0.0), err)
            print(f"d={d} ard={ard!s:5} q={q}: max |library - documented formula| = {err:.3e}")

print()
for q in sorted(worst):
    print(f"q={q}: worst error over all configurations = {worst[q]:.3e}")

# the default constructor uses q=2
default_q = PiecewisePolynomialKernel().q
print(f"(default q of PiecewisePolynomialKernel() is {default_q})")

TOL = 1e-10
bad = [q for q, e in worst.items() if e > TOL]
if bad:
    print(f"VIOLATION: PiecewisePolynomialKernel deviates from its documented covariance function for q in {bad}")
    sys.exit(1)
print("no violation")
sys.exit(0)
