#!/usr/bin/env python3
"""
Additional confirmed finding (C05): the derivative kernels (RBFKernelGrad, RBFKernelGradGrad, Matern52KernelGrad,
PolynomialKernelGrad) take the batch shape of the RESULT from x1 alone (`batch_shape = x1.shape[:-2]`) and
`.view(*batch_shape, ...)` / `.repeat(...)` everything to it.  They therefore raise as soon as the batch shape of the
hyperparameters or of x2 is not already carried by x1, e.g.

  * RBFKernelGrad(batch_shape=[2]) (one lengthscale per output, the usual "independent batch GP" pattern) evaluated
    on un-batched inputs n x d,
  * non-batch kernel, x1: 3 x n1 x d against shared x2: n2 x d.

Every other kernel of gpytorch.kernels broadcasts these cases (and agrees with a loop over batch members).
Reference: loop over the batch members with a non-batch copy of the kernel.
Exit code 1 if the problem is present, 0 otherwise.
"""
import sys
import warnings

import torch

warnings.filterwarnings("ignore")
import gpytorch  # noqa: E402
from gpytorch.kernels import (  # noqa: E402
    Matern52KernelGrad,
    PolynomialKernelGrad,
    RBFKernel,
    RBFKernelGrad,
    RBFKernelGradGrad,
)

torch.manual_seed(0)
torch.set_default_dtype(torch.float64)

d, n1, n2, B = 2, 3, 3, 2  # n1 == n2 so that RBFKernelGradGrad's separate n1 != n2 bug does not interfere
factories = {
    "RBFKernel (control)": lambda bs: RBFKernel(batch_shape=bs),
    "RBFKernelGrad": lambda bs: RBFKernelGrad(batch_shape=bs),
    "RBFKernelGradGrad": lambda bs: RBFKernelGradGrad(batch_shape=bs),
    "Matern52KernelGrad": lambda bs: Matern52KernelGrad(batch_shape=bs),
    "PolynomialKernelGrad": lambda bs: PolynomialKernelGrad(power=2, batch_shape=bs),
}

violation = False
for name, f in factories.items():
    # (a) batched hyperparameters, un-batched inputs
    kern = f(torch.Size([B]))
    for p in kern.parameters():
        p.data = 0.5 * torch.randn_like(p)
    x1, x2 = torch.randn(n1, d), torch.randn(n2, d)
    try:
        with torch.no_grad():
            K = kern(x1, x2).to_dense()
        errs = []
        for b in range(B):
            kb = f(torch.Size([]))
            target = kb.state_dict()
            kb.load_state_dict(
                {k: (v.clone() if v.shape == target[k].shape else v[b].clone()) for k, v in kern.state_dict().items()}
            )
            with torch.no_grad():
                errs.append((K[b] - kb(x1, x2).to_dense()).abs().max().item())
        print(f"{name:22s} batch_shape=[{B}] on un-batched x: max err vs per-member kernels {max(errs):.2e}")
        violation |= max(errs) > 1e-9 and "control" not in name
    except Exception as e:  # noqa: BLE001
        print(f"{name:22s} batch_shape=[{B}] on un-batched x: EXCEPTION {type(e).__name__}: {str(e)[:80]}")
        violation = True
    # (b) non-batch kernel, batched x1 against shared x2
    kern = f(torch.Size([]))
    x1b = torch.randn(3, n1, d)
    try:
        with torch.no_grad():
            K = kern(x1b, x2).to_dense()
            err = max((K[b] - kern(x1b[b], x2).to_dense()).abs().max().item() for b in range(3))
        print(f"{name:22s} x1: 3x{n1}x{d}, x2: {n2}x{d}:      max err vs loop {err:.2e}")
        violation |= err > 1e-9 and "control" not in name
    except Exception as e:  # noqa: BLE001
        print(f"{name:22s} x1: 3x{n1}x{d}, x2: {n2}x{d}:      EXCEPTION {type(e).__name__}: {str(e)[:80]}")
        violation = True

if violation:
    print("PROBLEM PRESENT: derivative kernels do not broadcast batch shapes of hyperparameters / x2")
    sys.exit(1)
print("no problem")
sys.exit(0)
