#!/usr/bin/env python3
"""
C05 violation 3: HammingIMQKernel with a batch_shape ("separate kernel hyperparameters for each batch of input
data") does not evaluate k = ((1 + alpha_b) / (alpha_b + d_Hamming(x1, x2)))^beta_b per batch member b.

alpha and beta have shape batch_shape x 1; gpytorch/kernels/hamming_kernel.py::_imq (line 131) combines them with the
batch_shape x n1 x n2 distance matrix without adding the second trailing dimension, so the BATCH dimension of
alpha/beta is aligned with the ROW dimension n1 of the distances:
  * n1 != batch size  -> RuntimeError (shape mismatch),
  * n1 == batch size  -> silently wrong values: row i of every batch member uses alpha_i, beta_i.

Reference: the documented formula, evaluated by one non-batch kernel per batch member (and by a dense formula).
Exit code 1 if the violation is present, 0 otherwise.
"""
import sys
import warnings

import torch
import torch.nn.functional as F

warnings.filterwarnings("ignore")
import gpytorch  # noqa: E402
from gpytorch.kernels import HammingIMQKernel  # noqa: E402

torch.manual_seed(0)
torch.set_default_dtype(torch.float64)

V, T = 4, 5  # vocabulary size, sequence length


def one_hot_batch(*shape):
    cat = torch.randint(0, V, (*shape, T))
    return cat, F.one_hot(cat, V).to(torch.get_default_dtype()).view(*shape, T * V)


violation = False
for B, n1, n2 in ((2, 3, 5), (3, 3, 5), (2, 2, 2)):
    alpha = torch.rand(B, 1) + 0.5
    beta = torch.rand(B, 1) + 0.5
    kern = HammingIMQKernel(vocab_size=V, batch_shape=torch.Size([B]))
    kern.alpha = alpha
    kern.beta = beta
    c1, x1 = one_hot_batch(B, n1)
    c2, x2 = one_hot_batch(B, n2)

    # reference 1: dense documented formula
    dist = (c1.unsqueeze(-2) != c2.unsqueeze(-3)).sum(-1).to(x1.dtype)  # B x n1 x n2
    ref = ((1 + alpha.unsqueeze(-1)) / (alpha.unsqueeze(-1) + dist)).pow(beta.unsqueeze(-1))
    # reference 2: one non-batch kernel per batch member
    ref2 = []
    for b in range(B):
        kb = HammingIMQKernel(vocab_size=V)
        kb.alpha = alpha[b]
        kb.beta = beta[b]
        with torch.no_grad():
            ref2.append(kb(x1[b], x2[b]).to_dense())
    ref2 = torch.stack(ref2)
    assert (ref - ref2).abs().max() < 1e-12, "the two references disagree"

    tag = f"batch_shape=[{B}], x1: {B}x{n1}x{T * V}, x2: {B}x{n2}x{T * V}"
    try:
        with torch.no_grad():
            K = kern(x1, x2).to_dense()
    except Exception as e:  # noqa: BLE001
        print(f"{tag}: EXCEPTION {type(e).__name__}: {str(e)[:100]}")
        violation = True
        continue
    err = (K - ref).abs().max().item()
    print(f"{tag}: max |batch kernel - per-member kernels| = {err:.3e}")
    if err > 1e-10:
        violation = True
        # show that row i uses the hyperparameters of batch member i
        wrong = ((1 + alpha.unsqueeze(0)) / (alpha.unsqueeze(0) + dist)).pow(beta.unsqueeze(0))
        print(f"    (matches the mis-aligned formula 'row i uses alpha_i, beta_i' to {(K - wrong).abs().max().item():.1e})")

if violation:
    print("VIOLATION: HammingIMQKernel with batch_shape does not apply alpha/beta per batch member")
    sys.exit(1)
print("no violation")
sys.exit(0)
