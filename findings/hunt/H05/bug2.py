#!/usr/bin/env python3
"""
C05 violation 2: RBFKernelGradGrad cannot be evaluated for n1 != n2 rows.

k = RBFKernelGradGrad();  k(x1, x2).to_dense() with x1: n1 x d, x2: n2 x d, n1 != n2 raises a RuntimeError
(shape mismatch) although the kernel is documented to return the n1(2d+1) x n2(2d+1) covariance of values, first
and second (diagonal) derivatives.  The same failure makes every ExactGP prediction with this kernel fail as soon
as the number of test points differs from the number of training points.

Root cause: gpytorch/kernels/rbf_kernel_gradgrad.py::forward transposes tensors that mix the derivative index and
the data index: `douter1dx2.transpose(-1, -2)` (line 106, K_31) is (n2*d) x n1 where (n1*d) x n2 is needed, and
`kp2.transpose(-1, -2)` (lines 129/135/137, K_32/K_33) is (n2*d) x (n1*d) where (n1*d) x (n2*d) is needed.
Both only happen to have the right shape when n1 == n2.

Reference: autograd derivatives of the RBF covariance function, laid out per point as
[k, dk/dx_1..dk/dx_d, d2k/dx_1^2..d2k/dx_d^2] (the documented interleaved layout).
Exit code 1 if the violation is present, 0 otherwise.
"""
import sys
import warnings

import torch

warnings.filterwarnings("ignore")
import gpytorch  # noqa: E402
from gpytorch.kernels import RBFKernelGradGrad  # noqa: E402

torch.manual_seed(0)
torch.set_default_dtype(torch.float64)


def apply_ops(f, var, idxs):
    out = f
    for ix in idxs:
        if not out.requires_grad:
            return torch.zeros(())
        (g,) = torch.autograd.grad(out, var, create_graph=True)
        out = g[ix]
    return out


def reference(x1, x2, ls):
    """autograd reference: rows/cols per point = [value, d/dx_1.., d2/dx_1^2..]"""
    n1, d = x1.shape
    n2 = x2.shape[0]
    p = 2 * d + 1
    ops = [[]] + [[i] for i in range(d)] + [[i, i] for i in range(d)]
    K = torch.zeros(n1 * p, n2 * p)
    for i in range(n1):
        for j in range(n2):
            for r, o1 in enumerate(ops):
                for c, o2 in enumerate(ops):
                    a = x1[i].clone().requires_grad_(True)
                    b = x2[j].clone().requires_grad_(True)
                    f = torch.exp(-0.5 * (((a - b) / ls) ** 2).sum())
                    v = apply_ops(apply_ops(f, a, o1), b, o2)
                    K[i * p + r, j * p + c] = v.detach()
    return K


violation = False
for d in (1, 2):
    for ard in (False, True):
        ls = (torch.rand(d) + 0.6) if ard else torch.full((d,), 0.8)
        for n1, n2 in ((3, 3), (2, 4), (4, 2), (1, 3)):
            x1 = torch.randn(n1, d)
            x2 = torch.randn(n2, d)
            kern = RBFKernelGradGrad(ard_num_dims=d if ard else None)
            kern.lengthscale = ls.view(1, d) if ard else ls[0]
            tag = f"d={d} ard={ard!s:5} n1={n1} n2={n2}"
            try:
                with torch.no_grad():
                    K = kern(x1, x2).to_dense()
            except Exception as e:  # noqa: BLE001
                print(f"{tag}: EXCEPTION {type(e).__name__}: {str(e)[:110]}")
                violation = True
                continue
            R = reference(x1, x2, ls)
            if K.shape != R.shape:
                print(f"{tag}: shape {tuple(K.shape)} instead of {tuple(R.shape)}")
                violation = True
                continue
            err = (K - R).abs().max().item()
            print(f"{tag}: max |library - autograd reference| = {err:.3e}")
            if err > 1e-8:
                violation = True


# consequence: an exact GP with this kernel cannot predict at a number of test points != number of training points
class GPModel(gpytorch.models.ExactGP):
    def __init__(self, x, y, lik):
        super().__init__(x, y, lik)
        self.mean_module = gpytorch.means.ConstantMeanGradGrad()
        self.covar_module = gpytorch.kernels.ScaleKernel(RBFKernelGradGrad())

    def forward(self, x):
        return gpytorch.distributions.MultitaskMultivariateNormal(self.mean_module(x), self.covar_module(x))


x = torch.linspace(0, 1, 6).unsqueeze(-1)
y = torch.stack([torch.sin(3 * x[:, 0]), 3 * torch.cos(3 * x[:, 0]), -9 * torch.sin(3 * x[:, 0])], -1)
lik = gpytorch.likelihoods.MultitaskGaussianLikelihood(num_tasks=3)
model = GPModel(x, y, lik).eval()
try:
    with torch.no_grad():
        mean = model(torch.linspace(0, 1, 4).unsqueeze(-1)).mean
    print("ExactGP prediction (6 training points, 4 test points): ok, mean shape", tuple(mean.shape))
except Exception as e:  # noqa: BLE001
    print(f"ExactGP prediction (6 training points, 4 test points): EXCEPTION {type(e).__name__}: {str(e)[:110]}")
    violation = True

if violation:
    print("VIOLATION: RBFKernelGradGrad fails / deviates for n1 != n2")
    sys.exit(1)
print("no violation")
sys.exit(0)
