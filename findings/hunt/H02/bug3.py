#!/usr/bin/env python3
"""
C02 violation 3: the log prior of a parameter is counted once per PATH to its module, not once per parameter.

An additive GP over two input dimensions uses ONE RBF kernel object (tied lengthscale, with a Gamma prior) inside
two ScaleKernels:   k(x, x') = s_1 k_rbf(x_0, x_0') + s_2 k_rbf(x_1, x_1').
The model has a single raw_lengthscale parameter (model.parameters() / named_parameters() list it once, the
constraint and added-loss-term extractors in module.py de-duplicate with a memo, and pyro_sample_from_prior samples
the prior once), but `_extract_named_priors` has no memo and yields the same (prior, module) pair twice, so
ExactMarginalLogLikelihood (and LeaveOneOutPseudoLikelihood) add  2 * log p(lengthscale)  and the gradient with
respect to raw_lengthscale contains twice the prior gradient.

Reference: dense definition  [log N(y; 0, K + sigma^2 I) + log p(lengthscale)] / n.
"""
import sys
import warnings

import torch

import gpytorch
from gpytorch.distributions import MultivariateNormal
from gpytorch.kernels import RBFKernel, ScaleKernel
from gpytorch.priors import GammaPrior

warnings.filterwarnings("ignore")
torch.manual_seed(0)
torch.set_default_dtype(torch.float64)


class GP(gpytorch.models.ExactGP):
    def __init__(self, x, y, lik, covar):
        super().__init__(x, y, lik)
        self.mean_module = gpytorch.means.ZeroMean()
        self.covar_module = covar

    def forward(self, x):
        return MultivariateNormal(self.mean_module(x), self.covar_module(x))


if __name__ == "__main__":
    n = 6
    x = torch.randn(n, 2)
    y = torch.randn(n)
    prior = GammaPrior(2.0, 3.0)
    base = RBFKernel(lengthscale_prior=GammaPrior(2.0, 3.0))
    base.lengthscale = 0.4
    covar = ScaleKernel(base, active_dims=[0]) + ScaleKernel(base, active_dims=[1])
    lik = gpytorch.likelihoods.GaussianLikelihood()
    model = GP(x, y, lik, covar)
    model.train()

    n_ls_params = sum(1 for name, _ in model.named_parameters() if name.endswith("raw_lengthscale"))
    prior_names = [name for name, *_ in model.named_priors()]
    print("lengthscale parameters in the model :", n_ls_params)
    print("entries returned by named_priors()  :", prior_names)

    worst = 0.0
    for cls in (gpytorch.mlls.ExactMarginalLogLikelihood, gpytorch.mlls.LeaveOneOutPseudoLikelihood):
        mll = cls(lik, model)
        val = mll(model(x), y)
        (g_val,) = torch.autograd.grad(val, base.raw_lengthscale)

        # the same objective with the prior removed, obtained from an identical model without prior
        base0 = RBFKernel()
        covar0 = ScaleKernel(base0, active_dims=[0]) + ScaleKernel(base0, active_dims=[1])
        model0 = GP(x, y, lik, covar0)
        model0.load_state_dict(model.state_dict(), strict=False)
        model0.train()
        lik_term = cls(lik, model0)(model0(x), y)  # no prior registered: pure data term / n
        if cls is gpytorch.mlls.ExactMarginalLogLikelihood:
            K = covar(x).to_dense() + lik.noise * torch.eye(n)
            dense = torch.distributions.MultivariateNormal(torch.zeros(n), K).log_prob(y) / n
            assert abs(dense.item() - lik_term.item()) < 1e-10
        log_prior = prior.log_prob(base.lengthscale).sum()
        ref = lik_term.detach() + log_prior / n
        (g_data,) = torch.autograd.grad(lik_term, base0.raw_lengthscale)
        (g_prior,) = torch.autograd.grad(log_prior / n, base.raw_lengthscale)
        g_ref = g_data + g_prior

        err = (val - ref).abs().item()
        gerr = (g_val - g_ref).abs().max().item()
        worst = max(worst, err, gerr)
        print(f"{cls.__name__}:")
        print(f"   library value   : {val.item():.10f}")
        print(f"   dense definition: {ref.item():.10f}")
        print(f"   (library - dense) * n = {((val - ref) * n).item():.10f}   log p(lengthscale) = {log_prior.item():.10f}")
        print(f"   |value error| = {err:.3e}   |grad error wrt raw_lengthscale| = {gerr:.3e}")

    bad = worst > 1e-6
    print("VIOLATION PRESENT" if bad else "no violation")
    sys.exit(1 if bad else 0)
