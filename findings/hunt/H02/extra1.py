#!/usr/bin/env python3
"""
Extra (4th) confirmed C02 violation - an exception on a valid broadcastable input.

MultivariateNormal.log_prob (fast path) raises when the targets carry a size-1 batch dimension that has to be
broadcast against a batch of kernel hyperparameters, e.g. train_y of shape (1, n) with a kernel of batch shape (3,).
In the `else` branch of the "Repeat the covar to match the batch shape of diff" block the repeat counts are
computed as  diff_size // covar_size = 1 // 3 = 0,  which produces an EMPTY (0 x n x n) covariance operator.
The same data works when x is (n, d) and y is (n,).  (NB: torch's own MultivariateNormal.log_prob, which is used with
fast_computations(log_prob=False), rejects this broadcast as well, so this is a weaker finding than bug1-3.)
"""
import sys
import warnings

import torch

import gpytorch
from gpytorch.distributions import MultivariateNormal
from gpytorch.kernels import RBFKernel

warnings.filterwarnings("ignore")
torch.manual_seed(0)
torch.set_default_dtype(torch.float64)


class GP(gpytorch.models.ExactGP):
    def __init__(self, x, y, lik, covar):
        super().__init__(x, y, lik)
        self.mean_module = gpytorch.means.ZeroMean()
        self.covar_module = covar

    def forward(self, x):
        return MultivariateNormal(self.mean_module(x), self.covar_module(x))


if __name__ == "__main__":
    n, b = 5, 3
    x = torch.randn(1, n, 1)
    y = torch.randn(1, n)
    lik = gpytorch.likelihoods.GaussianLikelihood()
    kern = RBFKernel(batch_shape=torch.Size([b]))
    kern.lengthscale = torch.tensor([0.5, 1.0, 2.0]).view(b, 1, 1)
    model = GP(x, y, lik, kern)
    model.train()
    mll = gpytorch.mlls.ExactMarginalLogLikelihood(lik, model)

    K = kern(x).to_dense() + lik.noise * torch.eye(n)
    ref = torch.distributions.MultivariateNormal(torch.zeros(n), K).log_prob(y) / n
    print("dense definition                 :", ref.detach().tolist())
    model2 = GP(x[0], y[0], lik, kern)  # the same data without the leading size-1 batch dimension
    model2.train()
    mll2 = gpytorch.mlls.ExactMarginalLogLikelihood(lik, model2)
    print("library, x (n,1) and y (n,)      :", mll2(model2(x[0]), y[0]).detach().tolist())
    try:
        with gpytorch.settings.fast_computations(log_prob=False):
            print("library, fast log_prob turned off:", mll(model(x), y).detach().tolist())
    except Exception as e:  # noqa
        print("library, fast log_prob turned off: raises", type(e).__name__, "-", str(e)[:160])
    try:
        val = mll(model(x), y)
        print("library, default settings        :", val.detach().tolist())
        bad = (val - ref).abs().max().item() > 1e-6
    except Exception as e:  # noqa
        print("library, default settings        : raises", type(e).__name__, "-", str(e)[:160])
        bad = True
    print("VIOLATION PRESENT" if bad else "no violation")
    sys.exit(1 if bad else 0)
