#!/usr/bin/env python3
"""
C02 violation 2: wrong exact MLL for a Kronecker multitask GP whose MultitaskGaussianLikelihood has a low-rank
task-noise covariance (0 < rank < num_tasks) and no global noise (has_global_noise=False).

The marginal covariance  K_x (x) K_t  +  I_n (x) F F^T   is perfectly well conditioned (K_t is full rank), but
`_MultitaskGaussianLikelihoodBase.marginal` forces the sum into a SumKroneckerLinearOperator ("ensure that
sumKroneckerLT is actually called"), whose solve / logdet INVERT THE SECOND SUMMAND, i.e. the noise term
I_n (x) F F^T.  With rank < num_tasks and no global noise that term is singular, and the default (n is far below
max_cholesky_size, so "exact Cholesky") code path silently returns a wrong value and wrong gradients.

References: the dense definition log N(y; m, K + S) / (n t), and the library's own value with
fast_computations(log_prob=False).
"""
import sys
import warnings

import torch

import gpytorch
from gpytorch.distributions import MultitaskMultivariateNormal
from gpytorch.kernels import MultitaskKernel, RBFKernel
from gpytorch.likelihoods import MultitaskGaussianLikelihood

warnings.filterwarnings("ignore")
torch.set_default_dtype(torch.float64)


class MTGP(gpytorch.models.ExactGP):
    def __init__(self, x, y, lik, t):
        super().__init__(x, y, lik)
        self.mean_module = gpytorch.means.MultitaskMean(gpytorch.means.ConstantMean(), num_tasks=t)
        self.covar_module = MultitaskKernel(RBFKernel(), num_tasks=t, rank=1)

    def forward(self, x):
        return MultitaskMultivariateNormal(self.mean_module(x), self.covar_module(x))


def run(t, rank):
    torch.manual_seed(1)
    n = 5
    x = torch.randn(n, 2)
    y = torch.randn(n, t)
    lik = MultitaskGaussianLikelihood(num_tasks=t, rank=rank, has_global_noise=False)
    model = MTGP(x, y, lik, t)
    model.train()
    mll = gpytorch.mlls.ExactMarginalLogLikelihood(lik, model)
    params = list(model.parameters())

    out = model(x)
    val = mll(out, y)
    g_val = torch.autograd.grad(val, params, allow_unused=True)

    out = model(x)
    K = out.covariance_matrix + torch.kron(torch.eye(n), lik.task_noise_covar)  # interleaved layout
    ref = torch.distributions.MultivariateNormal(out.mean.reshape(-1), K).log_prob(y.reshape(-1)) / (n * t)
    g_ref = torch.autograd.grad(ref, params, allow_unused=True)

    with gpytorch.settings.fast_computations(log_prob=False):
        val_slow = mll(model(x), y)

    gerr = 0.0
    for p, a, b in zip(params, g_val, g_ref):
        a = torch.zeros_like(p) if a is None else a
        b = torch.zeros_like(p) if b is None else b
        gerr = max(gerr, (a - b).abs().max().item())
    err = (val - ref).abs().item()
    print(f"num_tasks={t} noise rank={rank} has_global_noise=False   (smallest eigenvalue of the dense marginal "
          f"covariance: {torch.linalg.eigvalsh(K).min().item():.3f})")
    print(f"   library MLL (default settings)        : {val.item():.10f}")
    print(f"   library MLL (fast log_prob turned off): {val_slow.item():.10f}")
    print(f"   dense definition                      : {ref.item():.10f}")
    print(f"   |value error| = {err:.3e}   max |gradient error| = {gerr:.3e}")
    return err, gerr


if __name__ == "__main__":
    print("control (full-rank task noise, must agree):")
    c_err, c_gerr = run(3, 3)
    print("rank-deficient task noise:")
    bad = False
    for t, rank in [(3, 2), (3, 1), (2, 1)]:
        err, gerr = run(t, rank)
        bad = bad or err > 1e-6 or gerr > 1e-6
    if c_err > 1e-8:
        print("WARNING: the control case disagrees as well")
    print("VIOLATION PRESENT" if bad else "no violation")
    sys.exit(1 if bad else 0)
