#!/usr/bin/env python3
"""
C02 violation 1: ExactMarginalLogLikelihood adds the log prior terms to the wrong batch elements.

`ExactMarginalLogLikelihood._add_other_terms` reduces every prior term with
    prior_term.view(*prior_term.shape[:res_ndim], -1).sum(dim=-1)
i.e. it assumes that the FIRST `res.ndim` dimensions of the prior term are the batch dimensions of the MLL.
That is false whenever the hyperparameter carries fewer (broadcast) batch dimensions than the MLL:

  case A: training data with batch shape (2, 3), a shared (non-batch) RBF kernel with ard_num_dims=3 and a
          lengthscale prior.  lengthscale has shape (1, 3) -> prior term (1, 3) -> "reduced" to (1, 3) and ADDED
          ELEMENTWISE to the (2, 3) MLL: batch column j receives only log p(lengthscale_j) instead of the sum
          over the three ARD dimensions.
  case B: a batch (2,) of multitask GPs (2 tasks) sharing one MultitaskGaussianLikelihood with a noise prior.
          task_noises has shape (2,) -> prior term (2,) is taken to be per-batch: batch element i gets
          log p(task_noise_i) instead of sum_t log p(task_noise_t).

The reference is the dense definition: [log N(y; m, K + S) + sum of all log prior densities] / num_data.
"""
import sys
import warnings

import torch

import gpytorch
from gpytorch.distributions import MultitaskMultivariateNormal, MultivariateNormal
from gpytorch.kernels import MultitaskKernel, RBFKernel
from gpytorch.priors import GammaPrior

warnings.filterwarnings("ignore")
torch.manual_seed(0)
torch.set_default_dtype(torch.float64)


class GP(gpytorch.models.ExactGP):
    def __init__(self, x, y, lik, covar):
        super().__init__(x, y, lik)
        self.mean_module = gpytorch.means.ZeroMean()
        self.covar_module = covar

    def forward(self, x):
        return MultivariateNormal(self.mean_module(x), self.covar_module(x))


class MTGP(gpytorch.models.ExactGP):
    def __init__(self, x, y, lik, t, batch_shape):
        super().__init__(x, y, lik)
        self.mean_module = gpytorch.means.MultitaskMean(
            gpytorch.means.ConstantMean(batch_shape=batch_shape), num_tasks=t
        )
        self.covar_module = MultitaskKernel(
            RBFKernel(batch_shape=batch_shape), num_tasks=t, rank=1, batch_shape=batch_shape
        )

    def forward(self, x):
        return MultitaskMultivariateNormal(self.mean_module(x), self.covar_module(x))


def case_a():
    b1, b2, n, d = 2, 3, 5, 3
    x = torch.randn(b1, b2, n, d)
    y = torch.randn(b1, b2, n)
    prior = GammaPrior(2.0, 3.0)
    lik = gpytorch.likelihoods.GaussianLikelihood()
    kern = RBFKernel(ard_num_dims=d, lengthscale_prior=GammaPrior(2.0, 3.0))
    kern.lengthscale = torch.tensor([0.5, 1.0, 2.0])
    model = GP(x, y, lik, kern)
    model.train()
    mll = gpytorch.mlls.ExactMarginalLogLikelihood(lik, model)

    val = mll(model(x), y)
    (g_val,) = torch.autograd.grad(val.sum(), kern.raw_lengthscale)

    K = kern(x).to_dense() + lik.noise * torch.eye(n)
    log_lik = torch.distributions.MultivariateNormal(torch.zeros(b1, b2, n), K).log_prob(y)
    ref = (log_lik + prior.log_prob(kern.lengthscale).sum()) / n
    (g_ref,) = torch.autograd.grad(ref.sum(), kern.raw_lengthscale)

    print("case A: data batch shape (2, 3), shared ARD RBF kernel (3 dims) with a Gamma lengthscale prior")
    print("  library MLL      :\n", val.detach())
    print("  dense definition :\n", ref.detach())
    print("  (library - dense) * n:\n", ((val - ref) * n).detach())
    print("  per-dimension log prior:", prior.log_prob(kern.lengthscale).detach().flatten().tolist())
    err = (val - ref).abs().max().item()
    gerr = (g_val - g_ref).abs().max().item()
    print(f"  max |value error| = {err:.3e}   max |grad error wrt raw_lengthscale| = {gerr:.3e}")
    return max(err, gerr)


def case_b():
    b, t, n = 2, 2, 4
    x = torch.randn(b, n, 1)
    y = torch.randn(b, n, t)
    prior = GammaPrior(2.0, 3.0)
    lik = gpytorch.likelihoods.MultitaskGaussianLikelihood(num_tasks=t, rank=0, noise_prior=GammaPrior(2.0, 3.0))
    lik.task_noises = torch.tensor([0.3, 0.9])
    model = MTGP(x, y, lik, t, torch.Size([b]))
    model.train()
    mll = gpytorch.mlls.ExactMarginalLogLikelihood(lik, model)

    out = model(x)
    val = mll(out, y)

    # dense marginal: latent covariance + I_n (x) (diag(task_noises) + noise * I_t)   (interleaved layout)
    D = torch.diag(lik.task_noises) + lik.noise * torch.eye(t)
    K = out.covariance_matrix + torch.kron(torch.eye(n), D)
    log_lik = torch.distributions.MultivariateNormal(out.mean.reshape(b, -1), K).log_prob(y.reshape(b, -1))
    # the constructor registers the prior on the task noises and on the global noise
    log_prior = prior.log_prob(lik.task_noises).sum() + prior.log_prob(lik.noise).sum()
    ref = (log_lik + log_prior) / (n * t)

    print("case B: batch (2,) of 2-task GPs, one shared MultitaskGaussianLikelihood with a noise prior")
    print("  library MLL      :", val.detach().tolist())
    print("  dense definition :", ref.detach().tolist())
    err = (val - ref).abs().max().item()
    print(f"  max |value error| = {err:.3e}")
    return err


if __name__ == "__main__":
    err_a = case_a()
    err_b = case_b()
    bad = err_a > 1e-6 or err_b > 1e-6
    print("VIOLATION PRESENT" if bad else "no violation")
    sys.exit(1 if bad else 0)
