"""C10 / bug3: rsample(base_samples=e) raises for base samples of the documented shape
(*sample_shape x *batch_shape x N) whenever e is not laid out contiguously - e.g. base samples shared
across a sample or batch dimension with .expand(), or a transposed view.

Property: rsample(base_samples=e) equals mean + L e with L L^T = covariance.
"""
import sys
import warnings

import torch

from gpytorch.distributions import MultivariateNormal
from linear_operator import to_linear_operator

warnings.simplefilter("ignore")
torch.manual_seed(0)
torch.set_default_dtype(torch.float64)

n = 4
bad = False


def spd(*shape):
    A = torch.randn(*shape, shape[-1] + 2)
    return A @ A.mT + 0.5 * torch.eye(shape[-1])


def run(tag, dist, e):
    global bad
    L = torch.linalg.cholesky(dist.covariance_matrix)
    ref = dist.mean + (L @ e.unsqueeze(-1)).squeeze(-1)
    ok_contig = (dist.rsample(base_samples=e.contiguous()) - ref).abs().max().item()
    try:
        x = dist.rsample(base_samples=e)
        err = (x - ref).abs().max().item()
        print(f"{tag}: e{tuple(e.shape)} strides {e.stride()}: err {err:.2e} (contiguous copy: {ok_contig:.2e})")
        if err > 1e-8:
            bad = True
    except Exception as exc:  # noqa
        print(
            f"{tag}: e{tuple(e.shape)} strides {e.stride()}: RAISED {type(exc).__name__}: {str(exc)[:90]}"
            f" (contiguous copy of the same values: err {ok_contig:.2e})"
        )
        bad = True


m, C = torch.randn(n), spd(n)
for lazy in (False, True):
    d = MultivariateNormal(m, to_linear_operator(C) if lazy else C)
    kind = "lazy " if lazy else "dense"
    # the same 2 base vectors reused for 3 "outer" draws: sample_shape (2, 3)
    run(f"{kind} batch ()  expand over sample dim", d, torch.randn(2, 1, n).expand(2, 3, n))
    # transposed sample dims
    run(f"{kind} batch ()  transposed sample dims", d, torch.randn(3, 2, n).transpose(0, 1))

mb, Cb = torch.randn(3, n), spd(3, n)
for lazy in (False, True):
    d = MultivariateNormal(mb, to_linear_operator(Cb) if lazy else Cb)
    kind = "lazy " if lazy else "dense"
    # common random numbers across the batch: one base vector per sample, shared by the 3 batch members
    run(f"{kind} batch (3,) shared over batch (expand)", d, torch.randn(5, 1, n).expand(5, 3, n))
    run(f"{kind} batch (3,) two sample dims, one expanded", d, torch.randn(2, 1, 3, n).expand(2, 5, 3, n))

print("VIOLATION" if bad else "ok")
sys.exit(1 if bad else 0)
