"""C10 / extra c: index expressions that torch accepts on the mean but MultivariateNormal.__getitem__ cannot serve."""
import sys
import warnings

import torch

from gpytorch.distributions import MultivariateNormal
from linear_operator.operators import CholLinearOperator, TriangularLinearOperator

warnings.simplefilter("ignore")
torch.manual_seed(0)
torch.set_default_dtype(torch.float64)
n = 4
A = torch.randn(3, n, n + 2)
C = A @ A.mT + torch.eye(n)
m = torch.randn(3, n)
bad = False


def attempt(tag, f, ref_mean, ref_cov):
    global bad
    try:
        r = f()
        err = max((r.mean - ref_mean).abs().max().item(), (r.covariance_matrix - ref_cov).abs().max().item())
        print(f"{tag}: err {err:.2e}")
        bad = bad or err > 1e-8
    except Exception as exc:  # noqa
        print(f"{tag}: RAISED {type(exc).__name__}: {str(exc)[:110]}")
        bad = True


d0 = MultivariateNormal(m[0], C[0])
db = MultivariateNormal(m, C)
mask = torch.tensor([True, False, True, True])
bmask = torch.tensor([True, False, True])
attempt("bool mask over the event dim, batch ()   dist[mask]", lambda: d0[mask], m[0][mask], C[0][mask][:, mask])
attempt("bool mask over the event dim, batch (3,) dist[:, mask]", lambda: db[:, mask], m[:, mask], C[:, mask][:, :, mask])
attempt("bool mask over the batch dim             dist[bmask]", lambda: db[bmask], m[bmask], C[bmask])
i = torch.tensor(1)
attempt("0-dim tensor index on the event dim      dist[:, tensor(1)]", lambda: db[:, i], m[:, 1], torch.diag(C[:, 1, 1]))
L = torch.linalg.cholesky(C[0])
dc = MultivariateNormal(m[0], CholLinearOperator(TriangularLinearOperator(L)))
attempt("CholLinearOperator covariance, slice     dist[1:3]", lambda: dc[1:3], m[0][1:3], C[0][1:3, 1:3])
print("VIOLATION" if bad else "ok")
sys.exit(1 if bad else 0)
