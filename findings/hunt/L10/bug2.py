"""C10 / bug2: MultivariateNormal whose covariance is a CholLinearOperator (the representation returned by
CholeskyVariationalDistribution / the whitened variational strategies), multiplied or divided by a scalar:
mean and dense covariance of the product are right, but log_prob (fast path) and kl_divergence are wrong.

Property: "* and / by scalars act on mean and covariance as the corresponding operations on the random vector",
"log_prob equals the Gaussian log density", "KL equals the closed form" - for all covariance operator types.
"""
import sys
import warnings

import torch

import gpytorch
from gpytorch.distributions import MultivariateNormal
from linear_operator.operators import CholLinearOperator, TriangularLinearOperator
from torch.distributions import MultivariateNormal as TorchMVN, kl_divergence

warnings.simplefilter("ignore")
torch.manual_seed(0)
torch.set_default_dtype(torch.float64)

n = 4
A = torch.randn(n, n + 2)
C = A @ A.T + torch.eye(n)
L = torch.linalg.cholesky(C)
m = torch.randn(n)
v = torch.randn(3, n)
bad = False


def report(tag, got, ref, tol=1e-8):
    global bad
    err = (got - ref).abs().max().item()
    flag = "VIOLATION" if err > tol else "ok"
    print(f"{tag:55s} got {got.flatten()[:3].tolist()} ref {ref.flatten()[:3].tolist()} err {err:.3e} {flag}")
    if err > tol:
        bad = True


def attempt(tag, f, ref):
    global bad
    try:
        report(tag, f(), ref)
    except Exception as exc:  # noqa
        print(f"{tag:55s} RAISED {type(exc).__name__}: {str(exc)[:120]}  VIOLATION")
        bad = True


base = MultivariateNormal(m, CholLinearOperator(TriangularLinearOperator(L)))
report("control: log_prob of the unscaled distribution", base.log_prob(v), TorchMVN(m, C).log_prob(v))

for c, name in [(2.0, "* 2.0"), (0.25, "/ 4.0"), (-3.0, "* -3.0")]:
    if name.startswith("/"):
        d = base / 4.0
    else:
        d = base * c
    ref = TorchMVN(m * c, C * c**2)
    print(f"--- dist {name}: covariance operator {type(d.lazy_covariance_matrix).__name__}")
    report(f"dist {name}: mean", d.mean, ref.mean)
    report(f"dist {name}: covariance_matrix", d.covariance_matrix, ref.covariance_matrix)
    attempt(f"dist {name}: log_prob (fast_computations on)", lambda: d.log_prob(v), ref.log_prob(v))
    with gpytorch.settings.fast_computations(log_prob=False):
        d_slow = base / 4.0 if name.startswith("/") else base * c
        attempt(f"dist {name}: log_prob (fast_computations off)", lambda: d_slow.log_prob(v), ref.log_prob(v))
    prior = MultivariateNormal(torch.zeros(n), torch.eye(n))
    tprior = TorchMVN(torch.zeros(n), torch.eye(n))
    attempt(f"dist {name}: KL(prior || dist)", lambda: kl_divergence(prior, d), kl_divergence(tprior, ref))
    attempt(f"dist {name}: KL(dist || dist)", lambda: kl_divergence(d, d), torch.zeros(()))

# the same through the public variational distribution
vd = gpytorch.variational.CholeskyVariationalDistribution(n)
with torch.no_grad():
    vd.variational_mean.copy_(m)
    vd.chol_variational_covar.copy_(L)
q = vd()
ref = TorchMVN(2 * m, 4 * C)
attempt("CholeskyVariationalDistribution()() * 2: log_prob", lambda: (q * 2.0).log_prob(v), ref.log_prob(v))

print("VIOLATION" if bad else "ok")
sys.exit(1 if bad else 0)
