"""C10 / extra a: gpytorch.distributions.Delta.expand (fallback class used when pyro is not installed) initialises
`self` instead of the new instance: the original distribution silently changes its batch_shape, the returned
one has no _batch_shape (batch_shape / log_prob raise AttributeError)."""
import sys

import torch

from gpytorch.distributions import Delta

torch.manual_seed(0)
torch.set_default_dtype(torch.float64)
v = torch.randn(4)
d = Delta(v, event_dim=1)
print("module of Delta:", Delta.__module__)
print("before: d.batch_shape =", tuple(d.batch_shape), " d.log_prob(v).shape =", tuple(d.log_prob(v).shape))
e = d.expand(torch.Size([3]))
bad = False
print("after e = d.expand((3,)): d.batch_shape =", tuple(d.batch_shape), " d.log_prob(v).shape =", tuple(d.log_prob(v).shape))
if tuple(d.batch_shape) != ():
    bad = True
try:
    print("e.batch_shape =", tuple(e.batch_shape), " e.log_prob(v) =", e.log_prob(v))
except Exception as exc:  # noqa
    print("e.batch_shape / e.log_prob RAISED", type(exc).__name__, exc)
    bad = True
print("VIOLATION" if bad else "ok")
sys.exit(1 if bad else 0)
