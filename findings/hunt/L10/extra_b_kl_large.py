"""C10 / extra b: kl_divergence(p, p) for event size > settings.max_cholesky_size (800) is hundreds of nats
below zero: kl_mvn_mvn takes p_covar.root_decomposition().root (Lanczos, rank <= 100) for the trace term."""
import sys
import warnings

import torch

from gpytorch.distributions import MultivariateNormal
from torch.distributions import MultivariateNormal as TorchMVN, kl_divergence

warnings.simplefilter("ignore")
torch.manual_seed(0)
torch.set_default_dtype(torch.float64)
n = 900
x = torch.linspace(0, 1, n)
K = torch.exp(-((x[:, None] - x[None]) ** 2) / 0.02) + 0.1 * torch.eye(n)
m = torch.sin(6 * x)
p = MultivariateNormal(m, K)
q = MultivariateNormal(torch.zeros(n), torch.eye(n))
kl_pp = kl_divergence(p, p).item()
kl_pq = kl_divergence(p, q).item()
ref_pq = kl_divergence(TorchMVN(m, K), TorchMVN(torch.zeros(n), torch.eye(n))).item()
print(f"KL(p||p) = {kl_pp:.3f}   (closed form 0, KL can never be negative)")
print(f"KL(p||q) = {kl_pq:.3f}   closed form {ref_pq:.3f}")
bad = abs(kl_pp) > 1.0 or abs(kl_pq - ref_pq) > 1.0
print("VIOLATION" if bad else "ok")
sys.exit(1 if bad else 0)
