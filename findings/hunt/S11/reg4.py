# Concerns commit 515ed81 (HammingIMQKernel aligns alpha and beta with the trailing dimensions of the distances).
# INCOMPLETE REPAIR (sibling branch of the same forward): the commit aligned alpha/beta in the full-matrix branch and in
# the diag branch for x1 != x2, but the diag shortcut for x1 == x2 still builds its result from the parameters alone
# (res.expand(*kernel_batch, n)), so the batch dimensions of the *inputs* are dropped.  For a batched kernel
# (batch_shape [3]) evaluated on inputs of shape 2 x 3 x n x d the full matrix is now 2 x 3 x n x n (new, correct),
# but kernel(x, diag=True) is 3 x n and the lazy kernel(x).diagonal() raises.  Same for an un-batched kernel on batched
# inputs.  The old code behaved the same on this branch (not worse), the full/diag results are just still inconsistent.
import sys
import torch
import torch.nn.functional as F
import gpytorch

V, T, n = 4, 5, 6
g = torch.Generator().manual_seed(0)


def one_hot(*shape):
    return F.one_hot(torch.randint(0, V, (*shape, T), generator=g), V).reshape(*shape, T * V).float()


bad = False
for kb, xb in (((3,), (2, 3)), ((), (3,)), ((3,), ())):
    k = gpytorch.kernels.HammingIMQKernel(vocab_size=V, batch_shape=torch.Size(kb))
    k.alpha = 0.5 + 0.25 * torch.arange(max(1, torch.Size(kb).numel())).float().reshape(*kb, 1)
    x = one_hot(*xb, n)
    with torch.no_grad():
        full = k(x).to_dense()
        want = full.diagonal(dim1=-2, dim2=-1)
        d1 = k(x, diag=True)
        try:
            d2 = k(x).diagonal(dim1=-2, dim2=-1)
            d2s = str(tuple(d2.shape))
            ok2 = d2.shape == want.shape and torch.allclose(d2, want)
        except Exception as e:
            d2s = f"{type(e).__name__}: {str(e)[:70]}"
            ok2 = False
    ok1 = d1.shape == want.shape and torch.allclose(d1, want)
    print(f"kernel batch {kb}, input batch {xb}: full {tuple(full.shape)}  diagonal of full {tuple(want.shape)}  "
          f"kernel(x, diag=True) {tuple(d1.shape)} [{'ok' if ok1 else 'PROBLEM'}]  "
          f"kernel(x).diagonal() {d2s} [{'ok' if ok2 else 'PROBLEM'}]")
    bad = bad or not (ok1 and ok2)

sys.exit(1 if bad else 0)
