# Concerns commit 7f802d6 (exact predictive covariance with a batched mean or noise and an un-batched kernel).
# INCOMPLETE REPAIR (sibling call path, same configuration): ConstantMean(batch_shape=[3]) with an un-batched
# kernel now predicts, but get_fantasy_model on that very model still raises: get_fantasy_strategy re-shapes the joint
# mean with the batch shape of the *inputs* (full_mean.view(*full_inputs[0].shape[:-2], -1)), which lacks the batch
# dimension that only the mean carries.  Old code: prediction itself already raised, so nothing got worse; the
# configuration the commit set out to support is just still unusable for fantasies.
import sys
import traceback
import torch
import gpytorch


class GP(gpytorch.models.ExactGP):
    def __init__(self, x, y, lik, mean_batch):
        super().__init__(x, y, lik)
        self.mean_module = gpytorch.means.ConstantMean(batch_shape=mean_batch)
        self.covar_module = gpytorch.kernels.ScaleKernel(gpytorch.kernels.RBFKernel())

    def forward(self, x):
        return gpytorch.distributions.MultivariateNormal(self.mean_module(x), self.covar_module(x))


torch.manual_seed(0)
n, t, b = 10, 4, 3
x = torch.linspace(0, 1, n).unsqueeze(-1)
y = torch.sin(6 * x.squeeze(-1))
xt = torch.rand(t, 1)
fx, fy = torch.rand(2, 1), torch.rand(2)

model = GP(x, y, gpytorch.likelihoods.GaussianLikelihood(), torch.Size([b])).eval()
model.mean_module.constant.data = torch.tensor([-1.0, 0.0, 1.0])
with torch.no_grad():
    post = model(xt)
print("prediction with batched mean / un-batched kernel:", tuple(post.mean.shape), tuple(post.covariance_matrix.shape))

# reference: three independent un-batched models with the three constants, conditioned on the fantasy points
refs = []
for c in (-1.0, 0.0, 1.0):
    m = GP(x, y, gpytorch.likelihoods.GaussianLikelihood(), torch.Size([])).eval()
    m.mean_module.constant.data = torch.tensor(c)
    with torch.no_grad():
        m(xt)
        refs.append(m.get_fantasy_model(fx, fy)(xt).mean)
ref = torch.stack(refs)
print("reference fantasy means (three un-batched models):", tuple(ref.shape))

bad = False
try:
    with torch.no_grad():
        fant = model.get_fantasy_model(fx, fy)
        fmean = fant(xt).mean
    err = (fmean - ref).abs().max().item()
    print("fantasy model mean", tuple(fmean.shape), "max |diff to reference| =", err)
    bad = tuple(fmean.shape) != tuple(ref.shape) or err > 1e-3
except Exception as e:
    last = traceback.extract_tb(e.__traceback__)[-1]
    print(f"PROBLEM: get_fantasy_model raised {type(e).__name__}: {str(e)[:120]} "
          f"(at {last.filename.split('/')[-1]}:{last.lineno})")
    bad = True

sys.exit(1 if bad else 0)
