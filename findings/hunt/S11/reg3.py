# Concerns commit e5c7d4c (ExactGP prediction when only the targets or the likelihood carry a batch dimension).
# INCOMPLETE REPAIR (sibling call path): with a batch that only the likelihood noise carries
# (GaussianLikelihood(batch_shape=[3]), un-batched mean/kernel, shared inputs and targets) model(test_x) now works,
# but model.get_fantasy_model(...) on the same model still raises "All tensors must have the same number of
# dimensions": get_fantasy_strategy concatenates the batched train/train covariance (3 x n x n, batch from the
# noise) with the un-batched fantasy/train block (m x n) in lik_train_train_covar.cat_rows.  The old code could
# not even predict with this model, so nothing got worse - the repair just stops at __call__.
import sys
import traceback
import torch
import gpytorch


class GP(gpytorch.models.ExactGP):
    def __init__(self, x, y, lik):
        super().__init__(x, y, lik)
        self.mean_module = gpytorch.means.ConstantMean()
        self.covar_module = gpytorch.kernels.ScaleKernel(gpytorch.kernels.RBFKernel())

    def forward(self, x):
        return gpytorch.distributions.MultivariateNormal(self.mean_module(x), self.covar_module(x))


torch.manual_seed(0)
n, t = 10, 4
x = torch.linspace(0, 1, n).unsqueeze(-1)
y = torch.sin(6 * x.squeeze(-1))
xt = torch.rand(t, 1)
fx, fy = torch.rand(2, 1), torch.rand(2)
noises = [0.05, 0.2, 0.8]

lik = gpytorch.likelihoods.GaussianLikelihood(batch_shape=torch.Size([3]))
lik.noise = torch.tensor(noises).unsqueeze(-1)
model = GP(x, y, lik).eval()
with torch.no_grad():
    post = model(xt)
print("prediction with a batch carried only by the noise:", tuple(post.mean.shape), tuple(post.covariance_matrix.shape))

refs = []
for s in noises:
    l = gpytorch.likelihoods.GaussianLikelihood()
    l.noise = torch.tensor([s])
    m = GP(x, y, l).eval()
    with torch.no_grad():
        m(xt)
        refs.append(m.get_fantasy_model(fx, fy)(xt).mean)
ref = torch.stack(refs)
print("reference fantasy means (three un-batched models):", tuple(ref.shape))

bad = False
try:
    with torch.no_grad():
        fmean = model.get_fantasy_model(fx, fy)(xt).mean
    err = (fmean - ref).abs().max().item()
    print("fantasy model mean", tuple(fmean.shape), "max |diff to reference| =", err)
    bad = tuple(fmean.shape) != tuple(ref.shape) or err > 1e-3
except Exception as e:
    last = traceback.extract_tb(e.__traceback__)[-1]
    print(f"PROBLEM: get_fantasy_model raised {type(e).__name__}: {str(e)[:120]} "
          f"(at {last.filename.split('/')[-1]}:{last.lineno})")
    bad = True

sys.exit(1 if bad else 0)
