# Concerns commit 515ed81 (HammingIMQKernel aligns alpha and beta with the trailing dimensions of the distances).
# REGRESSION (subclass overriding the touched method): _imq gained a `diag` parameter and forward now calls
# self._imq(dist, diag=True) on the diag branch.  A subclass written against the previous signature _imq(self, dist)
# (e.g. one that adds jitter / clamps the distances, un-batched, where the old formula was correct) worked before the
# commit and now raises TypeError for kernel(x1, x2, diag=True).
import sys
import torch
import torch.nn.functional as F
import gpytorch

V, T, n = 4, 5, 6
g = torch.Generator().manual_seed(0)


def one_hot(*shape):
    return F.one_hot(torch.randint(0, V, (*shape, T), generator=g), V).reshape(*shape, T * V).float()


class ClampedHammingIMQ(gpytorch.kernels.HammingIMQKernel):
    # old-style override: same signature as HammingIMQKernel._imq before 515ed81
    def _imq(self, dist):
        return super()._imq(dist.clamp_min(0.0))


k = ClampedHammingIMQ(vocab_size=V)
base = gpytorch.kernels.HammingIMQKernel(vocab_size=V)
x1, x2 = one_hot(n), one_hot(n)
bad = False
with torch.no_grad():
    full = k(x1, x2).to_dense()
    print("subclass full matrix:", tuple(full.shape), "max |diff to base kernel| =",
          (full - base(x1, x2).to_dense()).abs().max().item())
    try:
        d = k(x1, x2, diag=True)
        err = (d - full.diagonal()).abs().max().item()
        print("subclass diag:", tuple(d.shape), "max |diff to diagonal of full| =", err)
        bad = err > 1e-6
    except TypeError as e:
        print("PROBLEM: subclass with the pre-commit signature _imq(self, dist) raises on the diag branch:", e)
        bad = True

sys.exit(1 if bad else 0)
