# Concerns commit e5c7d4c (ExactGP prediction when only the targets or the likelihood carry a batch dimension).
# REGRESSION (behaviour change for an input the old code handled): an un-batched model whose training targets
# have a leading singleton dimension (train_y of shape 1 x n, shared inputs n x d).  Before the commit the
# predictive mean was re-shaped with the batch shape of the joint prior (torch.Size([])), so model(test_x) was an
# un-batched MultivariateNormal with mean of shape (t,), the same shape as the prior (prior_mode) and as the
# training-mode output.  The new code re-shapes with the mean's own leading shape, so the posterior silently
# becomes a batch distribution: batch_shape (1,), mean (1, t).
import sys
import torch
import gpytorch


class GP(gpytorch.models.ExactGP):
    def __init__(self, x, y, lik):
        super().__init__(x, y, lik)
        self.mean_module = gpytorch.means.ConstantMean()
        self.covar_module = gpytorch.kernels.ScaleKernel(gpytorch.kernels.RBFKernel())

    def forward(self, x):
        return gpytorch.distributions.MultivariateNormal(self.mean_module(x), self.covar_module(x))


torch.manual_seed(0)
n, t = 10, 4
x = torch.linspace(0, 1, n).unsqueeze(-1)
y = torch.sin(6 * x.squeeze(-1)).unsqueeze(0)  # 1 x n
xt = torch.rand(t, 1)

bad = False
for name, Model in (("single-task", GP),):
    model = Model(x, y, gpytorch.likelihoods.GaussianLikelihood()).eval()
    with torch.no_grad():
        post = model(xt)
        with gpytorch.settings.prior_mode(True):
            prior = model(xt)
    print(f"{name}: train_y {tuple(y.shape)}  prior batch_shape {tuple(prior.batch_shape)} mean {tuple(prior.mean.shape)}"
          f"  posterior batch_shape {tuple(post.batch_shape)} mean {tuple(post.mean.shape)}")
    # reference: same model with the targets given as a vector
    ref = Model(x, y[0], gpytorch.likelihoods.GaussianLikelihood()).eval()
    with torch.no_grad():
        ref_post = ref(xt)
    print(f"   reference (train_y {tuple(y[0].shape)}): batch_shape {tuple(ref_post.batch_shape)} mean {tuple(ref_post.mean.shape)}")
    if tuple(post.batch_shape) != () or tuple(post.mean.shape) != (t,):
        print("   PROBLEM: posterior is not the un-batched distribution the code before e5c7d4c returned "
              "(expected batch_shape (), mean (4,))")
        bad = True
    else:
        print("   ok: same shapes as before the commit, max |mean - ref| =", (post.mean - ref_post.mean).abs().max().item())

sys.exit(1 if bad else 0)
