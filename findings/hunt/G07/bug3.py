"""
C07 / bug 3: an SGPR model (ExactGP + InducingPointKernel) cannot hand out its posterior covariance at the training
inputs when `gpytorch.settings.sgpr_diagonal_correction(False)` is active: SGPRPredictionStrategy.exact_predictive_covar
raises "ValueError: Expected SGPR output to be a MatmulLinearOperator or AddedDiagLinearOperator. Got
LowRankRootLinearOperator instead. This is likely a bug in GPyTorch."

Both ingredients are valid and documented: the setting is a public feature flag ("diagonal correction on and off"), and
evaluating the posterior at the training inputs is the most common sanity check.  With the correction switched on, or
at any other test inputs (e.g. the training inputs shifted by 1e-12), the same model returns a valid covariance.

Reference: the dense SGPR (DTC) predictive covariance  K** - Q*x (Qxx + s2 I)^-1 Qx*  in float64, which the model
reproduces to 1e-9 at the shifted inputs.
"""
import sys
import warnings

import torch

import gpytorch
from gpytorch.kernels import InducingPointKernel, RBFKernel, ScaleKernel

warnings.simplefilter("ignore")
torch.manual_seed(0)
dtype = torch.float64


class SGPR(gpytorch.models.ExactGP):
    def __init__(self, x, y, lik, base, z):
        super().__init__(x, y, lik)
        self.mean_module = gpytorch.means.ZeroMean()
        self.covar_module = InducingPointKernel(base, inducing_points=z, likelihood=lik)

    def forward(self, x):
        return gpytorch.distributions.MultivariateNormal(self.mean_module(x), self.covar_module(x))


x = torch.rand(30, 2, dtype=dtype)
y = torch.sin(3 * x.sum(-1))
z = torch.rand(6, 2, dtype=dtype)
lik = gpytorch.likelihoods.GaussianLikelihood().double()
lik.noise = 1e-2
base = ScaleKernel(RBFKernel()).double()
base.base_kernel.lengthscale = 0.3


def dense_dtc(xs):
    Kuu = base(z).to_dense()
    Kux = base(z, x).to_dense()
    Kus = base(z, xs).to_dense()
    Qxx = Kux.mT @ torch.linalg.solve(Kuu, Kux)
    Qsx = Kus.mT @ torch.linalg.solve(Kuu, Kux)
    A = Qxx + lik.noise.item() * torch.eye(len(x), dtype=dtype)
    return base(xs).to_dense() - Qsx @ torch.linalg.solve(A, Qsx.mT)


def posterior_cov(xs, correction):
    model = SGPR(x, y, lik, base, z.clone()).double()
    model.eval()
    with torch.no_grad(), gpytorch.settings.sgpr_diagonal_correction(correction):
        return model(xs).covariance_matrix


violation = False
with torch.no_grad():
    ref = dense_dtc(x)
    C_shift = posterior_cov(x + 1e-12, correction=False)
    print(f"correction off, training inputs + 1e-12 : ok, max |C - dense DTC| = {(C_shift - ref).abs().max().item():.2e}, "
          f"min eig = {torch.linalg.eigvalsh((C_shift + C_shift.mT) / 2).min().item():.2e}")
    C_on = posterior_cov(x, correction=True)
    print(f"correction on,  training inputs         : ok, min eig = "
          f"{torch.linalg.eigvalsh((C_on + C_on.mT) / 2).min().item():.2e}")
    try:
        C = posterior_cov(x, correction=False)
        print(f"correction off, training inputs         : ok, max |C - dense DTC| = {(C - ref).abs().max().item():.2e}")
    except Exception as e:  # noqa
        print(f"correction off, training inputs         : {type(e).__name__}: {e}")
        violation = True

if violation:
    print("VIOLATION: no posterior covariance at the training inputs for SGPR with sgpr_diagonal_correction(False)")
    sys.exit(1)
print("ok")
sys.exit(0)
