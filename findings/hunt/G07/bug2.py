"""
C07 / bug 2: the lower bound of FixedNoiseGaussianLikelihood (settings.min_fixed_noise, 1e-6 in float64 / 1e-4 in
float32) is only enforced by the constructor.  Assigning the documented `noise` attribute afterwards
(`likelihood.noise = new_noise`, FixedNoiseGaussianLikelihood.noise.setter -> FixedGaussianNoise.initialize) stores the
tensor as it is: zero, sub-minimum and negative entries survive, no warning is raised, and the marginal p(y) that the
likelihood hands out has a covariance with diagonal entries below prior-variance + min_fixed_noise (even negative ones,
i.e. a non-PSD "covariance").

Reference: the same values passed through the constructor (the documented behaviour: "If the supplied noise values are
smaller than this, they are rounded up and a warning is raised").
"""
import sys
import warnings

import torch

import gpytorch
from gpytorch.distributions import MultivariateNormal
from gpytorch.likelihoods import FixedNoiseGaussianLikelihood

torch.manual_seed(0)
dtype = torch.float64
min_noise = gpytorch.settings.min_fixed_noise.value(dtype)  # 1e-6
new_noise = torch.tensor([0.0, 1e-9, -0.25, 0.1], dtype=dtype)

# reference: constructor
with warnings.catch_warnings(record=True) as w_ctor:
    warnings.simplefilter("always")
    ref = FixedNoiseGaussianLikelihood(noise=new_noise.clone())
# under test: setter
lik = FixedNoiseGaussianLikelihood(noise=torch.full((4,), 0.1, dtype=dtype))
with warnings.catch_warnings(record=True) as w_set:
    warnings.simplefilter("always")
    lik.noise = new_noise.clone()

print(f"min_fixed_noise({dtype}) = {min_noise}")
print("noise via constructor :", ref.noise.tolist(), f"({len(w_ctor)} warning(s))")
print("noise via setter      :", lik.noise.tolist(), f"({len(w_set)} warning(s))")

f = MultivariateNormal(torch.zeros(4, dtype=dtype), 0.2 * torch.eye(4, dtype=dtype))  # latent f with variance 0.2
with warnings.catch_warnings():
    warnings.simplefilter("ignore")
    cov_ref = ref(f).covariance_matrix
    cov = lik(f).covariance_matrix
added = cov.diagonal() - 0.2
print("noise added to p(y), constructor :", (cov_ref.diagonal() - 0.2).tolist())
print("noise added to p(y), setter      :", added.tolist())
print("min eigenvalue of p(y) covariance, setter:", torch.linalg.eigvalsh(cov).min().item())
shortfall = (min_noise - added).max().item()
shortfall_nonneg = (min_noise - added)[new_noise >= 0].max().item()  # zero / tiny entries only
print(f"largest shortfall below the lower bound: {shortfall:.3e} (zero / tiny entries only: {shortfall_nonneg:.3e})")

# secondary observation: the bound is per dtype, but a cast does not re-apply it
cast = FixedNoiseGaussianLikelihood(noise=torch.full((3,), 1e-6, dtype=torch.float64)).float()
print(f"after .float(): noise {cast.noise.tolist()} (min_fixed_noise(float32) = "
      f"{gpytorch.settings.min_fixed_noise.value(torch.float32)})")

if shortfall_nonneg > 1e-9 or shortfall > 1e-9:
    print("VIOLATION: FixedNoiseGaussianLikelihood adds less than its lower bound (min_fixed_noise) after `noise` was set")
    sys.exit(1)
print("ok")
sys.exit(0)
