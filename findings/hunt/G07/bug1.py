"""
C07 / bug 1: SGPR (InducingPointKernel + ExactGP) returns a predictive covariance in float32 (the default dtype of
torch and of every GPyTorch example) that is far from positive semi-definite and far from the SGPR posterior, without
any exception: eigenvalues of order -0.1 ... -1 for a prior variance of 0.69, and the variances that would be negative
are silently clamped to min_variance.

Reference values:
  (a) the textbook SGPR/FITC predictive covariance  K** - Q*x (Qxx + D + s2 I)^-1 Qx*  evaluated densely in float64;
  (b) the same quantity evaluated in *float32* with the numerically stable form
          Q*x (Qxx + s2 I)^-1 Qx* = R*^T [ I - (I + R D^-1 R^T)^-1 ] R*       (R = Kuu^{-1/2} Kux)
      which shows that float32 is perfectly sufficient for this problem (error ~1e-6) - the large error is produced by
      the cancellation-prone Woodbury assembly in SGPRPredictionStrategy.covar_cache, not by the dtype.
The configuration is entirely standard: 500 training points in [0,1]^2, 50 inducing points, RBF kernel,
GaussianLikelihood with its default constraint, noise = 1e-3 (and 1e-4, the default lower bound).
"""
import sys
import warnings

import torch

import gpytorch
from gpytorch.kernels import InducingPointKernel, RBFKernel, ScaleKernel

warnings.simplefilter("ignore")


class SGPR(gpytorch.models.ExactGP):
    def __init__(self, x, y, lik, base, z):
        super().__init__(x, y, lik)
        self.mean_module = gpytorch.means.ZeroMean()
        self.covar_module = InducingPointKernel(base, inducing_points=z, likelihood=lik)

    def forward(self, x):
        return gpytorch.distributions.MultivariateNormal(self.mean_module(x), self.covar_module(x))


def dense_reference(base, x, z, xs, noise, dtype):
    """FITC-corrected SGPR predictive covariance, stable formulation, evaluated in `dtype`."""
    base = base.to(dtype)
    x, z, xs = x.to(dtype), z.to(dtype), xs.to(dtype)
    Kuu = base(z).to_dense()
    L = torch.linalg.cholesky(Kuu + 1e-6 * torch.eye(len(z), dtype=dtype))  # (SGPR itself uses psd_safe_cholesky)
    R = torch.linalg.solve_triangular(L, base(z, x).to_dense(), upper=False)  # m x n
    Rs = torch.linalg.solve_triangular(L, base(z, xs).to_dense(), upper=False)  # m x t
    d = (base(x, diag=True) - R.pow(2).sum(0)).clamp_min(0) + noise  # diagonal correction + noise
    inner = torch.eye(len(z), dtype=dtype) + (R / d) @ R.mT  # I + R D^-1 R^T
    cache = torch.eye(len(z), dtype=dtype) - torch.linalg.inv(inner)  # = R (R^T R + D)^-1 R^T, no cancellation of O(1/s2)
    return base(xs).to_dense() - Rs.mT @ cache @ Rs


def run(noise):
    torch.manual_seed(1)
    dtype = torch.float32
    n, m = 500, 50
    x = torch.rand(n, 2, dtype=dtype)
    y = torch.sin(3 * x.sum(-1))
    z = torch.rand(m, 2, dtype=dtype)
    xs = torch.rand(15, 2, dtype=dtype)

    lik = gpytorch.likelihoods.GaussianLikelihood()  # default constraint GreaterThan(1e-4)
    lik.noise = noise
    base = ScaleKernel(RBFKernel())
    base.base_kernel.lengthscale = 0.3
    model = SGPR(x, y, lik, base, z.clone())
    model.eval()
    with torch.no_grad():
        pred = model(xs)
        C = pred.covariance_matrix
        var = pred.variance
        s2 = lik.noise.item()
        ref32 = dense_reference(base, x, z, xs, s2, torch.float32)
        ref64 = dense_reference(base, x, z, xs, s2, torch.float64)
        base.float()

    C64 = C.double()
    eig = torch.linalg.eigvalsh((C64 + C64.mT) / 2)
    eig_ref32 = torch.linalg.eigvalsh(((ref32 + ref32.mT) / 2).double())
    err = (C64 - ref64).abs().max().item()
    err_ref32 = (ref32.double() - ref64).abs().max().item()
    print(f"noise = {s2:.1e}   (prior variance = {base.outputscale.item():.3f}, dtype = float32)")
    print(f"  GPyTorch SGPR  : min eigenvalue of predictive covariance = {eig.min().item():+.3e}")
    print(f"                   max |C - C_ref(float64)|               = {err:.3e}")
    print(f"                   min reported variance                   = {var.min().item():.3e}"
          f"   (reference min variance {ref64.diagonal().min().item():.3e})")
    print(f"  stable float32 : min eigenvalue                          = {eig_ref32.min().item():+.3e}")
    print(f"                   max |C_ref(float32) - C_ref(float64)|   = {err_ref32:.3e}")
    # violation: a clearly negative eigenvalue / an error 1000x above what float32 delivers for the same formula
    return eig.min().item() < -1e-2 and err > 1e3 * max(err_ref32, 1e-7)


bad = [run(1e-3), run(1e-4)]
if any(bad):
    print("VIOLATION: SGPR predictive covariance in float32 is not PSD / not the SGPR posterior covariance")
    sys.exit(1)
print("ok")
sys.exit(0)
