import torch, gpytorch, math, warnings
warnings.filterwarnings("ignore")
torch.manual_seed(0)
torch.set_default_dtype(torch.float64)
from gpytorch.kernels import RBFKernel, ScaleKernel, InducingPointKernel, GridInterpolationKernel, RFFKernel

def make(kind):
    torch.manual_seed(0)
    X = torch.rand(12, 1); y = torch.sin(6*X[:,0]) + 0.1*torch.randn(12)
    lik = gpytorch.likelihoods.GaussianLikelihood()
    class M(gpytorch.models.ExactGP):
        def __init__(s):
            super().__init__(X, y, lik)
            s.mean_module = gpytorch.means.ConstantMean()
            if kind == "plain":
                s.covar_module = ScaleKernel(RBFKernel())
            elif kind == "sgpr":
                s.covar_module = InducingPointKernel(ScaleKernel(RBFKernel()), torch.linspace(0,1,5).unsqueeze(-1), lik)
            elif kind == "kiss":
                s.covar_module = ScaleKernel(GridInterpolationKernel(RBFKernel(), grid_size=16, grid_bounds=[(-0.1,1.1)]))
            elif kind == "rff":
                s.covar_module = ScaleKernel(RFFKernel(num_samples=8, num_dims=1))
        def forward(s, x):
            return gpytorch.distributions.MultivariateNormal(s.mean_module(x), s.covar_module(x))
    return M()

xs = torch.linspace(0,1,5).unsqueeze(-1)
for kind in ["plain","sgpr","kiss","rff"]:
    for fpv in [False, True]:
        for what in ["mean","var"]:
            m = make(kind); m.eval()
            try:
                with gpytorch.settings.detach_test_caches(False), gpytorch.settings.fast_pred_var(fpv):
                    for i in range(3):
                        p = m(xs + 0.01*i)
                        (p.mean.sum() if what=="mean" else p.variance.sum()).backward()
                print(kind, fpv, what, "ok")
            except Exception as e:
                print(kind, fpv, what, "FAIL at", i, type(e).__name__, str(e)[:80])
