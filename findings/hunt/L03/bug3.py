"""C03 / bug 3: KISS-GP fantasy model - whether a prediction under fast_pred_samples succeeds depends on earlier predictions.

A fantasy model of a GridInterpolationKernel exact GP uses InterpolatedPredictionStrategy(uses_wiski=True).  Its
`fantasy_covar_cache` (exact_prediction_strategies.py, ~l.599-607) has two branches selected by settings.fast_pred_var,
read INSIDE the function that is memoised by name only:
  * fast_pred_var on : works
  * fast_pred_var off: `current_qmatrix.solve(inducing_compression_matrix.transpose(-1, -2))` is handed a
    MatmulLinearOperator as right-hand side -> NotImplementedError (torch.linalg.solve_triangular(Tensor, MatmulLinearOperator)).
The second branch is reached by a prediction under fast_pred_samples(True) alone.  So
  history A:  fantasy -> predict(fast_pred_samples)                                        raises
  history B:  fantasy -> predict(fast_pred_var + fast_pred_samples) -> predict(fast_pred_samples)   works (stale memo is reused)
while a freshly constructed model holding the same parameters and the n+m training points predicts under
fast_pred_samples without any problem.
"""
import sys
import warnings

import torch

import gpytorch
from gpytorch.kernels import GridInterpolationKernel, RBFKernel, ScaleKernel

warnings.filterwarnings("ignore")
torch.set_default_dtype(torch.float64)
torch.manual_seed(0)

X = torch.rand(20, 1)
y = torch.sin(6 * X[:, 0]) + 0.1 * torch.randn(20)
xs = torch.linspace(0.05, 0.95, 4).unsqueeze(-1)
xf = torch.tensor([[0.31], [0.72]])
yf = torch.tensor([0.4, -0.3])


class KissGP(gpytorch.models.ExactGP):
    def __init__(self, X, y):
        super().__init__(X, y, gpytorch.likelihoods.GaussianLikelihood())
        self.mean_module = gpytorch.means.ConstantMean()
        self.covar_module = ScaleKernel(GridInterpolationKernel(RBFKernel(), grid_size=24, grid_bounds=[(-0.1, 1.1)]))

    def forward(self, x):
        return gpytorch.distributions.MultivariateNormal(self.mean_module(x), self.covar_module(x))


def fantasy_model():
    m = KissGP(X, y).eval()
    with torch.no_grad():
        m(xs)
        return m.get_fantasy_model(xf, yf)


def predict(model, fpv, fps):
    with torch.no_grad(), gpytorch.settings.fast_pred_var(fpv), gpytorch.settings.fast_pred_samples(fps):
        out = model(xs)
        return out.mean, out.covariance_matrix


# reference: fresh model, same parameters, n+m data, fast_pred_samples only
fm = fantasy_model()
fresh = KissGP(torch.cat([X, xf]), torch.cat([y, yf])).eval()
fresh.load_state_dict(fm.state_dict())
ref_mean, ref_covar = predict(fresh, fpv=False, fps=True)
print("fresh model under fast_pred_samples: ok, variance", ref_covar.diagonal().tolist())

# history A
try:
    mean_a, covar_a = predict(fm, fpv=False, fps=True)
    res_a = "ok"
except Exception as e:  # noqa
    res_a = "RAISES %s: %s" % (type(e).__name__, str(e)[:80])
print("history A  fantasy -> predict(fps):                       ", res_a)

# history B
fm = fantasy_model()
predict(fm, fpv=True, fps=True)
try:
    mean_b, covar_b = predict(fm, fpv=False, fps=True)
    res_b = "ok, |mean - fresh| = %.2e, |covar - fresh| = %.2e" % (
        (mean_b - ref_mean).abs().max().item(),
        (covar_b - ref_covar).abs().max().item(),
    )
except Exception as e:  # noqa
    res_b = "RAISES %s: %s" % (type(e).__name__, str(e)[:80])
print("history B  fantasy -> predict(fpv+fps) -> predict(fps):   ", res_b)

violation = res_a.startswith("RAISES") and res_b.startswith("ok")
print("VIOLATION (same model state, same call, outcome depends on history; fresh model works)" if violation else "no violation")
sys.exit(1 if violation else 0)
