"""C03 / bug 1: a fantasy model's predictive covariance follows the LATER training of its parent model.

ExactGP.get_fantasy_model hands the joint prior `full_output` (computed with the parent's modules) to
DefaultPredictionStrategy.get_fantasy_strategy, which stores it as the new strategy's `train_prior_dist`.  Its covariance is a
LazyEvaluatedKernelTensor bound to the PARENT's covar_module and it is only evaluated at the first (non fast_pred_var)
prediction of the fantasy model.  If the parent is trained in between (train() + optimiser steps, or load_state_dict), the
fantasy model - whose own parameters and data did not change - silently uses the parent's new hyper-parameters for
K(X,X) and its own (old) ones for K(X*,X), K(X*,X*).
Reference: a freshly constructed model with the fantasy model's state_dict and the n+m training points.
"""
import sys
import warnings

import torch

import gpytorch
from gpytorch.kernels import RBFKernel, ScaleKernel

warnings.filterwarnings("ignore")
torch.set_default_dtype(torch.float64)
torch.manual_seed(0)


class GP(gpytorch.models.ExactGP):
    def __init__(self, X, y):
        super().__init__(X, y, gpytorch.likelihoods.GaussianLikelihood())
        self.mean_module = gpytorch.means.ConstantMean()
        self.covar_module = ScaleKernel(RBFKernel())

    def forward(self, x):
        return gpytorch.distributions.MultivariateNormal(self.mean_module(x), self.covar_module(x))


X = torch.rand(10, 1)
y = torch.sin(6 * X[:, 0]) + 0.05 * torch.randn(10)
xs = torch.linspace(0, 1, 4).unsqueeze(-1)
xf = torch.tensor([[0.33], [0.77]])
yf = torch.tensor([0.5, -0.2])


def make_parent():
    m = GP(X, y)
    m.covar_module.base_kernel.lengthscale = 0.3
    m.eval()
    return m


def fresh_reference(fm):
    ref = GP(torch.cat([X, xf]), torch.cat([y, yf]))
    ref.load_state_dict({k: v.clone() for k, v in fm.state_dict().items()})
    ref.eval()
    with torch.no_grad():
        return ref(xs)


def train_parent(m):
    m.train()
    opt = torch.optim.Adam(m.parameters(), lr=0.1)
    mll = gpytorch.mlls.ExactMarginalLogLikelihood(m.likelihood, m)
    for _ in range(20):
        opt.zero_grad()
        loss = -mll(m(X), y)
        loss.backward()
        opt.step()
    m.eval()


def scenario(train_the_parent, fast_pred_var=False):
    m = make_parent()
    with torch.no_grad():
        m(xs)
        fm = m.get_fantasy_model(xf, yf)
    before = {k: v.clone() for k, v in fm.state_dict().items()}
    if train_the_parent:
        train_parent(m)
    after = fm.state_dict()
    assert all(torch.equal(before[k], after[k]) for k in before), "the fantasy model's own parameters changed"
    with torch.no_grad(), gpytorch.settings.fast_pred_var(fast_pred_var):
        p = fm(xs)
        q = fresh_reference(fm)
        return (p.mean - q.mean).abs().max().item(), (p.covariance_matrix - q.covariance_matrix).abs().max().item(), p, q


dm0, dc0, _, _ = scenario(train_the_parent=False)
print("control (parent untouched):   |mean - fresh| = %.2e   |covar - fresh| = %.2e" % (dm0, dc0))
dm1, dc1, p, q = scenario(train_the_parent=True)
print("parent trained after fantasy: |mean - fresh| = %.2e   |covar - fresh| = %.2e" % (dm1, dc1))
print("   fantasy model variance:", p.variance.tolist())
print("   fresh model variance:  ", q.variance.tolist())
dm2, dc2, _, _ = scenario(train_the_parent=True, fast_pred_var=True)
print("same under fast_pred_var (carried covar_cache, not affected): |covar - fresh| = %.2e" % dc2)

violation = dc0 < 1e-8 and dc1 > 1e-3
print("VIOLATION" if violation else "no violation")
sys.exit(1 if violation else 0)
