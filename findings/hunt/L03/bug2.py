"""C03 / bug 2: exact GP (default kernel, DefaultPredictionStrategy), non-detached predictions under fast_pred_var:
eval() -> predict -> backward -> predict -> backward raises "Trying to backward through the graph a second time".

Under detach_test_caches(False) the prediction caches keep their autograd graph and DefaultPredictionStrategy registers
clear_cache_hook on them so that a backward pass (which frees that graph) drops the strategy's memo.  But the hook only
resets the strategy's own `_memoize_cache`.  `self.lik_train_train_covar` - built ONCE in DefaultPredictionStrategy.__init__
(with the graph of the noise / kernel hyper-parameters, and carrying its own memo of `cholesky` / `root_inv_decomposition`) -
survives, and the fast_pred_var `covar_cache` is recomputed from it.  The second differentiated prediction therefore runs
through the already freed graph.  A fresh model (or the same model after train(); eval()) has no such problem, and neither has
the non fast_pred_var path (it rebuilds the train-train covariance from the likelihood at every call).
Reference: a freshly constructed model with the same state_dict - it returns finite gradients for the second prediction.
"""
import sys
import warnings

import torch

import gpytorch
from gpytorch.kernels import RBFKernel, ScaleKernel

warnings.filterwarnings("ignore")
torch.set_default_dtype(torch.float64)
torch.manual_seed(0)

X = torch.rand(12, 1)
y = torch.sin(6 * X[:, 0]) + 0.1 * torch.randn(12)
x1 = torch.linspace(0, 1, 5).unsqueeze(-1)
x2 = x1 + 0.013


class GP(gpytorch.models.ExactGP):
    def __init__(self):
        super().__init__(X, y, gpytorch.likelihoods.GaussianLikelihood())
        self.mean_module = gpytorch.means.ConstantMean()
        self.covar_module = ScaleKernel(RBFKernel())

    def forward(self, x):
        return gpytorch.distributions.MultivariateNormal(self.mean_module(x), self.covar_module(x))


def grads(model, x):
    model.zero_grad()
    model(x).variance.sum().backward()
    return {n: p.grad.clone() for n, p in model.named_parameters() if p.grad is not None}


def run(fast_pred_var):
    model = GP().eval()
    with gpytorch.settings.detach_test_caches(False), gpytorch.settings.fast_pred_var(fast_pred_var):
        grads(model, x1)  # first prediction + backward: fine
        fresh = GP().eval()
        fresh.load_state_dict(model.state_dict())
        g_ref = grads(fresh, x2)  # what a history-free model returns for the second prediction
        try:
            g = grads(model, x2)  # second prediction + backward on the model with history
        except RuntimeError as e:
            return "RAISES: " + str(e)[:70], g_ref
        err = max((g[n] - g_ref[n]).abs().max().item() for n in g_ref)
        return "ok, max |grad - grad_fresh| = %.2e" % err, g_ref


res_slow, _ = run(fast_pred_var=False)
print("detach_test_caches(False), fast_pred_var(False): second backward", res_slow)
res_fast, g_ref = run(fast_pred_var=True)
print("detach_test_caches(False), fast_pred_var(True):  second backward", res_fast)
print("   gradients of the fresh model for the same (second) prediction:")
for n, g in g_ref.items():
    print("     %-45s %s" % (n, g.flatten().tolist()))

violation = res_fast.startswith("RAISES") and "second time" in res_fast
print("VIOLATION" if violation else "no violation")
sys.exit(1 if violation else 0)
