"""C03 / extra (same family as the recorded variational_cholesky_jitter / sgpr_diagonal_correction items, but for the
default exact GP): mean_cache / covar_cache of DefaultPredictionStrategy are memoised by name, while the solver that fills
them is selected by settings read inside (max_cholesky_size, max_root_decomposition_size, eval_cg_tolerance, ...).
One prediction under coarse solver settings, then a prediction under the DEFAULT settings (n = 40 <= max_cholesky_size, i.e.
an exact Cholesky solve for a fresh model) still returns the coarse result.
"""
import sys
import warnings

import torch

import gpytorch
from gpytorch.kernels import RBFKernel, ScaleKernel

warnings.filterwarnings("ignore")
torch.set_default_dtype(torch.float64)
torch.manual_seed(0)
S = gpytorch.settings
X = torch.rand(40, 1)
y = torch.sin(6 * X[:, 0]) + 0.05 * torch.randn(40)
xs = torch.linspace(0, 1, 5).unsqueeze(-1)


class GP(gpytorch.models.ExactGP):
    def __init__(self):
        super().__init__(X, y, gpytorch.likelihoods.GaussianLikelihood())
        self.mean_module = gpytorch.means.ConstantMean()
        self.covar_module = ScaleKernel(RBFKernel())
        self.likelihood.noise = 1e-3
        self.covar_module.base_kernel.lengthscale = 0.2

    def forward(self, x):
        return gpytorch.distributions.MultivariateNormal(self.mean_module(x), self.covar_module(x))


with torch.no_grad():
    fresh = GP().eval()
    # (a) mean cache filled by a loose CG solve
    m = GP().eval()
    with S.max_cholesky_size(0), S.eval_cg_tolerance(50.0), S.max_preconditioner_size(0):
        m(xs).mean
    d_mean = (m(xs).mean - fresh(xs).mean).abs().max().item()
    print("(a) after one call under max_cholesky_size(0)+eval_cg_tolerance(50): default-settings |mean - fresh| = %.2e" % d_mean)
    # (b) fast_pred_var covariance cache filled by a rank-3 Lanczos decomposition
    m = GP().eval()
    with S.fast_pred_var(True):
        with S.max_cholesky_size(0), S.max_root_decomposition_size(3):
            m(xs).variance
        v, v_ref = m(xs).variance, GP().eval()(xs).variance
    d_var = (v - v_ref).abs().max().item()
    print("(b) after one call under max_cholesky_size(0)+max_root_decomposition_size(3): fast_pred_var variance")
    print("    model:", v.tolist())
    print("    fresh:", v_ref.tolist(), " max diff %.2e" % d_var)
violation = d_mean > 1e-4 and d_var > 1e-2
print("VIOLATION" if violation else "no violation")
sys.exit(1 if violation else 0)
