import torch, gpytorch, warnings
warnings.filterwarnings("ignore")
from gpytorch.kernels import RBFKernel, ScaleKernel
torch.manual_seed(0)
X = torch.rand(10, 1); y = torch.sin(6*X[:,0]) + 0.05*torch.randn(10)
class M(gpytorch.models.ExactGP):
    def __init__(s, X, y):
        super().__init__(X, y, gpytorch.likelihoods.GaussianLikelihood())
        s.mean_module = gpytorch.means.ConstantMean()
        s.covar_module = ScaleKernel(RBFKernel())
    def forward(s, x):
        return gpytorch.distributions.MultivariateNormal(s.mean_module(x), s.covar_module(x))
m = M(X, y); m.eval()
xs = torch.linspace(0,1,4).unsqueeze(-1)
with torch.no_grad():
    for fpv in [False, True]:
        m = M(X, y); m.eval()
        with gpytorch.settings.fast_pred_var(fpv):
            p = m(xs); p.covariance_matrix
            m.double()
            f = M(X, y); f.double(); f.eval()
            try:
                p2 = m(xs.double()); q = f(xs.double())
                print(fpv, p2.mean.dtype, (p2.mean-q.mean).abs().max().item(), (p2.covariance_matrix-q.covariance_matrix).abs().max().item())
            except Exception as e:
                print(fpv, "ERR", type(e).__name__, str(e)[:100])
