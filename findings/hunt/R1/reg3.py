# Incomplete repair, commit 3680719 ("dist() shifts both inputs by a common offset before torch.cdist").
#
# The shift only helps when the data are far from the origin but tightly clustered.  As soon as more than 25 rows
# are involved torch.cdist still uses |a|^2 + |b|^2 - 2ab, so for data whose SPREAD is large (time stamps 0..1e4,
# un-normalised features) the distances between close points of x1 and x2 still lose all their digits in float32:
# 0.25 comes back as 1.0 or as 0 (clamped to 1e-15).  (The code before the commit was equally wrong here; an exact
# evaluation - torch.cdist(..., compute_mode="donot_use_mm_for_euclid_dist") - gives 0.25.)
import sys
import warnings

warnings.simplefilter("ignore")
import torch
import gpytorch
from gpytorch.kernels.kernel import dist

x1 = torch.linspace(0, 10000, 30).unsqueeze(-1)  # 30 training inputs
x2 = x1[-5:] + 0.25  # 5 test inputs, each 0.25 away from a training input
ref = torch.cdist(x1.double(), x2.double())
new = dist(x1, x2)
exact32 = torch.cdist(x1, x2, compute_mode="donot_use_mm_for_euclid_dist")
d_new = new[-5:].diagonal()
d_ref = ref[-5:].diagonal()
print("distances that should be 0.25, current dist():          ", d_new.tolist())
print("distances that should be 0.25, exact float32 evaluation: ", exact32[-5:].diagonal().tolist())
rel = ((d_new.double() - d_ref).abs() / d_ref).max().item()
print("max relative error of the close-pair distances: %.3e" % rel)

k32 = gpytorch.kernels.PiecewisePolynomialKernel(q=2)
k64 = gpytorch.kernels.PiecewisePolynomialKernel(q=2).double()
with torch.no_grad():
    err = (k32(x1, x2).to_dense().double() - k64(x1.double(), x2.double()).to_dense()).abs().max().item()
print("PiecewisePolynomialKernel: max |K_float32(x1, x2) - K_float64(x1, x2)| = %.3e" % err)

if rel > 1e-2 or err > 1e-2:
    print("PROBLEM PRESENT: dist() still loses the digits of close-pair distances for wide-spread inputs (> 25 rows)")
    sys.exit(1)
print("ok")
sys.exit(0)
