# Incomplete repair, commit 1e6aa01 ("rsample re-shapes the caller's base samples with reshape and keeps their own
# trailing size").
#
# The commit makes base samples of the documented shape `*sample_shape x *batch_shape x N` work when the covariance
# root is NARROWER than the event size.  The sibling case - a root WIDER than the event size (RootLinearOperator with
# more columns than rows, e.g. an evaluated LinearKernel prior with more features than points) - still fails for
# base samples of the documented shape: the code transposes the root ("covar_root.shape[-1] > base_samples.shape[-2]")
# and the product no longer matches the mean.  Only samples of trailing size root.shape[-1] (base_sample_shape) work.
# (The code before the commit failed for this input as well, in .view.)
import sys
import warnings

warnings.simplefilter("ignore")
import torch
import gpytorch
from gpytorch.distributions import MultivariateNormal
from linear_operator.operators import RootLinearOperator

torch.manual_seed(0)
bad = False


def attempt(label, mvn, base_samples):
    global bad
    try:
        res = mvn.rsample(base_samples=base_samples)
        print("%s: ok, samples of shape %s" % (label, tuple(res.shape)))
    except Exception as e:
        print("%s: %s: %s" % (label, type(e).__name__, str(e)[:120]))
        bad = True


R = torch.randn(3, 5)
mvn = MultivariateNormal(torch.zeros(3), RootLinearOperator(R))
print("event shape", tuple(mvn.event_shape), " root", tuple(mvn.lazy_covariance_matrix.root_decomposition().root.shape))
attempt("RootLinearOperator 3x5, base samples 4 x 3 (documented shape)", mvn, torch.randn(4, 3))
attempt("RootLinearOperator 3x5, base samples 3 (documented shape, no sample dims)", mvn, torch.randn(3))

x = torch.randn(3, 5)
covar = gpytorch.kernels.LinearKernel()(x).evaluate_kernel()
mvn = MultivariateNormal(torch.zeros(3), covar)
print("LinearKernel prior:", type(covar).__name__)
attempt("evaluated LinearKernel prior (3 points, 5 features), base samples 4 x 3", mvn, torch.randn(4, 3))

if bad:
    print("PROBLEM PRESENT: base samples of the documented shape are rejected when the root is wider than the event")
    sys.exit(1)
print("ok")
sys.exit(0)
