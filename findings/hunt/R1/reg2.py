# Regression check for commit 3680719 ("dist() shifts both inputs by a common offset before torch.cdist").
#
# The common offset is x1.mean(-2).  A single non-finite row in x1 (a NaN "missing" row, an inf padding row) makes
# the offset NaN, and then EVERY entry of dist(x1, x2) - and of the cross-covariance built from it - is NaN.
# Before the commit torch.cdist(x1, x2) confined the NaN / inf to the affected row.  The same holds per batch member.
import sys
import warnings

warnings.simplefilter("ignore")
import torch
import gpytorch
from gpytorch.kernels.kernel import dist

torch.manual_seed(0)
bad = False
x2 = torch.randn(3, 2)
for label, val in [("nan", float("nan")), ("inf", float("inf"))]:
    x1 = torch.randn(5, 2)
    x1[0] = val
    plain = torch.cdist(x1, x2)  # behaviour before the commit
    new = dist(x1, x2)
    print("row 0 of x1 = %s" % label)
    print("  finite entries in rows 1..4, plain torch.cdist (old): %d / 12" % torch.isfinite(plain[1:]).sum().item())
    print("  finite entries in rows 1..4, current dist():         %d / 12" % torch.isfinite(new[1:]).sum().item())
    if torch.isfinite(plain[1:]).all() and not torch.isfinite(new[1:]).all():
        bad = True
    k = gpytorch.kernels.PiecewisePolynomialKernel(q=1)
    with torch.no_grad():
        c = k(x1, x2).to_dense()
    print("  PiecewisePolynomialKernel(x1, x2) rows 1..4 finite: %s" % bool(torch.isfinite(c[1:]).all()))
    if not torch.isfinite(c[1:]).all():
        bad = True

if bad:
    print("PROBLEM PRESENT: one non-finite row of x1 turns the whole cross-distance matrix into NaN (row-local before)")
    sys.exit(1)
print("ok")
sys.exit(0)
