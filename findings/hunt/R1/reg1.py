# Regression check for commit 3680719 ("dist() shifts both inputs by a common offset before torch.cdist").
#
# dist(x1, x2) (x1 != x2) now subtracts mean(x1) from both inputs before torch.cdist.  For small inputs
# (<= 25 rows each) torch.cdist takes exact differences x1_i - x2_j, so the old code returned distances with full
# float32 relative accuracy.  The shift rounds every coordinate to ulp(|x - mean(x1)|): if one feature spans a wide
# dynamic range (un-normalised data, one far-away point / outlier) the distances between close points lose all
# their digits (they collapse to 0 -> clamp 1e-15), and the cross-covariances of PiecewisePolynomialKernel,
# CosineKernel, PeriodicKernel, Matern52KernelGrad change by O(1).  The code before the commit was exact here.
import sys
import warnings

warnings.simplefilter("ignore")
import torch
import gpytorch
from gpytorch.kernels.kernel import dist

torch.manual_seed(0)
bad = False

# one feature with a wide dynamic range, 6 training points, 2 test points close to the small ones
x1 = torch.tensor([[0.001], [0.002], [0.005], [0.01], [1000.0], [20000.0]])
x2 = torch.tensor([[0.003], [0.007]])
ref = torch.cdist(x1.double(), x2.double())
plain = torch.cdist(x1, x2)  # what dist() returned before the commit
new = dist(x1, x2)
rel_plain = ((plain.double() - ref).abs() / ref).max().item()
rel_new = ((new.double() - ref).abs() / ref).max().item()
print("dist(): max relative error, plain torch.cdist (old behaviour): %.3e" % rel_plain)
print("dist(): max relative error, current dist():                   %.3e" % rel_new)
print("current dist():\n", new)
print("float64 reference:\n", ref)
if rel_new > 1e-3 and rel_plain < 1e-5:
    bad = True

for name, make in [
    ("PiecewisePolynomialKernel", lambda: gpytorch.kernels.PiecewisePolynomialKernel(q=2)),
    ("CosineKernel", lambda: gpytorch.kernels.CosineKernel()),
]:
    k32 = make()
    k64 = make().double()
    if hasattr(k32, "lengthscale") and k32.has_lengthscale:
        k32.lengthscale = 0.01
        k64.lengthscale = 0.01
    else:
        k32.period_length = 0.01
        k64.period_length = 0.01
    with torch.no_grad():
        c32 = k32(x1, x2).to_dense()
        c64 = k64(x1.double(), x2.double()).to_dense()
    # rows 0..3: the four small training points (the two huge distances are not representable in float32 anyway)
    err = (c32.double() - c64)[:4].abs().max().item()
    print("%s: max |K_float32 - K_float64| over the 4 small training points x 2 test points = %.3e" % (name, err))
    if err > 1e-2:
        bad = True

if bad:
    print("PROBLEM PRESENT: cross distances of a small, wide-range input lost their digits (exact before 3680719)")
    sys.exit(1)
print("ok")
sys.exit(0)
