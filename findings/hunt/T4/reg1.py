# Concerns commit 42fffd0 (second half: "carried fantasy mean cache only for complete targets").
# With a NaN among the fantasy targets the variational get_fantasy_model no longer plants its hand-made mean cache
# under the 'mask' / 'fill' keys; the reader (_mean_cache) then rebuilds the cache from
# likelihood(train_prior_dist), i.e. with homoskedastic noise on the pseudo points instead of the pseudo-observation
# covariance -- exactly the defect commit b42b8fb had repaired.  The posterior mean is then further from the correct
# answer (the fantasy model built from the observed targets only) than the bare prior mean the old code predicted.
import sys
import warnings

import torch

import gpytorch

warnings.simplefilter("ignore")
torch.manual_seed(0)


class SVGP(gpytorch.models.ApproximateGP):
    def __init__(self, Z):
        vd = gpytorch.variational.CholeskyVariationalDistribution(Z.size(0))
        vs = gpytorch.variational.VariationalStrategy(self, Z, vd, learn_inducing_locations=True)
        super().__init__(vs)
        self.mean_module = gpytorch.means.ConstantMean()
        self.covar_module = gpytorch.kernels.ScaleKernel(gpytorch.kernels.RBFKernel())
        self.likelihood = gpytorch.likelihoods.GaussianLikelihood()

    def forward(self, x):
        return gpytorch.distributions.MultivariateNormal(self.mean_module(x), self.covar_module(x))


# hyper-parameters and variational parameters set by hand (no training: fully deterministic)
Z = torch.linspace(0, 1, 8, dtype=torch.double).unsqueeze(-1)
model = SVGP(Z).double()
model.likelihood.initialize(noise=0.01)
model.mean_module.initialize(constant=1.0)
model.covar_module.initialize(outputscale=1.0)
model.covar_module.base_kernel.initialize(lengthscale=0.2)
with torch.no_grad():
    vd = model.variational_strategy._variational_distribution
    vd.variational_mean.copy_(torch.sin(6 * Z.squeeze(-1)) * 1.5)  # (whitened) inducing mean
    vd.chol_variational_covar.copy_(torch.diag(torch.linspace(0.05, 0.6, 8, dtype=torch.double)))
    model.variational_strategy.variational_params_initialized.fill_(1)
model.eval()

xt = torch.linspace(0, 1.3, 7, dtype=torch.double).unsqueeze(-1)
xf = torch.tensor([[1.1], [1.2], [1.3]], dtype=torch.double)
yf = torch.tensor([0.5, float("nan"), 0.0], dtype=torch.double)
obs = ~torch.isnan(yf)

bad = False
with torch.no_grad():
    model(xt)
    ref = model.get_fantasy_model(xf[obs], yf[obs]).eval()  # the observed fantasy points only
    ref_mean = ref(xt).mean
    prior_err = (model.mean_module(xt) - ref_mean).abs().max().item()
    print("reference mean (observed targets only):", ref_mean.tolist())
    print("max |prior mean - reference| =", prior_err)
    for policy in ("mask", "fill"):
        with gpytorch.settings.observation_nan_policy(policy):
            fm = model.get_fantasy_model(xf, yf).eval()
            mean = fm(xt).mean
        err = (mean - ref_mean).abs().max().item()
        print(f"policy {policy!r}: mean {mean.tolist()}")
        print(f"policy {policy!r}: max |mean - reference| = {err}")
        if not err < 0.05:
            bad = True
        if err > prior_err:
            print("   -> worse than predicting the bare prior mean (what the code before the commit did)")
print("PROBLEM PRESENT" if bad else "ok")
sys.exit(1 if bad else 0)
