# Concerns commit 95b2914 (LikelihoodList accepts noise=None ...) -- incomplete repair.
# forward / marginal / log_marginal / expected_log_prob / pyro_sample_output drop a noise=None keyword, but
# LikelihoodList.__call__ (the usual entry point) forwards noise=None to the members: a member whose forward does
# not take a `noise` keyword fails with TypeError through lik(..., noise=None) while lik.forward(..., noise=None) works.
import sys
import warnings

import torch

import gpytorch
from gpytorch.likelihoods import Likelihood, LikelihoodList

warnings.simplefilter("ignore")


class PlainLikelihood(Likelihood):
    def forward(self, function_samples):
        return torch.distributions.Normal(function_samples, 1.0)


lik = LikelihoodList(PlainLikelihood(), PlainLikelihood())
f = torch.zeros(3)


def attempt(label, fn):
    try:
        out = fn()
        print(label, ": ok", [type(o).__name__ for o in out])
        return True
    except Exception as e:  # noqa
        print(label, ": FAILED", type(e).__name__, str(e)[:120])
        return False


ok_plain = attempt("lik(f, f)", lambda: lik(f, f))
ok_forward = attempt("lik.forward(f, f, noise=None)", lambda: lik.forward(f, f, noise=None))
ok_call = attempt("lik(f, f, noise=None)", lambda: lik(f, f, noise=None))
bad = ok_plain and ok_forward and not ok_call
print("PROBLEM PRESENT" if bad else "ok")
sys.exit(1 if bad else 0)
