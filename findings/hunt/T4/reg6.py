# Concerns commit 95b2914 (LikelihoodList accepts noise=None and one noise tensor for all members) -- sibling paths
# with the same defect that the commit left alone:
#  (a) LikelihoodList.get_fantasy_likelihood(noise=<one tensor>) still iterates the tensor element-wise
#      (each member gets a 0-dim element, or a length error) while every other method now hands the tensor to all members;
#  (b) IndependentModelList.get_fantasy_model(noise=None) still triggers the split on the presence of the keyword
#      and raises TypeError ('NoneType' object is not iterable).
import sys
import warnings

import torch

import gpytorch
from gpytorch.distributions import MultivariateNormal
from gpytorch.likelihoods import FixedNoiseGaussianLikelihood, LikelihoodList

warnings.simplefilter("ignore")
bad = False

# (a)
n = 3
lik = LikelihoodList(FixedNoiseGaussianLikelihood(torch.ones(n)), FixedNoiseGaussianLikelihood(torch.ones(n)))
new_noise = torch.full((2,), 0.3)  # the noise of 2 fantasy points, for every member
f = MultivariateNormal(torch.zeros(n), torch.eye(n))
try:
    print("(a) lik.marginal(f, f, noise=<one tensor>) variances:",
          [m.variance.tolist() for m in lik.marginal(f, f, noise=torch.full((n,), 0.3))])
except Exception as e:  # noqa  (the code before the commit)
    print("(a) lik.marginal(f, f, noise=<one tensor>) FAILED:", type(e).__name__)
try:
    fant = lik.get_fantasy_likelihood(noise=new_noise)
    noises = [m.noise for m in fant.likelihoods]
    print("(a) get_fantasy_likelihood(noise=<one tensor>) member noises:", [x.tolist() for x in noises])
    if not all(x.shape == (n + 2,) for x in noises):
        bad = True
except Exception as e:  # noqa
    print("(a) get_fantasy_likelihood(noise=<one tensor>) FAILED:", type(e).__name__, str(e)[:100])
    bad = True
want = [m.get_fantasy_likelihood(noise=new_noise).noise.tolist() for m in lik.likelihoods]
print("(a) expected (each member called with the tensor):", want)


# (b)
class GP(gpytorch.models.ExactGP):
    def __init__(self, x, y):
        super().__init__(x, y, gpytorch.likelihoods.GaussianLikelihood())
        self.mean_module = gpytorch.means.ZeroMean()
        self.covar_module = gpytorch.kernels.RBFKernel()

    def forward(self, x):
        return MultivariateNormal(self.mean_module(x), self.covar_module(x))


x = torch.linspace(0, 1, 5).unsqueeze(-1)
y = torch.sin(x.squeeze(-1))
models = gpytorch.models.IndependentModelList(GP(x, y), GP(x, y)).eval()
xf = torch.tensor([[0.25], [0.65]])
yf = torch.tensor([0.1, 0.2])
with torch.no_grad():
    models(x, x)
    models.get_fantasy_model([xf, xf], [yf, yf])
    print("(b) get_fantasy_model without noise: ok")
    try:
        print("(b) likelihood(..., noise=None): ok", len(models.likelihood(*models(x, x), noise=None)))
    except TypeError as e:  # (the code before the commit)
        print("(b) likelihood(..., noise=None) FAILED: TypeError", e)
    try:
        models.get_fantasy_model([xf, xf], [yf, yf], noise=None)
        print("(b) get_fantasy_model(noise=None): ok")
    except TypeError as e:
        print("(b) get_fantasy_model(noise=None) FAILED: TypeError", e)
        bad = True
print("PROBLEM PRESENT" if bad else "ok")
sys.exit(1 if bad else 0)
