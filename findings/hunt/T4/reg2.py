# Concerns commit 42fffd0 (first half: "__getstate__ overrides start from torch's own state") -- incomplete repair.
# Kernel.__getstate__ (gpytorch/kernels/kernel.py) is a third override that shadows nn.Module.__getstate__ and
# returns self.__dict__ as it is: a compiled kernel (module.compile() plants _compiled_call_impl) -- or any model
# holding one -- still cannot be pickled / torch.save'd, while a compiled mean or variational strategy now can.
import io
import pickle
import sys
import warnings

import torch

import gpytorch

warnings.simplefilter("ignore")


def attempt(label, fn):
    try:
        fn()
        print(label, ": ok")
        return True
    except Exception as e:  # noqa
        print(label, ": FAILED", type(e).__name__, str(e)[:120])
        return False


mean = gpytorch.means.ConstantMean()
mean.compile()
ok_mean = attempt("pickle compiled ConstantMean", lambda: pickle.loads(pickle.dumps(mean)))

kernel = gpytorch.kernels.RBFKernel()
kernel.compile()
ok_kernel = attempt("pickle compiled RBFKernel", lambda: pickle.loads(pickle.dumps(kernel)))
ok_save = attempt("torch.save compiled RBFKernel", lambda: torch.save(kernel, io.BytesIO()))


class GP(gpytorch.models.ExactGP):
    def __init__(self, x, y):
        super().__init__(x, y, gpytorch.likelihoods.GaussianLikelihood())
        self.mean_module = gpytorch.means.ZeroMean()
        self.covar_module = gpytorch.kernels.ScaleKernel(gpytorch.kernels.RBFKernel())

    def forward(self, x):
        return gpytorch.distributions.MultivariateNormal(self.mean_module(x), self.covar_module(x))


gp = GP(torch.zeros(3, 1), torch.zeros(3))
gp.covar_module.compile()
ok_model = attempt("pickle model holding a compiled kernel", lambda: pickle.loads(pickle.dumps(gp)))

bad = ok_mean and not (ok_kernel and ok_save and ok_model)
print("PROBLEM PRESENT" if bad else "ok")
sys.exit(1 if bad else 0)
