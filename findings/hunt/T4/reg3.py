# Concerns commit 3be6eda (Module.initialize checks a python number in the parameter's own dtype).
# A constraint stores its bounds in the default dtype (float32); module.double() turns them into double(float32(b)).
# Initialising a double module with the python number that IS the user's bound (0.1, un-transformed Interval) was
# accepted before the commit (the value went through float32 like the bound) and is accepted on a float32 module,
# but is now rejected with "out of bounds" on the double module.
import sys
import warnings

import torch

import gpytorch
from gpytorch.constraints import Interval

warnings.simplefilter("ignore")


def attempt(module, **kw):
    try:
        module.initialize(**kw)
        return "accepted"
    except RuntimeError as e:
        return "REJECTED (%s...)" % str(e)[:60]


bad = False
for lo, hi, val in ((0.1, 1.0, 0.1), (0.05, 0.7, 0.7)):
    k32 = gpytorch.kernels.RBFKernel(lengthscale_constraint=Interval(lo, hi, transform=None))
    k64 = gpytorch.kernels.RBFKernel(lengthscale_constraint=Interval(lo, hi, transform=None)).double()
    r32 = attempt(k32, raw_lengthscale=val)
    r64 = attempt(k64, raw_lengthscale=val)
    print(f"Interval({lo}, {hi}, transform=None), initialize(raw_lengthscale={val}): float32 module {r32}; double module {r64}")
    print("   stored bounds of the double module:", k64.raw_lengthscale_constraint.lower_bound.item(),
          k64.raw_lengthscale_constraint.upper_bound.item())
    if r32 == "accepted" and r64 != "accepted":
        bad = True
print("PROBLEM PRESENT" if bad else "ok")
sys.exit(1 if bad else 0)
