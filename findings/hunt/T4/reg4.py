# Concerns commit 95b2914 (LikelihoodList accepts noise=None and one noise tensor for all members).
# A stacked noise tensor with one row per member (an iterable of noise tensors, which is what the code documents:
# "assume it's an iterable of noise tensors", and what upstream / the code before the commit split per member) is now
# taken for "one tensor for all members": every member receives the whole stack and silently returns a batch of
# marginals with the noises of ALL members instead of its own.
import sys
import warnings

import torch

import gpytorch
from gpytorch.distributions import MultivariateNormal
from gpytorch.likelihoods import FixedNoiseGaussianLikelihood, LikelihoodList

warnings.simplefilter("ignore")
n = 3
lik = LikelihoodList(FixedNoiseGaussianLikelihood(torch.ones(n)), FixedNoiseGaussianLikelihood(torch.ones(n)))
f1 = MultivariateNormal(torch.zeros(n), torch.eye(n))
f2 = MultivariateNormal(torch.zeros(n), torch.eye(n))
y = torch.zeros(n)
stacked = torch.stack([torch.full((n,), 0.5), torch.full((n,), 2.0)])  # row i: noise of member i
as_list = [stacked[0], stacked[1]]

bad = False
for label, fn in (
    ("__call__", lambda noise: [m.variance for m in lik(f1, f2, noise=noise)]),
    ("marginal", lambda noise: [m.variance for m in lik.marginal(f1, f2, noise=noise)]),
    ("expected_log_prob", lambda noise: lik.expected_log_prob((y, f1), (y, f2), noise=noise)),
    ("log_marginal", lambda noise: lik.log_marginal((y, f1), (y, f2), noise=noise)),
):
    want = fn(as_list)
    got = fn(stacked)
    same = all(w.shape == g.shape and torch.allclose(w, g) for w, g in zip(want, got))
    print(f"{label}: list of rows -> shapes {[tuple(w.shape) for w in want]}; "
          f"stacked tensor -> shapes {[tuple(g.shape) for g in got]}; same: {same}")
    if not same:
        bad = True
print("PROBLEM PRESENT" if bad else "ok")
sys.exit(1 if bad else 0)
