#!/usr/bin/env python3
"""
C15 bug 2: VariationalELBO / PredictiveLogLikelihood with MultitaskGaussianLikelihood(rank > 0).

The likelihood's noise is N(0, Sigma_task (x) I_n) with a NON-diagonal Sigma_task = F F^T + sigma^2 I, and that is what
likelihood.marginal() / the exact marginal log likelihood use.  The variational objectives however go through
_GaussianLikelihoodBase.expected_log_prob / log_marginal, which keep only `.diagonal()` of the noise covariance.
Consequences shown here (independent multitask SVGP, inducing points == training inputs, so the bound is tight):
  (A) after one NGD step of size one, N * ELBO is hundreds of nats ABOVE the exact log marginal likelihood of the
      same kernel / mean / noise (it equals the evidence of a different model whose task noise is diagonal);
  (B) the ELBO's data term differs from sum_i E_q(f_i)[log N(y_i; f_i, Sigma_task)];
  (C) the PredictiveLogLikelihood data term differs from sum_i log E_q(f_i)[N(y_i; f_i, Sigma_task)].
"""
import sys
import warnings

import torch
from linear_operator import to_linear_operator

import gpytorch

warnings.filterwarnings("ignore")
torch.manual_seed(0)
torch.set_default_dtype(torch.float64)

N, T = 25, 2
X = torch.linspace(0, 1, N).unsqueeze(-1)
e = 0.4 * torch.randn(N)
Y = torch.stack([torch.sin(5 * X[:, 0]) + e, torch.cos(5 * X[:, 0]) - e], -1)  # noise anti-correlated across tasks


class MTSVGP(gpytorch.models.ApproximateGP):
    def __init__(self, Z):
        bs = torch.Size([T])
        vd = gpytorch.variational.NaturalVariationalDistribution(Z.size(-2), batch_shape=bs)
        vs = gpytorch.variational.IndependentMultitaskVariationalStrategy(
            gpytorch.variational.VariationalStrategy(self, Z, vd, learn_inducing_locations=False), num_tasks=T
        )
        super().__init__(vs)
        self.mean_module = gpytorch.means.ZeroMean(batch_shape=bs)
        self.covar_module = gpytorch.kernels.RBFKernel(batch_shape=bs)
        self.covar_module.lengthscale = 0.3

    def forward(self, x):
        return gpytorch.distributions.MultivariateNormal(self.mean_module(x), self.covar_module(x))


model = MTSVGP(X.clone())
lik = gpytorch.likelihoods.MultitaskGaussianLikelihood(num_tasks=T, rank=1)
lik.noise = 0.01
lik.task_noise_covar_factor.data = torch.tensor([[0.4], [0.4]])  # the model assumes positively correlated noise
elbo = gpytorch.mlls.VariationalELBO(lik, model, num_data=N)
pll = gpytorch.mlls.PredictiveLogLikelihood(lik, model, num_data=N, combine_terms=False)
elbo_terms = gpytorch.mlls.VariationalELBO(lik, model, num_data=N, combine_terms=False)

model.train(), lik.train()
opt = gpytorch.optim.NGD(model.variational_parameters(), num_data=N, lr=1.0)
opt.zero_grad()
(-elbo(model(X), Y)).backward()
opt.step()

bad = False
with torch.no_grad():
    out = model(X)
    n_elbo = N * elbo(out, Y).item()
    K = model.covar_module(X).to_dense()  # T x N x N
    Kfull = torch.block_diag(*K)  # task-major (non-interleaved) layout
    F = lik.task_noise_covar_factor
    Sigma = F @ F.T + lik.noise * torch.eye(T)
    yvec = Y.T.reshape(-1)
    zeros = torch.zeros(N * T)
    exact = torch.distributions.MultivariateNormal(zeros, Kfull + torch.kron(Sigma, torch.eye(N))).log_prob(yvec).item()
    prior = gpytorch.distributions.MultitaskMultivariateNormal(
        torch.zeros(N, T), to_linear_operator(Kfull), interleaved=False
    )
    exact_lib = lik.marginal(prior).log_prob(Y).item()
    diag_model = (
        torch.distributions.MultivariateNormal(zeros, Kfull + torch.kron(torch.diag(Sigma.diagonal()), torch.eye(N)))
        .log_prob(yvec)
        .item()
    )
    print("Sigma_task =", Sigma.tolist())
    print("(A) N * ELBO after one NGD step                        = %.6f" % n_elbo)
    print("    exact log marginal likelihood (dense formula)      = %.6f" % exact)
    print("    exact log marginal likelihood (likelihood.marginal) = %.6f" % exact_lib)
    print("    evidence of the model with diag(Sigma_task) noise  = %.6f" % diag_model)
    print("    N * ELBO - exact                                   = %+.6f  (must be <= 0)" % (n_elbo - exact))
    if n_elbo - exact > 1e-3:
        bad = True

    # (B), (C): the data terms for the current q(f); q(f_i) has mean mu_i and diagonal task covariance diag(v_i)
    mu, var = out.mean, out.variance  # N x T
    Sinv = torch.linalg.inv(Sigma)
    r = Y - mu
    ell_def = (
        -0.5 * (torch.einsum("it,ts,is->i", r, Sinv, r) + (var * Sinv.diagonal()).sum(-1))
        - 0.5 * torch.logdet(Sigma)
        - 0.5 * T * torch.log(torch.tensor(2 * torch.pi))
    ).sum().item()
    ell_lib = N * elbo_terms(out, Y)[0].item()
    pred_def = sum(
        torch.distributions.MultivariateNormal(mu[i], torch.diag(var[i]) + Sigma).log_prob(Y[i]).item() for i in range(N)
    )
    pred_lib = N * pll(out, Y)[0].item()
    print("(B) sum_i E_q[log p(y_i|f_i)]      definition = %.6f   library = %.6f   diff = %+.6f"
          % (ell_def, ell_lib, ell_lib - ell_def))
    print("(C) sum_i log E_q[p(y_i|f_i)]      definition = %.6f   library = %.6f   diff = %+.6f"
          % (pred_def, pred_lib, pred_lib - pred_def))
    if abs(ell_lib - ell_def) > 1e-3 or abs(pred_lib - pred_def) > 1e-3:
        bad = True

print("VIOLATION" if bad else "ok")
sys.exit(1 if bad else 0)
