#!/usr/bin/env python3
"""
C15 bug 1: UnwhitenedVariationalStrategy - the KL term is taken against a prior with a hard-wired jitter of 1e-3
(prior_distribution uses `.add_jitter()` = 1e-3) while q(f) is built from K_ZZ + jitter_val*I (1e-6 in float64).

(A) Z == X (the documented use case of the unwhitened strategy): after ONE natural-gradient step of size one,
    N * ELBO is far ABOVE the exact log marginal likelihood of the same kernel / mean / noise.
(B) Z != X: for one and the same q(u) the ELBO in eval mode differs from the ELBO in train mode (train mode
    overwrites the cached prior with the consistent one, eval mode does not); only the train-mode value equals
    the definition / the collapsed bound.
"""
import sys
import warnings

import torch

import gpytorch

warnings.filterwarnings("ignore")
torch.manual_seed(0)
torch.set_default_dtype(torch.float64)

N = 40
X = torch.linspace(0, 1, N).unsqueeze(-1)
y = torch.sin(6 * X.squeeze(-1)) + 0.3 * torch.randn(N)
NOISE = 0.01


class SVGP(gpytorch.models.ApproximateGP):
    def __init__(self, Z, dist_cls):
        vd = dist_cls(Z.size(0))
        vs = gpytorch.variational.UnwhitenedVariationalStrategy(self, Z, vd, learn_inducing_locations=False)
        super().__init__(vs)
        self.mean_module = gpytorch.means.ZeroMean()
        self.covar_module = gpytorch.kernels.RBFKernel()
        self.covar_module.lengthscale = 0.3

    def forward(self, x):
        return gpytorch.distributions.MultivariateNormal(self.mean_module(x), self.covar_module(x))


def mvn_logp(cov):
    return torch.distributions.MultivariateNormal(torch.zeros(N), cov).log_prob(y).item()


bad = False

# ---------------------------------------------------------------- (A) Z == X, one NGD step of size one
lik = gpytorch.likelihoods.GaussianLikelihood()
lik.noise = NOISE
model = SVGP(X.clone(), gpytorch.variational.NaturalVariationalDistribution)
mll = gpytorch.mlls.VariationalELBO(lik, model, num_data=N)
model.train(), lik.train()
opt = gpytorch.optim.NGD(model.variational_parameters(), num_data=N, lr=1.0)
opt.zero_grad()
(-mll(model(X), y)).backward()
opt.step()
with torch.no_grad():
    n_elbo = N * mll(model(X), y).item()
    K = model.covar_module(X).to_dense()
    eye = torch.eye(N)
    exact = mvn_logp(K + NOISE * eye)
    exact_lib = lik(gpytorch.distributions.MultivariateNormal(torch.zeros(N), model.covar_module(X))).log_prob(y).item()
    inflated = mvn_logp(K + (NOISE + 1e-3) * eye)
print("(A) UnwhitenedVariationalStrategy, Z == X, GaussianLikelihood(noise=0.01), one NGD step (lr=1)")
print("    N * ELBO                                   = %.6f" % n_elbo)
print("    exact log marginal likelihood (dense)      = %.6f" % exact)
print("    exact log marginal likelihood (library)    = %.6f" % exact_lib)
print("    log N(y; 0, K + (noise + 1e-3) I)          = %.6f   <- what the objective actually bounds" % inflated)
print("    N * ELBO - exact                           = %+.6f  (must be <= 0)" % (n_elbo - exact))
if n_elbo - exact > 1e-3:
    bad = True

# ---------------------------------------------------------------- (B) Z != X, optimal q(u): train vs eval vs Titsias
Z = X[::4].clone() + 0.01
M = Z.size(0)
lik = gpytorch.likelihoods.GaussianLikelihood()
lik.noise = NOISE
model = SVGP(Z, gpytorch.variational.NaturalVariationalDistribution)
mll = gpytorch.mlls.VariationalELBO(lik, model, num_data=N)
model.train(), lik.train()
opt = gpytorch.optim.NGD(model.variational_parameters(), num_data=N, lr=1.0)
opt.zero_grad()
(-mll(model(X), y)).backward()
opt.step()
with torch.no_grad():
    elbo_train = N * mll(model(X), y).item()
    model.eval(), lik.eval()
    elbo_eval = N * mll(model(X), y).item()  # same q(u), same data, same hyper-parameters
    jit = model.variational_strategy.jitter_val
    Kzz = model.covar_module(Z).to_dense() + jit * torch.eye(M)
    Kzx = model.covar_module(Z, X).to_dense()
    Q = Kzx.T @ torch.linalg.solve(Kzz, Kzx)
    titsias = mvn_logp(Q + NOISE * eye) - 0.5 * (K - Q).diagonal().sum().item() / NOISE
print("(B) UnwhitenedVariationalStrategy, 10 inducing points != X, q(u) after one NGD step (lr=1)")
print("    collapsed (Titsias) bound, jitter_val=%g = %.6f" % (jit, titsias))
print("    N * ELBO, library, train mode              = %.6f" % elbo_train)
print("    N * ELBO, library, eval mode               = %.6f" % elbo_eval)
print("    eval - train (same q(u), same data)        = %+.6f" % (elbo_eval - elbo_train))
if abs(elbo_train - elbo_eval) > 1e-3:
    bad = True

print("VIOLATION" if bad else "ok")
sys.exit(1 if bad else 0)
