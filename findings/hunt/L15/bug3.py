#!/usr/bin/env python3
"""
C15 bug 3: GammaRobustVariationalELBO - the data term is not the gamma-divergence term it is defined to be.

Definition (Knoblauch 2019; Knoblauch, Jewson, Damoulas 2019 - the two papers the class cites):
    L_i = gamma/(gamma-1) * E_q(f_i)[ p(y_i|f_i)^(gamma-1) ]  /  I^((gamma-1)/gamma),     I = int p(y|f_i)^gamma dy
(the class docstring writes the same expression with a plain `/ I`).  The code computes
    factor = log_tempered + (gamma-1)/gamma * log_integral          (gamma_robust_variational_elbo.py line 97)
i.e. it MULTIPLIES by I^((gamma-1)/gamma) instead of dividing, so the returned term is the defined one times
I^(2(gamma-1)/gamma), a factor that depends on the noise.  Checked against brute-force quadrature of the definition.
Consequence (second part): the gamma score is a proper scoring rule - with the definition the noise that maximises the
term on data y ~ N(f, s^2) is s^2; with the library's term it is s^2 * (1 - a - a^2/gamma)/(1 + a/gamma), a = gamma-1
(0.25 s^2 for gamma = 1.5).
"""
import math
import sys
import warnings

import torch

import gpytorch

warnings.filterwarnings("ignore")
torch.manual_seed(0)
torch.set_default_dtype(torch.float64)

N = 6
X = torch.rand(N, 1)
y = torch.randn(N)


class SVGP(gpytorch.models.ApproximateGP):
    def __init__(self, Z):
        vd = gpytorch.variational.CholeskyVariationalDistribution(Z.size(-2))
        vs = gpytorch.variational.VariationalStrategy(self, Z, vd)
        super().__init__(vs)
        self.mean_module = gpytorch.means.ConstantMean()
        self.covar_module = gpytorch.kernels.ScaleKernel(gpytorch.kernels.RBFKernel())

    def forward(self, x):
        return gpytorch.distributions.MultivariateNormal(self.mean_module(x), self.covar_module(x))


model = SVGP(torch.rand(4, 1))
model(X)  # initialise q(u), then move every parameter away from its default
for p in model.parameters():
    p.data.add_(0.3 * torch.randn_like(p))
lik = gpytorch.likelihoods.GaussianLikelihood()

bad = False
print("data term  sum_i L_i  for a 6-point SVGP:   library  vs  quadrature of the definition")
f = torch.linspace(-12, 12, 200001)
for gamma, noise in [(1.03, 0.05), (1.5, 0.05), (2.0, 0.05), (2.0, 1.0)]:
    lik.noise = noise
    mll = gpytorch.mlls.GammaRobustVariationalELBO(lik, model, gamma=gamma, num_data=N, combine_terms=False)
    with torch.no_grad():
        out = model(X)
        lib = N * mll(out, y)[0].item()
        mu, var = out.mean, out.variance
        integral = (2 * math.pi * noise) ** (-(gamma - 1) / 2) * gamma**-0.5  # int N(y; f, noise)^gamma dy
        paper = 0.0
        docstring = 0.0
        for i in range(N):
            q = torch.distributions.Normal(mu[i], var[i].sqrt()).log_prob(f).exp()
            p = torch.distributions.Normal(f, math.sqrt(noise)).log_prob(y[i]).exp()
            e_p = torch.trapezoid(q * p ** (gamma - 1), f).item()
            paper += gamma / (gamma - 1) * e_p / integral ** ((gamma - 1) / gamma)
            docstring += gamma / (gamma - 1) * e_p / integral
    print(
        "  gamma=%.2f noise=%.2f: library %.6f | papers %.6f | docstring %.6f | library/papers %.6f = I^(2(g-1)/g) %.6f"
        % (gamma, noise, lib, paper, docstring, lib / paper, integral ** (2 * (gamma - 1) / gamma))
    )
    if abs(lib - paper) > 1e-3 * abs(paper) and abs(lib - docstring) > 1e-3 * abs(docstring):
        bad = True

# ---- consequence: which noise maximises the data term when f is known and y ~ N(f, 1)?
gamma = 1.5
n_big = 4000
torch.manual_seed(1)
y_big = torch.randn(n_big)  # f = 0, true noise variance s^2 = 1
q_f = gpytorch.distributions.MultivariateNormal(
    torch.zeros(n_big), gpytorch.linear_operator.operators.DiagLinearOperator(torch.full((n_big,), 1e-10))
)
mll = gpytorch.mlls.GammaRobustVariationalELBO(lik, model, gamma=gamma, num_data=n_big, combine_terms=False)
grid = torch.linspace(0.05, 2.0, 196)
lib_vals, def_vals = [], []
with torch.no_grad():
    for nz in grid:
        lik.noise = nz.item()
        lib_vals.append(mll(q_f, y_big)[0].item())
        integral = (2 * math.pi * nz) ** (-(gamma - 1) / 2) * gamma**-0.5
        p = torch.distributions.Normal(0.0, nz.sqrt()).log_prob(y_big).exp()
        def_vals.append((gamma / (gamma - 1) * p ** (gamma - 1) / integral ** ((gamma - 1) / gamma)).mean().item())
best_lib = grid[torch.tensor(lib_vals).argmax()].item()
best_def = grid[torch.tensor(def_vals).argmax()].item()
a = gamma - 1
print("noise maximising the data term on 4000 draws y ~ N(0, 1), f known (gamma = 1.5):")
print("  definition: %.3f (sample variance %.3f)   library: %.3f   predicted for the sign error: %.3f"
      % (best_def, y_big.var().item(), best_lib, (1 - a - a * a / gamma) / (1 + a / gamma)))
if abs(best_lib - best_def) > 0.2:
    bad = True

print("VIOLATION" if bad else "ok")
sys.exit(1 if bad else 0)
