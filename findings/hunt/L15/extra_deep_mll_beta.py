#!/usr/bin/env python3
"""
C15 extra (weaker, API-level): DeepApproximateMLL copies num_data / beta of the wrapped objective into its own
attributes (deep_approximate_mll.py line 23) but forward() delegates to base_mll.forward (line 30), so
`deep_mll.beta = ...` (KL warm-up schedule) and `deep_mll.num_data = ...` are silently ignored: the value returned is
not  mean_s (1/B) sum_i E[log p] - (deep_mll.beta / deep_mll.num_data) KL  for the beta / num_data the object reports.
"""
import sys
import warnings

import torch

import gpytorch
from gpytorch.models.deep_gps import DeepGP, DeepGPLayer

warnings.filterwarnings("ignore")
torch.manual_seed(0)
torch.set_default_dtype(torch.float64)
N = 20
X = torch.rand(N, 2)
y = torch.sin(3 * X[:, 0]) + 0.1 * torch.randn(N)


class Layer(DeepGPLayer):
    def __init__(self, din, dout, M=5):
        bs = torch.Size([]) if dout is None else torch.Size([dout])
        vd = gpytorch.variational.CholeskyVariationalDistribution(M, batch_shape=bs)
        vs = gpytorch.variational.VariationalStrategy(self, torch.randn(*bs, M, din), vd)
        super().__init__(vs, din, dout)
        self.mean_module = gpytorch.means.ConstantMean(batch_shape=bs)
        self.covar_module = gpytorch.kernels.ScaleKernel(gpytorch.kernels.RBFKernel(batch_shape=bs), batch_shape=bs)

    def forward(self, x):
        return gpytorch.distributions.MultivariateNormal(self.mean_module(x), self.covar_module(x))


class Deep(DeepGP):
    def __init__(self):
        super().__init__()
        self.h = Layer(2, 3)
        self.o = Layer(3, None)
        self.likelihood = gpytorch.likelihoods.GaussianLikelihood()

    def forward(self, x):
        return self.o(self.h(x))


model = Deep()
bad = False
with gpytorch.settings.num_likelihood_samples(4), torch.no_grad():
    model(X)
    for p in model.parameters():
        p.add_(0.3 * torch.randn_like(p))
    mll = gpytorch.mlls.DeepApproximateMLL(gpytorch.mlls.VariationalELBO(model.likelihood, model, num_data=N))
    out = model(X)
    kl = model.variational_strategy.kl_divergence()
    ell = model.likelihood.expected_log_prob(y, out).sum(-1).mean(0) / N
    for beta, num_data in [(1.0, N), (0.25, N), (1.0, 10 * N)]:
        mll.beta, mll.num_data = beta, num_data
        val = mll(out, y).item()
        ref = (ell - mll.beta / mll.num_data * kl).item()
        print("deep_mll.beta=%.2f deep_mll.num_data=%d: library %.6f  definition %.6f  diff %+.6f"
              % (mll.beta, mll.num_data, val, ref, val - ref))
        bad = bad or abs(val - ref) > 1e-6
print("VIOLATION" if bad else "ok")
sys.exit(1 if bad else 0)
