#!/usr/bin/env python3
"""
C03 extra finding 4 (exception, default settings): in eval mode the variational strategies memoise the Cholesky factor
of K_ZZ (`cholesky_factor`) and q(u) (`variational_distribution_memo`) WITH their autograd graphs and never drop them
after a backward pass.  History: eval() -> predict -> backward -> predict -> backward.  The second backward raises
"Trying to backward through the graph a second time"; a fresh model (or the same model after train()/eval()) does not.
Exit code 1 if the violation is present.
"""
import sys, warnings
import torch, gpytorch
warnings.filterwarnings("ignore")
torch.set_default_dtype(torch.float64)
V = gpytorch.variational


class SVGP(gpytorch.models.ApproximateGP):
    def __init__(self, kind):
        Z = torch.linspace(0, 1, 8).unsqueeze(-1)
        if kind == "whitened":
            vs = V.VariationalStrategy(self, Z, V.CholeskyVariationalDistribution(8))
        elif kind == "unwhitened":
            vs = V.UnwhitenedVariationalStrategy(self, Z, V.CholeskyVariationalDistribution(8))
        elif kind == "ciq":
            vs = V.CiqVariationalStrategy(self, Z, V.CholeskyVariationalDistribution(8))
        elif kind == "grid":
            vs = V.GridInterpolationVariationalStrategy(self, 16, [(-0.2, 1.2)], V.CholeskyVariationalDistribution(16))
        super().__init__(vs)
        self.mean_module = gpytorch.means.ConstantMean()
        self.covar_module = gpytorch.kernels.ScaleKernel(gpytorch.kernels.RBFKernel())

    def forward(self, x):
        return gpytorch.distributions.MultivariateNormal(self.mean_module(x), self.covar_module(x))


def two_backwards(model, xt):
    for i in range(2):
        p = model(xt)
        try:
            (p.mean.sum() + p.variance.sum()).backward()
        except RuntimeError as e:
            return i, str(e).split(".")[0]
    return None, None


bad = 0
for kind in ["whitened", "unwhitened", "ciq", "grid"]:
    torch.manual_seed(0)
    xt = torch.linspace(0.05, 0.95, 5, requires_grad=True).unsqueeze(-1)
    m = SVGP(kind)
    m.eval()
    i, msg = two_backwards(m, xt)
    fresh = SVGP(kind); fresh.load_state_dict(m.state_dict()); fresh.eval()
    p = fresh(xt); (p.mean.sum() + p.variance.sum()).backward()   # a fresh model back-propagates fine
    print(f"[{kind}] backward number {i + 1 if i is not None else '-'} on the same eval-mode model:", msg or "ok", "| fresh model: ok")
    bad += i is not None
print("VIOLATION" if bad else "no violation")
sys.exit(1 if bad else 0)
