"""C18 / variational model family (Bayesian GPLVM): copy.deepcopy of a model right after a training step raises.

VariationalLatentVariable.forward (gpytorch/models/gplvm/latent_variable.py:92-99) stores a KLGaussianAddedLossTerm in
Module._added_loss_terms["x_kl"] (gpytorch/module.py:479 update_added_loss_term).  The term holds
q_x = Normal(q_mu, softplus(q_log_sigma)), i.e. a tensor that carries an autograd graph.  _added_loss_terms is an ordinary
attribute that deepcopy walks through, so after ANY forward pass of the model (e.g. "keep a copy of the best model so far"
inside the training loop) copy.deepcopy(model) fails with
  RuntimeError: Only Tensors created explicitly by the user (graph leaves) support the deepcopy protocol ...
(the same defect was removed from the memo of the variational strategies; the added loss terms were left out).
pickle and the state_dict round trip of the very same model work and are exact, and so is deepcopy before the
first forward pass.
"""
import copy
import pickle
import sys
import warnings

import torch

import gpytorch
from gpytorch.models.gplvm import BayesianGPLVM, VariationalLatentVariable
from gpytorch.priors import NormalPrior
from gpytorch.variational import CholeskyVariationalDistribution, VariationalStrategy

warnings.filterwarnings("ignore")
torch.set_default_dtype(torch.float64)
torch.manual_seed(0)

N, D, Q, M = 15, 3, 2, 6
Y = torch.randn(N, D)


class GPLVM(BayesianGPLVM):
    def __init__(self):
        torch.manual_seed(1)
        batch_shape = torch.Size([D])
        q_u = CholeskyVariationalDistribution(M, batch_shape=batch_shape)
        q_f = VariationalStrategy(self, torch.randn(D, M, Q), q_u, learn_inducing_locations=True)
        prior_x = NormalPrior(torch.zeros(N, Q), torch.ones(N, Q))
        X = VariationalLatentVariable(N, D, Q, torch.nn.Parameter(torch.randn(N, Q)), prior_x)
        super().__init__(X, q_f)
        self.mean_module = gpytorch.means.ZeroMean(batch_shape=batch_shape)
        self.covar_module = gpytorch.kernels.ScaleKernel(
            gpytorch.kernels.RBFKernel(ard_num_dims=Q, batch_shape=batch_shape), batch_shape=batch_shape
        )
        self.likelihood = gpytorch.likelihoods.GaussianLikelihood(batch_shape=batch_shape)

    def forward(self, X):
        return gpytorch.distributions.MultivariateNormal(self.mean_module(X), self.covar_module(X))


def objective(model):
    model.train()
    mll = gpytorch.mlls.VariationalELBO(model.likelihood, model, num_data=N)
    torch.manual_seed(3)  # the latent sample
    return mll(model(model.sample_latent_variable()), Y.T).sum()


model = GPLVM()
copy.deepcopy(model)
print("deepcopy of the freshly constructed model: ok")

opt = torch.optim.Adam(model.parameters(), lr=0.01)
for _ in range(2):
    opt.zero_grad()
    (-objective(model)).backward()
    opt.step()

ref = objective(model).item()
pk = objective(pickle.loads(pickle.dumps(model))).item()
fresh = GPLVM()
fresh.load_state_dict(model.state_dict())
st = objective(fresh).item()
print(f"after two training steps: ELBO original {ref:.6f} | pickle {pk:.6f} | state_dict -> fresh model {st:.6f}")

bad = False
try:
    clone = copy.deepcopy(model)
    got = objective(clone).item()
    print(f"deepcopy: ELBO {got:.6f}  |diff| {abs(got - ref):.3e}")
    bad = abs(got - ref) > 1e-8
except Exception as e:  # noqa
    print("deepcopy raises", type(e).__name__ + ":", str(e)[:110], "...")
    bad = True

print("VIOLATION" if bad else "ok")
sys.exit(1 if bad else 0)
