"""K7 (C06): zero-length slices of a lazily evaluated multi-output kernel."""
import warnings

import torch
from gpytorch.kernels import MultitaskKernel, RBFKernel

warnings.filterwarnings("ignore")
torch.manual_seed(0)
k = MultitaskKernel(RBFKernel(), num_tasks=2, rank=1)
x = torch.rand(5, 1)
K = k(x)
D = K.to_dense()
for idx in [(Ellipsis, slice(0, 0), slice(None)), (Ellipsis, slice(0, 4), slice(0, 0))]:
    a, b = K[idx].to_dense(), D[idx]
    print(idx, "lazy", tuple(a.shape), "dense", tuple(b.shape))
