#!/usr/bin/env python3
"""D30 (C11-3): MultitaskMultivariateNormal inherits MultivariateNormal.unsqueeze, which rebuilds the result with
self.__class__(mean=self.loc.unsqueeze(dim), covariance_matrix=...): the flat loc is handed to the multitask constructor (which expects
the n x t mean) and the layout flag is lost.  Exits 1 while the unsqueezed distribution is not the same joint Gaussian with one more
batch dimension."""
import sys
import warnings

import torch
from linear_operator import to_linear_operator

from gpytorch.distributions import MultitaskMultivariateNormal, MultivariateNormal

warnings.filterwarnings("ignore")
torch.manual_seed(0)
torch.set_default_dtype(torch.float64)
n, t, b = 3, 2, 4
bad = False
for interleaved in (True, False):
    A = torch.randn(b, n * t, n * t)
    cov = A @ A.transpose(-1, -2) + n * t * torch.eye(n * t)
    d = MultitaskMultivariateNormal(torch.randn(b, n, t), to_linear_operator(cov), interleaved=interleaved)
    try:
        u = d.unsqueeze(0)
        ok = (isinstance(u, MultitaskMultivariateNormal) and u.mean.shape == (1, b, n, t) and torch.allclose(u.mean[0], d.mean)
              and torch.allclose(u.variance[0], d.variance))
        print("interleaved=%s: unsqueeze(0) -> mean shape %s, same marginals: %s" % (interleaved, tuple(u.mean.shape), ok))
        bad |= not ok
    except Exception as e:  # noqa
        print("interleaved=%s: unsqueeze(0) raises %s: %s" % (interleaved, type(e).__name__, str(e)[:100]))
        bad = True
print("VIOLATION PRESENT" if bad else "no violation")
sys.exit(1 if bad else 0)
