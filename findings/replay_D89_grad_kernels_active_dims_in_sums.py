import torch, gpytorch
from gpytorch.kernels import ScaleKernel, RBFKernelGrad, RBFKernelGradGrad, Matern52KernelGrad, PolynomialKernelGrad
torch.manual_seed(0)
x = torch.randn(5, 4, dtype=torch.float64)
bad = 0
for mk in (lambda: RBFKernelGrad(active_dims=(0, 2)), lambda: RBFKernelGradGrad(active_dims=(0, 2)), lambda: Matern52KernelGrad(active_dims=(0, 2)), lambda: PolynomialKernelGrad(power=2, active_dims=(0, 2))):
    inner = mk().double()
    ref = type(inner)(**({"power": 2} if isinstance(inner, PolynomialKernelGrad) else {})).double()
    for wrap in ("scale", "sum", "prod"):
        k = ScaleKernel(inner) if wrap == "scale" else (inner + mk().double() if wrap == "sum" else inner * mk().double())
        try:
            got = k(x).to_dense()
            want = ref(x[:, [0, 2]]).to_dense()
            want = want if wrap == "scale" else (want * 2 if wrap == "sum" else want * want)
            err = (got - want * (k.outputscale if wrap == "scale" else 1.0)).abs().max().item()
            print(type(inner).__name__, wrap, "err %.2e" % err)
            bad += err > 1e-8
        except Exception as e:
            print(type(inner).__name__, wrap, "RAISES", str(e)[:90])
            bad += 1
print(bad, "violation(s)")
import sys; sys.exit(1 if bad else 0)
