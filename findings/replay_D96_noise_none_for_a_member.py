"""C12 / LikelihoodList: a mixed list (GaussianLikelihood + FixedNoiseGaussianLikelihood) cannot be called with a
call-time noise for the fixed-noise member only: noise=[None, n2] raises in __call__/marginal/log_marginal/
expected_log_prob/forward, although None is the list's own convention for "no noise for that member"
(get_fantasy_likelihood accepts it) and None is the default of FixedGaussianNoise.forward(noise=None)."""
import sys
import warnings

import torch

import gpytorch
from gpytorch.distributions import MultivariateNormal
from gpytorch.likelihoods import FixedNoiseGaussianLikelihood, GaussianLikelihood, LikelihoodList

warnings.simplefilter("ignore")
torch.manual_seed(0)
torch.set_default_dtype(torch.float64)


def spd(n):
    A = torch.randn(n, n)
    return A @ A.T + 0.5 * torch.eye(n)


g = GaussianLikelihood()
g.noise = 0.37
f = FixedNoiseGaussianLikelihood(noise=torch.rand(3) + 0.1)  # 3 training points
ll = LikelihoodList(g, f)

C1, C2 = spd(4), spd(5)
d1 = MultivariateNormal(torch.randn(4), C1)
d2 = MultivariateNormal(torch.randn(5), C2)  # 5 test points -> needs call-time noise
n2 = torch.rand(5) + 0.1
y1, y2 = torch.randn(4), torch.randn(5)

ref = [C1 + 0.37 * torch.eye(4), C2 + torch.diag(n2)]
# the members on their own do what is documented
own = [g(d1).covariance_matrix, f(d2, noise=n2).covariance_matrix]
print("members alone, max err:", max((a - b).abs().max().item() for a, b in zip(own, ref)))
# the list accepts None for a member in get_fantasy_likelihood
ll.get_fantasy_likelihood(noise=[None, torch.rand(2) + 0.1])
print("get_fantasy_likelihood(noise=[None, n]) accepted")

bad = 0
calls = {
    "__call__": lambda: [m.covariance_matrix for m in ll(d1, d2, noise=[None, n2])],
    "marginal": lambda: [m.covariance_matrix for m in ll.marginal(d1, d2, noise=[None, n2])],
    "log_marginal": lambda: ll.log_marginal((y1, d1), (y2, d2), noise=[None, n2]),
    "expected_log_prob": lambda: ll.expected_log_prob((y1, d1), (y2, d2), noise=[None, n2]),
    "forward": lambda: ll(torch.randn(4), torch.randn(5), noise=[None, n2]),
}
for name, fn in calls.items():
    try:
        out = fn()
        if name in ("__call__", "marginal"):
            err = max((a - b).abs().max().item() for a, b in zip(out, ref))
            print(f"{name}: max |cov - (C + R)| = {err:.3e}")
            bad += err > 1e-8
        else:
            print(f"{name}: ok")
    except Exception as e:  # noqa
        print(f"{name}(..., noise=[None, n2]) raised {type(e).__name__}: {e}")
        bad += 1

# there is no other way: a tensor for the Gaussian member REPLACES its learned noise
out = ll(d1, d2, noise=[torch.full((4,), 0.37), n2])
print("work-around needs the caller to re-supply sigma^2 by hand:", (out[0].covariance_matrix - ref[0]).abs().max().item())

if bad:
    print(f"VIOLATION: {bad} of 5 entry points fail for noise=[None, n2]")
    sys.exit(1)
print("no violation")
sys.exit(0)
