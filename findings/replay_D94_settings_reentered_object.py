"""C20: a settings object entered twice (with c: with c: ...) leaks its value after both blocks have exited."""
import sys
import warnings

warnings.simplefilter("ignore")
import torch  # noqa: E402
from gpytorch import settings  # noqa: E402

torch.manual_seed(0)


def snap(cls):
    if hasattr(cls, "on"):
        out = {"on": cls.on(), "is_default": cls.is_default()}
        if hasattr(cls, "num_probe_vectors"):
            out["num_probe_vectors"] = cls.num_probe_vectors()
        return out
    try:
        return {"value": cls.value()}
    except (TypeError, RuntimeError):
        return {str(d): cls.value(d) for d in (torch.float, torch.double, torch.half)}


cases = [
    (settings.fast_pred_var, (True, 7)),
    (settings.skip_posterior_variances, (True,)),
    (settings.debug, (False,)),
    (settings.max_eager_kernel_size, (3,)),
    (settings.num_likelihood_samples, (3,)),
    (settings.observation_nan_policy, ("mask",)),
    (settings.min_variance, (0.5, 0.25, 0.125)),
    (settings.variational_cholesky_jitter, (0.5, 0.25, 0.125)),
]

bad = 0
for cls, args in cases:
    before = snap(cls)
    c = cls(*args)
    with c:  # outer block
        with c:  # the same object again (e.g. a recursive helper that uses a module-level context object)
            pass
    after = snap(cls)
    ok = before == after
    print(f"{cls.__name__}{args}: outside all blocks before={before} after={after} -> {'ok' if ok else 'LEAKED'}")
    bad += not ok

print(f"{bad} of {len(cases)} settings report a non-default value outside all blocks")
sys.exit(1 if bad else 0)
