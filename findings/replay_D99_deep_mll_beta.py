"""C15: DeepApproximateMLL ignores its own beta / num_data after construction (KL warm-up schedule, growing data set):
mll.beta = b and mll.num_data = n are accepted silently but the value is still computed with the old beta / N."""
import sys, warnings
import torch, gpytorch
from gpytorch.models.deep_gps import DeepGP, DeepGPLayer
from gpytorch.variational import CholeskyVariationalDistribution, VariationalStrategy
warnings.filterwarnings("ignore")
torch.set_default_dtype(torch.float64)
torch.manual_seed(0)


class Layer(DeepGPLayer):
    def __init__(self, din, dout, M=5):
        bs = torch.Size([dout]) if dout is not None else torch.Size([])
        vs = VariationalStrategy(self, torch.randn(*bs, M, din), CholeskyVariationalDistribution(M, batch_shape=bs))
        super().__init__(vs, din, dout)
        self.mean_module = gpytorch.means.ConstantMean(batch_shape=bs)
        self.covar_module = gpytorch.kernels.ScaleKernel(gpytorch.kernels.RBFKernel(batch_shape=bs), batch_shape=bs)

    def forward(self, x):
        return gpytorch.distributions.MultivariateNormal(self.mean_module(x), self.covar_module(x))


class Deep(DeepGP):
    def __init__(self):
        super().__init__()
        self.l1, self.l2 = Layer(2, 3), Layer(3, None)

    def forward(self, x):
        return self.l2(self.l1(x))


B, N = 7, 50
x, y = torch.randn(B, 2), torch.randn(B)
model = Deep()
model(x)  # initialises q(u) from the prior; move it away afterwards so that the KL is not ~0
for name, p in model.named_parameters():
    if name.endswith("variational_mean"):
        p.data.normal_()
likelihood = gpytorch.likelihoods.GaussianLikelihood()
mll = gpytorch.mlls.DeepApproximateMLL(gpytorch.mlls.VariationalELBO(likelihood, model, num_data=N, beta=1.0))

bad = False
with torch.no_grad(), gpytorch.settings.num_likelihood_samples(4):
    out = model(x)
    ell = likelihood.expected_log_prob(y, out).sum(-1).mean(0) / B
    kl = sum(layer.variational_strategy.kl_divergence().sum() for layer in (model.l1, model.l2))
    for beta, num_data in [(1.0, N), (0.1, N), (0.0, N), (1.0, 10 * N)]:
        mll.beta, mll.num_data = beta, num_data
        got = mll(out, y).item()
        want = (ell - beta * kl / num_data).item()
        print(f"mll.beta={mll.beta:<4} mll.num_data={mll.num_data:<4} library {got:.6f}  definition {want:.6f}  diff {got - want:+.6f}")
        bad |= abs(got - want) > 1e-6
    print(f"(KL = {kl.item():.4f})")

print("VIOLATION" if bad else "ok")
sys.exit(1 if bad else 0)
