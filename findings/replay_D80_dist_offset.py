import torch, gpytorch
torch.manual_seed(0)
from gpytorch.kernels import PiecewisePolynomialKernel, CosineKernel, PeriodicKernel, MaternKernel, ScaleKernel
from gpytorch.kernels import Matern52KernelGrad
def run(kern, shift, d=2, n=40, m=30, dtype=torch.float32):
    X = (torch.rand(n, d, dtype=dtype) * 4 + shift)
    Xs = (torch.rand(m, d, dtype=dtype) * 4 + shift)
    with torch.no_grad():
        Kxx = kern(X).to_dense(); Ksx = kern(Xs, X).to_dense(); Kss = kern(Xs).to_dense()
        post = Kss - Ksx @ torch.linalg.solve(Kxx + 1e-2 * torch.eye(Kxx.shape[-1]), Ksx.T)
        post = (post + post.T) / 2
        return torch.linalg.eigvalsh(post.double()).min().item()
for name, mk in [("pp", lambda: PiecewisePolynomialKernel(q=2)), ("matern_ard", lambda: MaternKernel(nu=2.5, ard_num_dims=2)), ("m52grad", lambda: Matern52KernelGrad()), ("cosine1d", None), ("periodic", lambda: PeriodicKernel())]:
    if mk is None:
        k = CosineKernel(); print(name, run(k, 0.0, d=1), run(k, 2000.0, d=1)); continue
    k = mk(); print(name, run(k, 0.0), run(k, 2000.0))
