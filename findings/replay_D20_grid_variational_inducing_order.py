import torch, gpytorch
torch.manual_seed(0); torch.set_default_dtype(torch.float64)
class M(gpytorch.models.ApproximateGP):
    def __init__(s):
        vd = gpytorch.variational.CholeskyVariationalDistribution(20*20)
        vs = gpytorch.variational.GridInterpolationVariationalStrategy(s, grid_size=20, grid_bounds=[(0,1),(0,1)], variational_distribution=vd)
        super().__init__(vs); s.mean_module = gpytorch.means.ZeroMean(); s.covar_module = gpytorch.kernels.RBFKernel()
    def forward(s, x): return gpytorch.distributions.MultivariateNormal(s.mean_module(x), s.covar_module(x))
m = M().eval()
Z = m.variational_strategy.inducing_points
g = lambda x: x[...,0] + 10*x[...,1]          # a function that tells the two dimensions apart
m.variational_strategy._variational_distribution.variational_mean.data.copy_(g(Z))
m.variational_strategy.variational_params_initialized.fill_(1)
x = torch.rand(50,2)*0.8+0.1
with torch.no_grad(): pm = m(x).mean
print("max |q(f) mean - g(x)| when the variational mean is g at the inducing points:", (pm-g(x)).abs().max().item())
