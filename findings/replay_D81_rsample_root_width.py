"""C10 / bug1: rsample(base_samples=get_base_samples(...)) raises as soon as the root decomposition
of the covariance is not square (event size > settings.max_cholesky_size -> Lanczos root n x k, k < n).

Property: rsample(base_samples=e) equals mean + L e with L L^T = covariance (for all event sizes).
"""
import sys
import warnings

import torch

import gpytorch
from gpytorch.distributions import MultivariateNormal
from linear_operator import to_linear_operator

warnings.simplefilter("ignore")
torch.manual_seed(0)
torch.set_default_dtype(torch.float64)

bad = False


def run(tag, dist, n):
    global bad
    e = dist.get_base_samples(torch.Size([3]))  # the library's own base samples: 3 x n
    root = dist.lazy_covariance_matrix.root_decomposition().root
    print(f"[{tag}] event size {n}, base samples {tuple(e.shape)}, root L {tuple(root.shape)}")
    try:
        x = dist.rsample(base_samples=e)
    except Exception as exc:  # noqa
        print(f"[{tag}] rsample(base_samples=get_base_samples((3,))) RAISED {type(exc).__name__}: {exc}")
        bad = True
        return
    L = root.to_dense()
    k = L.shape[-1]
    ref = dist.mean + e[..., :k] @ L.mT
    err = (x - ref).abs().max().item()
    print(f"[{tag}] rsample returned shape {tuple(x.shape)}, |x - (mean + L e)| = {err:.3e}")
    if x.shape != e.shape or err > 1e-8:
        bad = True


# (a) default settings, event size just above max_cholesky_size (800)
n = 900
x = torch.linspace(0, 1, n)
K = torch.exp(-((x[:, None] - x[None]) ** 2) / 0.02) + 0.1 * torch.eye(n)
mean = torch.sin(6 * x)
run("dense  n=900", MultivariateNormal(mean, K), n)
run("lazy   n=900", MultivariateNormal(mean, to_linear_operator(K)), n)

# (b) the same at a small size with the Cholesky threshold lowered (documented setting)
n = 30
x = torch.linspace(0, 1, n)
K = torch.exp(-((x[:, None] - x[None]) ** 2) / 0.1) + 1e-4 * torch.eye(n)
with gpytorch.settings.max_cholesky_size(10):
    run("dense  n=30, max_cholesky_size(10)", MultivariateNormal(torch.zeros(n), K), n)

# control: below the threshold everything is fine
n = 30
run("control n=30", MultivariateNormal(torch.zeros(n), K), n)

print("VIOLATION" if bad else "ok")
sys.exit(1 if bad else 0)
