import copy, torch, gpytorch
torch.manual_seed(0)
class M(gpytorch.models.ExactGP):
    def __init__(s, x, y, lik):
        super().__init__(x, y, lik)
        s.mean_module = gpytorch.means.ConstantMean()
        s.covar_module = gpytorch.kernels.InducingPointKernel(gpytorch.kernels.ScaleKernel(gpytorch.kernels.RBFKernel()), inducing_points=x[:5].clone(), likelihood=lik)
    def forward(s, x):
        return gpytorch.distributions.MultivariateNormal(s.mean_module(x), s.covar_module(x))
x = torch.randn(20, 2); y = torch.randn(20)
lik = gpytorch.likelihoods.GaussianLikelihood(); m = M(x, y, lik)
mll = gpytorch.mlls.ExactMarginalLogLikelihood(lik, m)
m.train(); lik.train()
loss = -mll(m(x), y); loss.backward()
try:
    c = copy.deepcopy(m); print("deepcopy after a training step: ok")
except Exception as e:
    print("deepcopy after a training step RAISES:", str(e)[:100])
m.eval()
with torch.no_grad(): m(x[:3])
c = copy.deepcopy(m); print("deepcopy after eval prediction: ok")
