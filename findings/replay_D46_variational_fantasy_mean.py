#!/usr/bin/env python3
"""
C07 / bug 1: conditioning a variational GP on new observations (ApproximateGP.get_fantasy_model,
"online variational conditioning") INCREASES the posterior variance under the default settings.

The fantasy model is an exact GP over the inducing points with pseudo-targets and a full pseudo-noise covariance D
(so that it reproduces q(f)), plus the new observations.  With fast_pred_var off (the default) the predictive covariance
is computed by DefaultPredictionStrategy.exact_predictive_covar, which rebuilds K_train + noise from the *likelihood*
(sigma^2 I) and never sees D: the reported covariance is the one of a GP that observed the inducing points with the
likelihood noise.  With the default noise (0.693) this is much wider than q(f) itself.

Reference values: (a) the variance of q(f*) of the same model before conditioning (adding observations must not increase
it), (b) the dense posterior of the pseudo-data GP  [Z, D] + [x_new, sigma^2 I]  written out with torch.linalg,
(c) the same call under fast_pred_var(True), which uses the (correct) updated cache.
"""
import sys
import warnings

import torch

import gpytorch
from gpytorch.distributions import MultivariateNormal
from gpytorch.kernels import RBFKernel, ScaleKernel
from gpytorch.likelihoods import GaussianLikelihood
from gpytorch.means import ZeroMean
from gpytorch.variational import CholeskyVariationalDistribution, VariationalStrategy

warnings.filterwarnings("ignore")
torch.set_default_dtype(torch.float64)

M, d = 8, 2


class SVGP(gpytorch.models.ApproximateGP):
    def __init__(self, Z):
        vd = CholeskyVariationalDistribution(Z.size(-2))
        vs = VariationalStrategy(self, Z, vd, learn_inducing_locations=False)
        super().__init__(vs)
        self.mean_module = ZeroMean()
        self.covar_module = ScaleKernel(RBFKernel())
        self.likelihood = GaussianLikelihood()  # default noise softplus(0) + 1e-4 = 0.6932

    def forward(self, x):
        return MultivariateNormal(self.mean_module(x), self.covar_module(x))


def build():
    g = torch.Generator().manual_seed(0)
    Z = torch.randn(M, d, generator=g)
    model = SVGP(Z).double()
    model.train()
    model(torch.randn(5, d, generator=g))  # initialises the variational parameters (whitened: m = 0, S = I)
    vd = model.variational_strategy._variational_distribution
    with torch.no_grad():
        vd.variational_mean.copy_(0.3 * torch.randn(M, generator=g))
        # a "trained" q(u): S_whitened = L L^T well inside (0, I)
        L = 0.5 * torch.eye(M) + 0.1 * torch.randn(M, M, generator=g).tril()
        vd.chol_variational_covar.copy_(L)
    model.eval()
    xt = torch.randn(7, d, generator=g)
    xf = torch.randn(3, d, generator=g)
    yf = torch.randn(3, generator=g)
    return model, Z, xt, xf, yf


def dense_reference(model, Z, xt, xf):
    """posterior variance at xt of the pseudo-data GP ([Z, D], [xf, sigma^2]) - everything dense"""
    k = model.covar_module
    vd = model.variational_strategy._variational_distribution
    jitter = model.variational_strategy.jitter_val
    sigma2 = model.likelihood.noise.item()
    Kzz = k(Z).to_dense() + jitter * torch.eye(M)
    Lk = torch.linalg.cholesky(Kzz)
    Lw = vd.chol_variational_covar.tril()
    S = Lk @ Lw @ Lw.T @ Lk.T  # unwhitened covariance of q(u)
    D = torch.linalg.inv(torch.linalg.inv(S) - torch.linalg.inv(Kzz))  # pseudo noise: (Kzz^-1 + D^-1)^-1 = S
    assert torch.linalg.eigvalsh((D + D.T) / 2).min() > 0
    X = torch.cat([Z, xf])
    A = k(X).to_dense()
    A[:M, :M] += D
    A[M:, M:] += sigma2 * torch.eye(xf.size(0))
    Ks = k(xt, X).to_dense()
    cov = k(xt).to_dense() - Ks @ torch.linalg.solve(A, Ks.T)
    # sanity: without the new points the pseudo-data GP is q(f)
    Ks0 = k(xt, Z).to_dense()
    cov0 = k(xt).to_dense() - Ks0 @ torch.linalg.solve(Kzz + D, Ks0.T)
    return cov.diagonal(), cov0.diagonal()



def dense_mean(model, Z, xt, xf, yf):
    k = model.covar_module
    vd = model.variational_strategy._variational_distribution
    jitter = model.variational_strategy.jitter_val
    sigma2 = model.likelihood.noise.item()
    Kzz = k(Z).to_dense() + jitter * torch.eye(M)
    Lk = torch.linalg.cholesky(Kzz)
    Lw = vd.chol_variational_covar.tril()
    S = Lk @ Lw @ Lw.T @ Lk.T
    m = Lk @ vd.variational_mean
    D = torch.linalg.inv(torch.linalg.inv(S) - torch.linalg.inv(Kzz))
    # pseudo targets t with (Kzz + D)^-1 ... posterior mean at Z equals m:  m = Kzz (Kzz + D)^-1 t  ->  t = (Kzz + D) Kzz^-1 m
    t = (Kzz + D) @ torch.linalg.solve(Kzz, m)
    X = torch.cat([Z, xf]); y = torch.cat([t, yf])
    A = k(X).to_dense(); A[:M, :M] += D; A[M:, M:] += sigma2 * torch.eye(xf.size(0))
    Ks = k(xt, X).to_dense()
    mean = Ks @ torch.linalg.solve(A, y)
    Ks0 = k(xt, Z).to_dense()
    mean0 = Ks0 @ torch.linalg.solve(Kzz + D, t)
    return mean, mean0

with torch.no_grad():
    model, Z, xt, xf, yf = build()
    mq = model(xt).mean
    fm = model.get_fantasy_model(xf, yf)
    mf = fm(xt).mean
    ref, ref0 = dense_mean(model, Z, xt, xf, yf)
    print("sanity |q(f*) mean - dense pseudo-data GP| =", (mq - ref0).abs().max().item())
    print("|fantasy mean - dense reference| (default)  =", (mf - ref).abs().max().item())
    model2, *_ = build()
    with gpytorch.settings.fast_pred_var(True):
        mf2 = model2.get_fantasy_model(xf, yf)(xt).mean
    print("|fantasy mean - dense reference| (fast_pred_var) =", (mf2 - ref).abs().max().item())

