import sys, torch, gpytorch, warnings
warnings.filterwarnings("ignore")
print("gpytorch from", gpytorch.__file__)
s=gpytorch.settings
# D1
with s.variational_cholesky_jitter(half_value=0.5): pass
print("D1 half after:", s.variational_cholesky_jitter.value(torch.half))
with s.min_variance(float_value=1.0):
    with s.min_variance(double_value=2.0): pass
    assert s.min_variance.value(torch.float)==1.0
print("D1 nested ok", s.min_variance.value(torch.float), s.min_variance.value(torch.double))
# D4/D5
from gpytorch.likelihoods import LikelihoodList, FixedNoiseGaussianLikelihood
from gpytorch.distributions import MultivariateNormal as MVN, MultitaskMultivariateNormal as MT
l1=FixedNoiseGaussianLikelihood(torch.ones(3)*0.1); l2=FixedNoiseGaussianLikelihood(torch.ones(3)*0.2)
out=LikelihoodList(l1,l2)(MVN(torch.zeros(4), torch.eye(4)),MVN(torch.zeros(4), torch.eye(4)),noise=[torch.ones(4)*0.3, torch.ones(4)*0.4])
print("D4", [o.covariance_matrix.diagonal()[0].item() for o in out])
lik = FixedNoiseGaussianLikelihood(torch.ones(3)*0.1, learn_additional_noise=True); lik.second_noise=0.5
print("D5", (lik(MVN(torch.zeros(4), torch.eye(4)), noise=torch.ones(4)*0.3).covariance_matrix-torch.eye(4)).diagonal()[0].item(), "expect 0.8")
# D6
n,t=4,3
A=torch.randn(n*t,n*t).double(); C=A@A.T+torch.eye(n*t).double(); m=torch.randn(n,t).double()
d=MT(m,C); sl=d[1:,0]; idx=[i*t for i in range(1,n)]
print("D6", (sl.covariance_matrix-C[idx][:,idx]).abs().max().item())
# D7
k = gpytorch.kernels.RBFKernel(batch_shape=torch.Size([2]), active_dims=(0,2)).double()
x = torch.randn(2,4,3).double(); K=k(x)
print("D7 lazy idx", (K[1].to_dense()-K.to_dense()[1]).abs().max().item(), " kernel[1]", (k[1](x[1]).to_dense()-K.to_dense()[1]).abs().max().item())
k0 = gpytorch.kernels.RBFKernel(active_dims=(0,2)).double(); ke=k0.expand_batch(torch.Size([2]))
print("D7 expand", (ke(x).to_dense()-k0(x).to_dense()).abs().max().item())
# D8
from gpytorch.kernels import *
xx=torch.randn(5,3).double(); ref=RBFKernel().double()
mk = MultitaskKernel(RBFKernel(active_dims=(0,)).double(), num_tasks=2, rank=1).double()
B = mk.task_covar_module.covar_matrix.to_dense()
print("D8", (mk(xx).to_dense()-torch.kron(ref(xx[:, :1]).to_dense(), B)).abs().max().item())
# D9
lik = gpytorch.likelihoods.MultitaskGaussianLikelihood(num_tasks=3, rank=2, task_prior=gpytorch.priors.LKJCovariancePrior(3, 1.0, gpytorch.priors.GammaPrior(1.,1.)))
for name, module, prior, closure, _ in lik.named_priors():
    print("D9", name, prior.log_prob(closure(module)).shape)
