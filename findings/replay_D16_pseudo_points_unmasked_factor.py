"""D16 (C14): VariationalStrategy.pseudo_points / UnwhitenedVariationalStrategy.pseudo_points read the raw Cholesky parameter
without the lower-triangular mask that CholeskyVariationalDistribution.forward applies.  Two parameter values that encode the
same q(u) (they differ only in the ignored strict upper triangle) give different pseudo points, i.e. different fantasy models."""
import sys, torch, gpytorch
torch.manual_seed(0)
torch.set_default_dtype(torch.float64)

class M(gpytorch.models.ApproximateGP):
    def __init__(self, Z, strat):
        vd = gpytorch.variational.CholeskyVariationalDistribution(Z.size(0))
        vs = strat(self, Z, vd, learn_inducing_locations=False)
        super().__init__(vs)
        self.mean_module = gpytorch.means.ConstantMean()
        self.covar_module = gpytorch.kernels.ScaleKernel(gpytorch.kernels.RBFKernel())
    def forward(self, x):
        return gpytorch.distributions.MultivariateNormal(self.mean_module(x), self.covar_module(x))

bad = 0
for strat in (gpytorch.variational.VariationalStrategy, gpytorch.variational.UnwhitenedVariationalStrategy):
    Z = torch.linspace(0, 1, 5).unsqueeze(-1)
    m = M(Z, strat).eval()
    m(Z)  # initialise
    A = 0.3 * torch.randn(5, 5) + torch.eye(5)
    vd = m.variational_strategy._variational_distribution
    res = []
    for value in (A, A.tril()):
        vd.chol_variational_covar.data.copy_(value)
        m.train(); m.eval()  # drop memoised pseudo points
        q = vd()
        pc, pm = m.variational_strategy.pseudo_points
        res.append((q.covariance_matrix.clone(), pc.clone(), pm.clone()))
    dq = (res[0][0] - res[1][0]).abs().max().item()
    dp = max((res[0][1] - res[1][1]).abs().max().item(), (res[0][2] - res[1][2]).abs().max().item())
    print("%s: q(u) covariance differs by %.2e, pseudo points differ by %.2e" % (strat.__name__, dq, dp))
    if dq < 1e-12 and dp > 1e-6:
        bad += 1
print("FAIL: same q(u), different pseudo points" if bad else "PASS")
sys.exit(1 if bad else 0)
