#!/usr/bin/env python3
"""K24 (C08-7): GridInterpolationKernel.forward tiles K_UU (a value derived from the base kernel's parameters) with
`.repeat(*x1.shape[:-2], x1.size(-1), 1, 1)` when last_dim_is_batch is set: the batch dimensions of a batched base kernel are
multiplied by the data's batch dimensions instead of being broadcast against them.  Exits 1 while the evaluation raises / differs from
the per-element, per-dimension 1-d KISS kernels."""
import sys
import warnings

import torch

import gpytorch

warnings.filterwarnings("ignore")
torch.manual_seed(0)
torch.set_default_dtype(torch.float64)
b, n, d = 2, 5, 2
base = gpytorch.kernels.RBFKernel(batch_shape=torch.Size([b]))
base.lengthscale = torch.tensor([0.3, 1.5]).view(b, 1, 1)
k = gpytorch.kernels.GridInterpolationKernel(base, grid_size=20, num_dims=1, grid_bounds=[(-0.2, 1.2)])
x = torch.rand(b, n, d)
bad = False
with torch.no_grad():
    try:
        K = k(x, last_dim_is_batch=True).to_dense()
        print("shape", tuple(K.shape))
        for i in range(b):
            bi = gpytorch.kernels.RBFKernel()
            bi.lengthscale = base.lengthscale[i]
            ki = gpytorch.kernels.GridInterpolationKernel(bi, grid_size=20, num_dims=1, grid_bounds=[(-0.2, 1.2)])
            for j in range(d):
                err = (K[i, j] - ki(x[i, :, j:j + 1]).to_dense()).abs().max().item()
                print("batch element %d, dimension %d: max |K - reference| = %.3e" % (i, j, err))
                bad |= err > 1e-8
    except Exception as e:  # noqa
        print("RAISES", type(e).__name__, str(e)[:200])
        bad = True
print("VIOLATION PRESENT" if bad else "no violation")
sys.exit(1 if bad else 0)
