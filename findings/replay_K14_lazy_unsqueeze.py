#!/usr/bin/env python3
"""K14 (C06-8): LazyEvaluatedKernelTensor._unsqueeze_batch unsqueezes x1/x2 only; the batched kernel keeps its place.
Exits 1 when the lazily unsqueezed kernel tensor differs from the dense one (or raises)."""
import sys
import warnings

import torch

import gpytorch

warnings.filterwarnings("ignore")
torch.manual_seed(0)
torch.set_default_dtype(torch.float64)
k = gpytorch.kernels.RBFKernel(batch_shape=torch.Size([2]))
k.lengthscale = torch.tensor([0.3, 2.0]).view(2, 1, 1)
bad = False
for name, x in [("x: 3 x 2 x n x d", torch.randn(3, 2, 4, 2)), ("x: 2 x n x d", torch.randn(2, 4, 2))]:
    with gpytorch.settings.lazily_evaluate_kernels(True):
        lazy = k(x)
    dense = lazy.to_dense()
    for dim in range(-1, -len(lazy.batch_shape) - 2, -1):
        d = dim - 2  # position among all dimensions
        ref = dense.unsqueeze(d)
        try:
            got = lazy.unsqueeze(d).to_dense()
            if got.shape != ref.shape:
                print(f"{name}: unsqueeze({d}): shape {tuple(got.shape)} instead of {tuple(ref.shape)}")
                bad = True
            else:
                err = (got - ref).abs().max().item()
                print(f"{name}: unsqueeze({d}): max |lazy - dense| = {err:.3e}")
                bad |= err > 1e-10
        except Exception as e:  # noqa
            print(f"{name}: unsqueeze({d}) raises {type(e).__name__}: {str(e)[:80]}")
            bad = True
print("VIOLATION PRESENT" if bad else "no violation")
sys.exit(1 if bad else 0)
