import torch, gpytorch, math
torch.set_default_dtype(torch.float64); torch.manual_seed(0)
X=torch.rand(12,1); y=torch.sin(6*X[:,0])
class M(gpytorch.models.ExactGP):
    def __init__(s,X,y,lik,scale):
        super().__init__(X,y,lik); s.mean_module=gpytorch.means.ZeroMean()
        base=gpytorch.kernels.RBFKernel(); base.lengthscale=0.3
        ipk=gpytorch.kernels.InducingPointKernel(base, inducing_points=torch.linspace(0,1,4).unsqueeze(-1), likelihood=lik)
        s.covar_module=gpytorch.kernels.ScaleKernel(ipk) if scale else ipk
        if scale: s.covar_module.outputscale=2.0
    def forward(s,x): return gpytorch.distributions.MultivariateNormal(s.mean_module(x), s.covar_module(x))
lik=gpytorch.likelihoods.GaussianLikelihood(); lik.noise=0.1
m=M(X,y,lik,True); m.train(); lik.train()
mll=gpytorch.mlls.ExactMarginalLogLikelihood(lik,m)
val=mll(m(X),y).item()*12
# dense bound
base=m.covar_module.base_kernel.base_kernel; Z=m.covar_module.base_kernel.inducing_points
K=2.0*base(X).to_dense(); Kxz=2.0*base(X,Z).to_dense(); Kzz=2.0*base(Z).to_dense()+1e-6*torch.eye(4)*0
Q=Kxz@torch.linalg.solve(2.0*base(Z).to_dense()+ gpytorch.settings.cholesky_jitter.value(torch.float64)*torch.eye(4)*0+1e-10*torch.eye(4),Kxz.T)
s2=0.1
ref=torch.distributions.MultivariateNormal(torch.zeros(12),Q+s2*torch.eye(12)).log_prob(y).item()-0.5/s2*torch.trace(K-Q).item()
ref_half=torch.distributions.MultivariateNormal(torch.zeros(12),Q+s2*torch.eye(12)).log_prob(y).item()-0.5/s2*torch.trace(K-Q).item()/2
print("library",val,"bound",ref,"bound with un-scaled trace term",ref_half)
