#!/usr/bin/env python3
"""
C17 violation: a constraint built with a custom `transform` silently keeps the DEFAULT inverse transform.

    Positive(transform=torch.exp)            -> transform = exp,  inverse = inv_softplus
    GreaterThan(0.1, transform=torch.exp)    -> transform = exp,  inverse = inv_softplus
    LessThan(5., transform=torch.exp)        -> idem
    Interval(0, 1, transform=<other squashing fn>) -> inverse = inv_sigmoid

so inverse_transform is NOT the inverse of transform and every public setter (kernel.lengthscale = v,
likelihood.noise = v, ...) stores a value that reads back as something else.  gpytorch.utils.transforms has a registry
(TRANSFORM_REGISTRY: exp -> log, ...) exactly for inferring the inverse of torch.exp, but it is only consulted when the
caller passes inv_transform=None explicitly, because the signature default is inv_transform=inv_softplus / inv_sigmoid.
"""
import sys
import warnings

import torch

import gpytorch
from gpytorch.constraints import GreaterThan, Interval, LessThan, Positive

warnings.filterwarnings("ignore")
torch.set_default_dtype(torch.float64)
torch.manual_seed(0)

bad = False
x = torch.tensor([0.3, 0.9, 2.5])

cases = [
    ("Positive(transform=torch.exp)", Positive(transform=torch.exp), x),
    ("GreaterThan(0.1, transform=torch.exp)", GreaterThan(0.1, transform=torch.exp), x),
    ("LessThan(5.0, transform=torch.exp)", LessThan(5.0, transform=torch.exp), x),
    # control: the registry is used (and the pair is consistent) only when inv_transform=None is spelled out
    ("control Positive(transform=torch.exp, inv_transform=None)", Positive(transform=torch.exp, inv_transform=None), x),
]
for name, con, val in cases:
    rt = con.transform(con.inverse_transform(val))
    err = (rt - val).abs().max().item()
    print(f"{name}: x = {val.tolist()}  transform(inverse_transform(x)) = {rt.tolist()}  max err = {err:.3e}")
    if not name.startswith("control") and not err < 1e-8:
        bad = True

# through the public setters
k = gpytorch.kernels.RBFKernel(lengthscale_constraint=Positive(transform=torch.exp))
k.lengthscale = 0.9
got = k.lengthscale.item()
print(f"RBFKernel(lengthscale_constraint=Positive(transform=torch.exp)).lengthscale = 0.9 -> reads back {got:.6f}")
if abs(got - 0.9) > 1e-8:
    bad = True

lik = gpytorch.likelihoods.GaussianLikelihood(noise_constraint=GreaterThan(1e-4, transform=torch.exp))
lik.noise = 0.25
got = lik.noise.item()
print(f"GaussianLikelihood(noise_constraint=GreaterThan(1e-4, transform=torch.exp)).noise = 0.25 -> reads back {got:.6f}")
if abs(got - 0.25) > 1e-8:
    bad = True

# sample_from_prior goes through the same setting closure: the stored value is not the sampled one
k = gpytorch.kernels.RBFKernel(
    lengthscale_constraint=Positive(transform=torch.exp), lengthscale_prior=gpytorch.priors.GammaPrior(2.0, 3.0)
)
torch.manual_seed(1)
s = k.lengthscale_prior.sample()
torch.manual_seed(1)
k.sample_from_prior("lengthscale_prior")
print(f"sample_from_prior: sampled {s.item():.6f}, parameter reads {k.lengthscale.item():.6f}")
if abs(s.item() - k.lengthscale.item()) > 1e-8:
    bad = True

print("VIOLATION PRESENT" if bad else "no violation")
sys.exit(1 if bad else 0)
