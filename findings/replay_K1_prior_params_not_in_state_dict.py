# K1 (C18): UniformPrior / LKJ priors do not register their parameters as buffers, so a state_dict
# round trip into a model built with other prior parameters keeps the *new* model's parameters.
import torch, gpytorch, warnings
warnings.filterwarnings("ignore")
from gpytorch.priors import UniformPrior, NormalPrior, LKJCovariancePrior, GammaPrior
def k(prior): return gpytorch.kernels.RBFKernel(lengthscale_prior=prior)
a, b = k(UniformPrior(0.0, 1.0)), k(UniformPrior(0.0, 2.0))
print("UniformPrior keys in state_dict:", [x for x in a.state_dict() if "prior" in x])
b.load_state_dict(a.state_dict())
print("after load: original high =", a.lengthscale_prior.high.item(), " restored high =", b.lengthscale_prior.high.item())
a, b = k(NormalPrior(0.0, 1.0)), k(NormalPrior(0.0, 2.0))
b.load_state_dict(a.state_dict())
print("NormalPrior (bufferized) restored scale =", b.lengthscale_prior.scale.item(), "(expected 1.0)")
p = LKJCovariancePrior(3, 1.5, GammaPrior(1.0, 1.0))
print("LKJ keys:", list(p.state_dict().keys()))
