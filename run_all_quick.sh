#!/bin/sh
# maintenance helper: every claimed check (tier = $1, default quick) on /repo as it stands; one line per property,
# plus every violated / skipped / FAILED line; exit 1 if any check is not 0
rc=0
for p in C01 C02 C03 C04 C05 C06 C07 C08 C09 C10 C11 C12 C13 C14 C15 C16 C17 C18 C19 C20; do
  out=$(./check $p --tier ${1:-quick} 2>&1); r=$?
  echo "$p rc=$r $(echo "$out" | tail -1 | cut -c1-110)"
  echo "$out" | grep "skipped \|FAILED\|ANALYSIS-ERROR" | cut -c1-260
  [ $r -ne 0 ] && rc=1 && echo "$out" | grep "violated C" | cut -c1-300
done
exit $rc
