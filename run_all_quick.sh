#!/bin/sh
# maintenance helper: every claimed check, quick tier, on /repo as it stands; prints one line per property and fails if any is not 0
rc=0
for p in C01 C02 C03 C04 C05 C06 C07 C08 C09 C10 C11 C12 C14 C15 C16 C17 C18 C19 C20; do
  out=$(./check $p --tier ${1:-quick} 2>&1); r=$?
  echo "$p rc=$r $(echo "$out" | tail -1 | cut -c1-110)"
  [ $r -ne 0 ] && rc=1 && echo "$out" | grep "violated C\|ANALYSIS-ERROR\|FAILED\|skipped" | cut -c1-300
done
exit $rc
