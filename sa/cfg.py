"""Structured control flow: path enumeration, must-pass-through, guard evaluation.

Python's statement forms are structured, so instead of an explicit graph the analyses below are
syntax directed: `outcomes()` is a linear-time abstract interpretation with a one-bit state
("has a statement satisfying P been executed"), `enumerate_paths()` lists acyclic paths (loops
taken 0 or 1 times) as sequences of steps for the rules that need to look at orderings and
path conditions.
"""
from __future__ import annotations

import ast
import itertools
from dataclasses import dataclass
from typing import Callable, Dict, Iterable, Iterator, List, Optional, Sequence, Set, Tuple

from .index import AnalysisError, src

FALL, RETURN, RAISE, BREAK, CONTINUE = "fall", "return", "raise", "break", "continue"


@dataclass
class Step:
    kind: str  # stmt | assume | with | loop | partial | except
    node: ast.AST
    truth: Optional[bool] = None

    def __repr__(self):
        t = "" if self.truth is None else ("=T" if self.truth else "=F")
        return "<%s%s %s>" % (self.kind, t, " ".join(src(self.node).split())[:70])


@dataclass
class Path:
    steps: List[Step]
    outcome: str
    end: Optional[ast.AST] = None

    def stmts(self) -> List[ast.AST]:
        return [s.node for s in self.steps if s.kind in ("stmt", "partial")]

    def condition(self) -> List[Tuple[str, bool]]:
        return [(src(s.node), s.truth) for s in self.steps if s.kind == "assume"]


class PathLimit(AnalysisError):
    pass


def _has_call(node: ast.AST) -> bool:
    return any(isinstance(n, ast.Call) for n in ast.walk(node))


def enumerate_paths(body: Sequence[ast.stmt], limit: int = 50000, exceptional: bool = False) -> List[Path]:
    """All acyclic paths through `body` (loops 0/1 times).  With `exceptional`, every call-bearing
    statement may additionally raise (to the innermost handler/finally, else out of the function)."""
    counter = [0]

    def seq(stmts: Sequence[ast.stmt]) -> Iterator[Tuple[List[Step], str, Optional[ast.AST]]]:
        if not stmts:
            yield [], FALL, None
            return
        head, rest = stmts[0], stmts[1:]
        for steps, out, end in one(head):
            if out == FALL:
                for s2, o2, e2 in seq(rest):
                    yield steps + s2, o2, e2
            else:
                yield steps, out, end

    def one(st: ast.stmt) -> Iterator[Tuple[List[Step], str, Optional[ast.AST]]]:
        counter[0] += 1
        if counter[0] > limit * 20:
            raise PathLimit("path enumeration exceeded limit")
        if isinstance(st, ast.If):
            for steps, out, end in seq(st.body):
                yield [Step("assume", st.test, True)] + steps, out, end
            for steps, out, end in seq(st.orelse):
                yield [Step("assume", st.test, False)] + steps, out, end
        elif isinstance(st, (ast.For, ast.AsyncFor, ast.While)):
            head = st.iter if not isinstance(st, ast.While) else st.test
            # zero iterations
            for steps, out, end in seq(st.orelse):
                yield [Step("loop", head, False)] + steps, out, end
            # one iteration
            for steps, out, end in seq(st.body):
                pre = [Step("loop", head, True)]
                if not isinstance(st, ast.While):
                    pre.append(Step("stmt", ast.Assign(targets=[st.target], value=ast.Call(func=ast.Name(id="__iter_item__", ctx=ast.Load()), args=[st.iter], keywords=[]), lineno=st.lineno, col_offset=0)))
                if out == BREAK:
                    yield pre + steps, FALL, None
                elif out in (FALL, CONTINUE):
                    for s2, o2, e2 in seq(st.orelse):
                        yield pre + steps + s2, o2, e2
                else:
                    yield pre + steps, out, end
        elif isinstance(st, (ast.With, ast.AsyncWith)):
            for steps, out, end in seq(st.body):
                yield [Step("with", st)] + steps + [Step("endwith", st)], out, end
            if exceptional:
                yield [Step("with", st)], RAISE, st
        elif isinstance(st, ast.Try) or st.__class__.__name__ == "TryStar":
            fin = list(st.finalbody)

            def with_finally(steps, out, end):
                if not fin:
                    yield steps, out, end
                    return
                for s2, o2, e2 in seq(fin):
                    if o2 == FALL:
                        yield steps + s2, out, end
                    else:
                        yield steps + s2, o2, e2

            for steps, out, end in seq(st.body):
                if out == FALL:
                    for s2, o2, e2 in seq(st.orelse):
                        yield from with_finally(steps + s2, o2, e2)
                elif out == RAISE and st.handlers:
                    for h in st.handlers:
                        for s2, o2, e2 in seq(h.body):
                            yield from with_finally(steps + [Step("except", h)] + s2, o2, e2)
                    yield from with_finally(steps, out, end)
                else:
                    yield from with_finally(steps, out, end)
            # exception raised at statement i of the try body (top-level granularity)
            for i, bst in enumerate(st.body):
                if not _has_call(bst):
                    continue
                prefixes = list(seq(st.body[:i]))
                for psteps, pout, _ in prefixes:
                    if pout != FALL:
                        continue
                    part = psteps + [Step("partial", bst)]
                    for h in st.handlers:
                        for s2, o2, e2 in seq(h.body):
                            yield from with_finally(part + [Step("except", h)] + s2, o2, e2)
                    if exceptional or not st.handlers:
                        if exceptional:
                            yield from with_finally(part, RAISE, bst)
        elif isinstance(st, ast.Return):
            yield [Step("stmt", st)], RETURN, st
        elif isinstance(st, ast.Raise):
            yield [Step("stmt", st)], RAISE, st
        elif isinstance(st, ast.Break):
            yield [], BREAK, st
        elif isinstance(st, ast.Continue):
            yield [], CONTINUE, st
        elif st.__class__.__name__ == "Match":
            for case in st.cases:
                for steps, out, end in seq(case.body):
                    yield [Step("assume", case.pattern, True)] + steps, out, end
            yield [Step("assume", st.subject, False)], FALL, None
        elif isinstance(st, (ast.FunctionDef, ast.AsyncFunctionDef, ast.ClassDef)):
            yield [Step("stmt", st)], FALL, None
        else:
            yield [Step("stmt", st)], FALL, None
            if exceptional and _has_call(st):
                yield [Step("partial", st)], RAISE, st

    out: List[Path] = []
    for steps, o, end in seq(list(body)):
        out.append(Path(steps, o, end))
        if len(out) > limit:
            raise PathLimit("more than %d paths" % limit)
    return out


def consistent(path: Path, pure_atoms: bool = True) -> bool:
    """Reject paths that assume the same (textually identical, side-effect free) test both ways with no
    intervening assignment to any name/attribute chain occurring in the test."""
    seen: Dict[str, Tuple[bool, int]] = {}
    for i, s in enumerate(path.steps):
        if s.kind == "assume":
            key, truth = src(s.node), s.truth
            neg = False
            n = s.node
            while isinstance(n, ast.UnaryOp) and isinstance(n.op, ast.Not):
                n = n.operand
                neg = not neg
            key = src(n)
            truth = (not truth) if neg else truth
            if key in seen:
                prev, j = seen[key]
                if prev != truth and not _written_between(path.steps[j:i], n):
                    return False
            seen[key] = (truth, i)
    return True


def _names_in(node: ast.AST) -> Set[str]:
    out = set()
    for n in ast.walk(node):
        if isinstance(n, ast.Name):
            out.add(n.id)
        elif isinstance(n, ast.Attribute):
            from .index import chain

            c = chain(n)
            if c:
                out.add(c)
    return out


def stores_of(node: ast.AST) -> Set[str]:
    from .index import chain

    out: Set[str] = set()
    for n in ast.walk(node):
        tg = []
        if isinstance(n, ast.Assign):
            tg = n.targets
        elif isinstance(n, (ast.AugAssign, ast.AnnAssign)):
            tg = [n.target]
        elif isinstance(n, (ast.For, ast.AsyncFor)):
            tg = [n.target]
        elif isinstance(n, ast.NamedExpr):
            tg = [n.target]
        elif isinstance(n, ast.Delete):
            tg = n.targets
        for t in tg:
            for e in ast.walk(t):
                c = chain(e) if isinstance(e, (ast.Name, ast.Attribute)) else None
                if c:
                    out.add(c)
    return out


def _written_between(steps: Sequence[Step], test: ast.AST) -> bool:
    names = _names_in(test)
    for s in steps:
        if s.kind in ("stmt", "partial"):
            w = stores_of(s.node)
            if w & names:
                return True
            # a call on an object mentioned in the test may mutate it: be conservative for method calls
            for c in ast.walk(s.node):
                if isinstance(c, ast.Call) and isinstance(c.func, ast.Attribute):
                    from .index import chain

                    base = chain(c.func.value)
                    if base and any(nm == base or nm.startswith(base + ".") for nm in names):
                        return True
    return False


# ------------------------------------------------------------------------------------------------
# linear-time must-pass-through
# ------------------------------------------------------------------------------------------------

Pred = Callable[[ast.AST], bool]


def outcomes(body: Sequence[ast.stmt], pred: Pred, start: bool = False, handlers_catch: bool = True) -> Set[Tuple[str, bool]]:
    """Set of (outcome, passed) reachable through `body`; `passed` = a node satisfying `pred` executed.
    `pred` is applied to simple statements and to the test/iter/with-item expressions of compound ones."""

    def expr_hit(e: Optional[ast.AST]) -> bool:
        return e is not None and pred(e)

    def seq(stmts, states: Set[bool]) -> Set[Tuple[str, bool]]:
        res: Set[Tuple[str, bool]] = set()
        cur = set(states)
        for st in stmts:
            nxt: Set[bool] = set()
            for s in cur:
                for o, p in one(st, s):
                    if o == FALL:
                        nxt.add(p)
                    else:
                        res.add((o, p))
            cur = nxt
            if not cur:
                break
        for s in cur:
            res.add((FALL, s))
        return res

    def one(st, s: bool) -> Set[Tuple[str, bool]]:
        if isinstance(st, ast.If):
            s1 = s or expr_hit(st.test)
            return seq(st.body, {s1}) | seq(st.orelse, {s1})
        if isinstance(st, (ast.For, ast.AsyncFor, ast.While)):
            head = st.test if isinstance(st, ast.While) else st.iter
            s1 = s or expr_hit(head)
            res = set()
            body_res = seq(st.body, {s1})
            after: Set[bool] = {s1}  # zero iterations
            for o, p in body_res:
                if o in (FALL, CONTINUE):
                    after.add(p)
                elif o == BREAK:
                    res.add((FALL, p))
                else:
                    res.add((o, p))
            res |= seq(st.orelse, after)
            return res
        if isinstance(st, (ast.With, ast.AsyncWith)):
            s1 = s or any(expr_hit(it.context_expr) for it in st.items)
            return seq(st.body, {s1})
        if isinstance(st, ast.Try) or st.__class__.__name__ == "TryStar":
            res = set()
            body_res = seq(st.body, {s})
            mid: Set[Tuple[str, bool]] = set()
            for o, p in body_res:
                if o == FALL:
                    mid |= seq(st.orelse, {p})
                else:
                    mid.add((o, p))
            if st.handlers and handlers_catch:
                # an exception may occur anywhere in the body: state on entry of handler is s or any state reachable
                hstates = {s} | {p for _, p in body_res}
                for h in st.handlers:
                    mid |= seq(h.body, hstates)
            if st.finalbody:
                for o, p in mid:
                    for o2, p2 in seq(st.finalbody, {p}):
                        res.add((o if o2 == FALL else o2, p2))
                return res
            return mid
        if isinstance(st, ast.Return):
            return {(RETURN, s or pred(st))}
        if isinstance(st, ast.Raise):
            return {(RAISE, s or pred(st))}
        if isinstance(st, ast.Break):
            return {(BREAK, s)}
        if isinstance(st, ast.Continue):
            return {(CONTINUE, s)}
        if st.__class__.__name__ == "Match":
            res = {(FALL, s)}
            for case in st.cases:
                res |= seq(case.body, {s})
            return res
        if isinstance(st, (ast.FunctionDef, ast.AsyncFunctionDef, ast.ClassDef)):
            return {(FALL, s)}
        return {(FALL, s or pred(st))}

    return seq(list(body), {start})


def all_normal_exits_pass(body: Sequence[ast.stmt], pred: Pred) -> bool:
    res = outcomes(body, pred)
    return not any(o in (FALL, RETURN) and not p for o, p in res)


def has_normal_exit(body: Sequence[ast.stmt]) -> bool:
    return any(o in (FALL, RETURN) for o, _ in outcomes(body, lambda n: False))


# ------------------------------------------------------------------------------------------------
# guard evaluation over atoms
# ------------------------------------------------------------------------------------------------

def guard_atoms(expr: ast.AST) -> List[str]:
    out: List[str] = []

    def rec(e):
        if isinstance(e, ast.BoolOp):
            for v in e.values:
                rec(v)
        elif isinstance(e, ast.UnaryOp) and isinstance(e.op, ast.Not):
            rec(e.operand)
        else:
            t = src(e)
            if t not in out:
                out.append(t)

    rec(expr)
    return out


def eval_guard(expr: ast.AST, env: Dict[str, bool]) -> Optional[bool]:
    if isinstance(expr, ast.BoolOp):
        vals = [eval_guard(v, env) for v in expr.values]
        if isinstance(expr.op, ast.And):
            if any(v is False for v in vals):
                return False
            return None if any(v is None for v in vals) else True
        if any(v is True for v in vals):
            return True
        return None if any(v is None for v in vals) else False
    if isinstance(expr, ast.UnaryOp) and isinstance(expr.op, ast.Not):
        v = eval_guard(expr.operand, env)
        return None if v is None else (not v)
    if isinstance(expr, ast.Constant):
        return bool(expr.value)
    t = src(expr)
    if t in env:
        return env[t]
    # a != b  <->  not (a == b), `is not` <-> not `is`
    if isinstance(expr, ast.Compare) and len(expr.ops) == 1:
        flip = {ast.NotEq: ast.Eq, ast.Eq: ast.NotEq, ast.IsNot: ast.Is, ast.Is: ast.IsNot, ast.NotIn: ast.In, ast.In: ast.NotIn}
        for a, b in flip.items():
            if isinstance(expr.ops[0], a):
                alt = ast.Compare(left=expr.left, ops=[b()], comparators=expr.comparators)
                t2 = src(alt)
                if t2 in env:
                    return not env[t2]
    return None


def assignments(atoms: Sequence[str]) -> Iterator[Dict[str, bool]]:
    if len(atoms) > 8:
        raise AnalysisError("guard with more than 8 atoms: %s" % (atoms,))
    for vals in itertools.product([False, True], repeat=len(atoms)):
        yield dict(zip(atoms, vals))


def executes_under(body: Sequence[ast.stmt], pred: Pred, env: Dict[str, bool]) -> Optional[bool]:
    """Does a statement satisfying `pred` execute on *every* normal path of `body` that is feasible under the
    truth assignment `env` of guard atoms?  None if some guard on the way is undetermined by env."""
    undetermined = [False]

    def seq(stmts) -> Tuple[bool, bool]:
        """returns (passed_on_all_fallthrough_paths, can_fall_through)"""
        passed = False
        for st in stmts:
            if isinstance(st, ast.If):
                v = eval_guard(st.test, env)
                if v is True:
                    p, f = seq(st.body)
                elif v is False:
                    p, f = seq(st.orelse)
                else:
                    p1, f1 = seq(st.body)
                    p2, f2 = seq(st.orelse)
                    if p1 != p2:
                        undetermined[0] = True
                    p = (p1 or not f1) and (p2 or not f2)
                    f = f1 or f2
                passed = passed or p
                if not f:
                    return passed, False
            elif isinstance(st, (ast.Return, ast.Raise)):
                if pred(st):
                    passed = True
                return passed, False
            elif isinstance(st, (ast.With, ast.AsyncWith)):
                p, f = seq(st.body)
                passed = passed or p
                if not f:
                    return passed, False
            elif isinstance(st, ast.Try):
                p, f = seq(st.body)
                passed = passed or p
                if st.finalbody:
                    p2, f2 = seq(st.finalbody)
                    passed = passed or p2
            elif isinstance(st, (ast.For, ast.While)):
                pass  # loops may run zero times: contribute nothing
            else:
                if pred(st):
                    passed = True
        return passed, True

    p, _ = seq(list(body))
    if undetermined[0] and not p:
        return None
    return p
