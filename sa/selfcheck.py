"""Checker self-validation on scratch copies of the current tree (thorough tier).

For every seeded-fault variant of a property the rule must fire and name that instance; for every benign
variant it must stay silent.  Variants are text edits (exact, unique snippet -> replacement) or callables applied
to a scratch copy of /repo/gpytorch in a temporary directory outside /repo and /verif; each copy is removed as
soon as the variant is judged.  Only the *static* checker is run on the copies; nothing is executed.
"""
from __future__ import annotations

import ast
import importlib
import multiprocessing as mp
import os
import shutil
import tempfile
import time
import traceback
from dataclasses import dataclass, field
from typing import Callable, Dict, List, Optional, Tuple, Union

from .index import AnalysisError
from .report import VIOLATED


@dataclass
class Variant:
    name: str
    file: str  # path relative to the repository root, e.g. gpytorch/settings.py
    old: Optional[str] = None  # exact snippet that must occur exactly once
    new: Optional[str] = None
    expect: str = "fire"  # fire | silent
    rule: Optional[str] = None  # rule that must fire
    instance: Optional[str] = None  # substring of the instance key that must be named
    edits: Optional[List[Tuple[str, str, str]]] = None  # additional (file, old, new)
    func: Optional[str] = None  # name of a generic transformation ("unparse-all", ...)
    count: int = 1  # how many occurrences of `old` are expected (all replaced)
    gone: Optional[str] = None  # silent variants that repair a known finding: "<rule> <instance substring>" that must no longer be violated


def _copy_tree(repo: str, dst: str):
    shutil.copytree(os.path.join(repo, "gpytorch"), os.path.join(dst, "gpytorch"),
                    ignore=shutil.ignore_patterns("__pycache__", "*.pyc"))


def _apply(v: Variant, root: str) -> Optional[str]:
    """returns None on success or a reason for skipping"""
    if v.func == "unparse-all":
        for dirpath, _, files in os.walk(os.path.join(root, "gpytorch")):
            for fn in files:
                if fn.endswith(".py"):
                    p = os.path.join(dirpath, fn)
                    with open(p) as fh:
                        s = fh.read()
                    import warnings
                    with warnings.catch_warnings():
                        warnings.simplefilter("ignore")
                        t = ast.parse(s)
                    with open(p, "w") as fh:
                        fh.write("\n\n\n# reformatted by ast.unparse (comments dropped, lines moved)\n" + ast.unparse(t) + "\n")
        return None
    if v.func == "rename-locals":
        for dirpath, _, files in os.walk(os.path.join(root, "gpytorch")):
            for fn in files:
                if fn.endswith(".py"):
                    p = os.path.join(dirpath, fn)
                    with open(p) as fh:
                        s = fh.read()
                    import warnings
                    with warnings.catch_warnings():
                        warnings.simplefilter("ignore")
                        t = ast.parse(s)
                    rename_locals(t)
                    with open(p, "w") as fh:
                        fh.write(ast.unparse(t) + "\n")
        return None
    if v.func == "apply-patch":
        import subprocess
        r = subprocess.run(["git", "apply", "--whitespace=nowarn", v.file], cwd=root, stdout=subprocess.PIPE, stderr=subprocess.STDOUT)
        if r.returncode != 0:
            return "patch no longer applies to the current tree (%s)" % r.stdout.decode(errors="replace").strip().splitlines()[-1][:120]
        return None
    if v.func in ("return-via-local", "negate-ifs", "split-chains"):
        fn = {"return-via-local": return_via_local, "negate-ifs": negate_ifs, "split-chains": split_chains}[v.func]
        for dirpath, _, files in os.walk(os.path.join(root, "gpytorch")):
            for f_ in files:
                if f_.endswith(".py"):
                    p = os.path.join(dirpath, f_)
                    with open(p) as fh:
                        s = fh.read()
                    import warnings
                    with warnings.catch_warnings():
                        warnings.simplefilter("ignore")
                        t = ast.parse(s)
                    fn(t)
                    with open(p, "w") as fh:
                        fh.write(ast.unparse(ast.fix_missing_locations(t)) + "\n")
        return None
    if v.func == "shift-lines":
        for dirpath, _, files in os.walk(os.path.join(root, "gpytorch")):
            for fn in files:
                if fn.endswith(".py"):
                    p = os.path.join(dirpath, fn)
                    with open(p) as fh:
                        s = fh.read()
                    with open(p, "w") as fh:
                        fh.write("# line shift\n" * 7 + s)
        return None
    edits = [(v.file, v.old, v.new, v.count)] + [tuple(e) + ((1,) if len(e) == 3 else ()) for e in (v.edits or [])]
    for i, (f, old, new, want) in enumerate(edits):
        p = os.path.join(root, f)
        if not os.path.isfile(p):
            return "file %s not present" % f
        with open(p) as fh:
            s = fh.read()
        n = s.count(old)
        if n != want:
            return "target snippet occurs %d times in %s (expected %d)" % (n, f, want)
        with open(p, "w") as fh:
            fh.write(s.replace(old, new))
    return None


def _run_variant(args) -> dict:
    prop, repo, v, base_viol = args
    from .main import run_property

    tmp = tempfile.mkdtemp(prefix="sa-variant-")
    t0 = time.time()
    try:
        _copy_tree(repo, tmp)
        why = _apply(v, tmp)
        if why is not None:
            return {"name": v.name, "verdict": "skipped", "why": why}
        # the scratch copy must still compile
        for f in ({v.file} | {e[0] for e in (v.edits or [])}) if (v.file and not v.func) else set():
            with open(os.path.join(tmp, f)) as fh:
                try:
                    ast.parse(fh.read())
                except SyntaxError as e:
                    return {"name": v.name, "verdict": "broken-variant", "why": "variant does not parse: %s" % e}
        try:
            _, rep = run_property(prop, "quick", tmp, quiet=True)
        except AnalysisError as e:
            if v.expect == "fire":
                # an exit-2 is a detection too (never a silent pass), but the variant asked for a named instance
                return {"name": v.name, "verdict": "analysis-error", "why": str(e)[:300], "ok": v.rule is None}
            return {"name": v.name, "verdict": "analysis-error", "why": str(e)[:300], "ok": False}
        viol = [(o.rule, o.instance, o.detail) for o in rep.obligations if o.status == VIOLATED]
        new = [x for x in viol if (x[0], x[1]) not in base_viol]
        if not new and rep.deferred_errors:
            return {"name": v.name, "verdict": "analysis-error", "why": rep.deferred_errors[0][:300], "ok": v.expect == "fire" and v.rule is None}
        if v.expect == "silent":
            ok = not new
            if ok and v.gone:
                g_rule, _, g_inst = v.gone.partition(" ")
                still = [x for x in viol if x[0] == g_rule and g_inst in x[1]]
                if still:
                    return {"name": v.name, "verdict": "repair-not-recognised", "ok": False, "new": still[:2], "s": round(time.time() - t0, 2)}
            return {"name": v.name, "verdict": "silent" if ok else "false-alarm", "ok": ok, "new": new[:3], "s": round(time.time() - t0, 2)}
        hit = [x for x in new if (v.rule is None or x[0] == v.rule) and (v.instance is None or v.instance in x[1])]
        return {"name": v.name, "verdict": "fired" if hit else ("fired-elsewhere" if new else "missed"), "ok": bool(hit),
                "new": [(r, i) for r, i, _ in new[:4]], "s": round(time.time() - t0, 2)}
    except Exception:
        return {"name": v.name, "verdict": "crash", "ok": False, "why": traceback.format_exc()[-600:]}
    finally:
        shutil.rmtree(tmp, ignore_errors=True)


def rename_locals(tree: ast.AST, suffix: str = "_rn"):
    """Behaviour-preserving refactoring: every plain local variable of every function (assigned by `=`, augmented assignment,
    for/with/comprehension targets; not a parameter, not global/nonlocal, not bound by import/except/def/class, not used by a
    nested def or lambda) gets a new name.  Attribute names, keyword names and parameters stay."""

    def locals_of(fn) -> set:
        stores, banned = set(), set()
        a = fn.args
        for x in a.posonlyargs + a.args + a.kwonlyargs + ([a.vararg] if a.vararg else []) + ([a.kwarg] if a.kwarg else []):
            banned.add(x.arg)

        def walk(n, top=True):
            for ch in ast.iter_child_nodes(n):
                if isinstance(ch, (ast.FunctionDef, ast.AsyncFunctionDef, ast.Lambda, ast.ClassDef)):
                    if not isinstance(ch, ast.Lambda):
                        banned.add(ch.name)
                    # any name a nested scope mentions keeps its spelling (closures, shadowing parameters)
                    for x in ast.walk(ch):
                        if isinstance(x, ast.Name):
                            banned.add(x.id)
                        if isinstance(x, ast.arg):
                            banned.add(x.arg)
                    continue
                if isinstance(ch, (ast.Global, ast.Nonlocal)):
                    banned.update(ch.names)
                if isinstance(ch, (ast.Import, ast.ImportFrom)):
                    for al in ch.names:
                        banned.add((al.asname or al.name).split(".")[0])
                if isinstance(ch, ast.ExceptHandler) and ch.name:
                    banned.add(ch.name)
                if isinstance(ch, ast.Name) and isinstance(ch.ctx, (ast.Store, ast.Del)):
                    stores.add(ch.id)
                if isinstance(ch, ast.Call) and isinstance(ch.func, ast.Name) and ch.func.id in ("locals", "vars", "eval", "exec"):
                    banned.add("*")
                walk(ch, False)

        walk(fn)
        if "*" in banned:
            return set()
        return {n for n in stores - banned if not n.startswith("__")}

    class R(ast.NodeTransformer):
        def __init__(self, names):
            self.names = names

        def visit_Name(self, n):
            if n.id in self.names:
                n.id = n.id + suffix
            return n

    for fn in [n for n in ast.walk(tree) if isinstance(n, (ast.FunctionDef, ast.AsyncFunctionDef))]:
        names = locals_of(fn)
        if not names:
            continue
        # do not descend into nested defs: their own pass handles them (names they mention were banned above)
        for st in fn.body:
            for sub in [st] if not isinstance(st, (ast.FunctionDef, ast.AsyncFunctionDef, ast.ClassDef)) else []:
                R(names).visit(sub)


def return_via_local(tree: ast.AST):
    """Behaviour-preserving refactoring: `return <expr>` becomes `_rv = <expr>; return _rv` (generators and lambdas untouched)."""

    class T(ast.NodeTransformer):
        def visit_Lambda(self, n):
            return n

        def _body(self, stmts):
            out = []
            for st in stmts:
                st = self.visit(st)
                if isinstance(st, ast.Return) and st.value is not None and not isinstance(st.value, (ast.Name, ast.Constant)):
                    out.append(ast.Assign(targets=[ast.Name(id="_rv", ctx=ast.Store())], value=st.value, lineno=st.lineno, col_offset=st.col_offset))
                    out.append(ast.Return(value=ast.Name(id="_rv", ctx=ast.Load()), lineno=st.lineno, col_offset=st.col_offset))
                else:
                    out.append(st)
            return out

        def generic_visit(self, n):
            for fld in ("body", "orelse", "finalbody"):
                v = getattr(n, fld, None)
                if isinstance(v, list) and v and isinstance(v[0], ast.stmt):
                    setattr(n, fld, self._body(v))
            for h in getattr(n, "handlers", []) or []:
                h.body = self._body(h.body)
            for c in getattr(n, "cases", []) or []:
                c.body = self._body(c.body)
            return n

    T().visit(tree)


def split_chains(tree: ast.AST):
    """Behaviour-preserving refactoring: in `x = <recv>.g(args)` / `return <recv>.g(args)` where <recv> is itself a call, the
    receiver is bound to a fresh local first (`_c1 = <recv>; x = _c1.g(args)`); the receiver is evaluated before the arguments
    either way.  Only statements directly in function bodies (not in class bodies, lambdas, comprehensions)."""
    counter = [0]

    def rewrite(stmts):
        out = []
        for st in stmts:
            for fld in ("body", "orelse", "finalbody"):
                v = getattr(st, fld, None)
                if isinstance(v, list) and v and isinstance(v[0], ast.stmt) and not isinstance(st, (ast.FunctionDef, ast.AsyncFunctionDef, ast.ClassDef)):
                    setattr(st, fld, rewrite(v))
            for h in getattr(st, "handlers", []) or []:
                h.body = rewrite(h.body)
            val = st.value if isinstance(st, (ast.Assign, ast.Return)) else None
            if isinstance(val, ast.Call) and isinstance(val.func, ast.Attribute) and isinstance(val.func.value, ast.Call) \
                    and not (isinstance(val.func.value.func, ast.Name) and val.func.value.func.id == "super"):
                counter[0] += 1
                nm = "_c%d" % counter[0]
                pre = ast.Assign(targets=[ast.Name(id=nm, ctx=ast.Store())], value=val.func.value, lineno=st.lineno, col_offset=st.col_offset)
                val.func.value = ast.Name(id=nm, ctx=ast.Load())
                out.append(pre)
            out.append(st)
        return out

    for fn in [n for n in ast.walk(tree) if isinstance(n, (ast.FunctionDef, ast.AsyncFunctionDef))]:
        fn.body = rewrite(fn.body)


def negate_ifs(tree: ast.AST):
    """Behaviour-preserving refactoring: `if c: A else: B` (B non-empty, no elif chain) becomes `if not c: B else: A`."""
    for n in ast.walk(tree):
        if isinstance(n, ast.If) and n.orelse and not (len(n.orelse) == 1 and isinstance(n.orelse[0], ast.If)):
            n.test = n.test.operand if isinstance(n.test, ast.UnaryOp) and isinstance(n.test.op, ast.Not) else ast.UnaryOp(op=ast.Not(), operand=n.test)
            n.body, n.orelse = n.orelse, n.body


GENERIC = [
    Variant("benign: receivers of chained calls are bound to a local first", "", func="split-chains", expect="silent"),
    Variant("benign: every `return <expr>` goes through a local variable", "", func="return-via-local", expect="silent"),
    Variant("benign: every two-armed if has its condition negated and its arms exchanged", "", func="negate-ifs", expect="silent"),
    Variant("benign: every local variable of every function renamed (ast-level refactoring)", "", func="rename-locals", expect="silent"),
    Variant("benign: ast.unparse of every file (comments dropped, every line moved)", "", func="unparse-all", expect="silent"),
    Variant("benign: seven lines inserted at the top of every file", "", func="shift-lines", expect="silent"),
]


def seed_variants(prop: str) -> List[Variant]:
    """the kept independent seeded changes (seeded/<id>/patch.diff) that this property's check is recorded to report: each must
    keep being reported by (one of) the recorded rule(s)"""
    import glob
    import json
    out = []
    base = os.path.join(os.path.dirname(os.path.dirname(os.path.abspath(__file__))), "seeded")
    for mf in sorted(glob.glob(os.path.join(base, "*", "meta.json"))):
        try:
            m = json.load(open(mf))
        except Exception:
            continue
        if prop not in m.get("caught_by_checks", []):
            continue
        rules = sorted({v.split()[1] for v in m.get("violations", {}).get(prop, []) if v.startswith("violated")})
        patch = os.path.join(os.path.dirname(mf), "patch.diff")
        if not rules or not os.path.isfile(patch):
            continue
        out.append(Variant("independent seeded change %s (%s)" % (m["id"], "/".join(rules)), patch, func="apply-patch", expect="fire", rule=rules[0] if len(rules) == 1 else None))
    return out


def load_variants(prop: str) -> List[Variant]:
    try:
        mod = importlib.import_module("selftest.variants.%s" % prop.lower())
    except ModuleNotFoundError:
        return list(GENERIC) + seed_variants(prop)
    return list(mod.VARIANTS) + list(GENERIC) + seed_variants(prop)


def self_validate(prop: str, repo: str, rep, jobs: int = 16) -> dict:
    variants = load_variants(prop)
    base_viol = {(o.rule, o.instance) for o in rep.obligations if o.status == VIOLATED}
    t0 = time.time()
    ctx = mp.get_context("fork")
    with ctx.Pool(min(jobs, max(1, len(variants)))) as pool:
        results = pool.map(_run_variant, [(prop, repo, v, base_viol) for v in variants], chunksize=1)
    failed = [r for r in results if r.get("verdict") not in ("skipped",) and not r.get("ok")]
    summary = {
        "variants": len(variants),
        "fault_variants_fired": len([r for r in results if r["verdict"] == "fired"]),
        "benign_variants_silent": len([r for r in results if r["verdict"] == "silent"]),
        "skipped": [r for r in results if r["verdict"] == "skipped"],
        "failed": failed,
        "wall_s": round(time.time() - t0, 2),
        "results": [{k: r[k] for k in ("name", "verdict") if k in r} for r in results],
    }
    print("   self-validation: %d variants, %d seeded faults detected, %d benign variants silent, %d skipped, %d failed (%.1fs)"
          % (len(variants), summary["fault_variants_fired"], summary["benign_variants_silent"], len(summary["skipped"]), len(failed), summary["wall_s"]))
    for r in results:
        if r["verdict"] == "skipped":
            print("     skipped %s: %s" % (r["name"], r.get("why")))
    for r in failed:
        print("     FAILED %s: %s %s %s" % (r["name"], r["verdict"], r.get("why", ""), r.get("new", "")))
    has_base_violation = bool(base_viol - _known_keys(rep))
    if failed and not has_base_violation:
        raise AnalysisError("self-validation failed for %d variant(s): %s" % (len(failed), ", ".join(r["name"] for r in failed)))
    return summary


def _known_keys(rep) -> set:
    return {(k["rule"], k["instance"]) for k in rep._known()}
