"""Obligations, verdicts, evidence and replay files."""
from __future__ import annotations

import json
import os
import time
from dataclasses import dataclass, field, asdict
from typing import Any, Dict, List, Optional

from .index import AnalysisError

VERIF = os.path.dirname(os.path.dirname(os.path.abspath(__file__)))

OK, VIOLATED, OBSERVATION = "discharged", "violated", "observation"


@dataclass
class Obligation:
    rule: str
    instance: str
    where: str
    status: str
    detail: str = ""
    facts: Dict[str, Any] = field(default_factory=dict)
    trivial: bool = False

    def key(self):
        return (self.rule, self.instance)


class Report:
    def __init__(self, prop: str, tier: str, repo: str):
        self.prop = prop
        self.tier = tier
        self.repo = repo
        self.obligations: List[Obligation] = []
        self.analysed: Dict[str, Any] = {}
        self.assumptions: List[str] = []
        self.notes: List[str] = []
        self.rules: Dict[str, str] = {}
        self.t0 = time.time()
        self.explanation = ""
        self.selfcheck: Optional[Dict[str, Any]] = None
        self.deferred_errors: List[str] = []

    # ---- recording ------------------------------------------------------------------------------
    def _rules_not_in_explanation(self) -> str:
        """the prose explanation of a property was written with its first rules; rules added later are appended by title so that the
        evidence file describes everything that was decided"""
        later = [(k, v) for k, v in sorted(self.rules.items(), key=lambda kv: (len(kv[0]), kv[0])) if k not in self.explanation]
        if not later:
            return ""
        return " Further rules decided on this run: " + "; ".join("%s %s" % (k, v) for k, v in later) + "."

    def rule(self, rid: str, text: str):
        self.rules[rid] = text

    def add(self, rule: str, instance: str, where: str, ok: bool, detail: str = "", facts: Optional[dict] = None, trivial=False):
        o = Obligation(rule, instance, where, OK if ok else VIOLATED, detail, facts or {}, trivial)
        self.obligations.append(o)
        return o

    def observe(self, rule: str, instance: str, where: str, detail: str, facts: Optional[dict] = None):
        self.obligations.append(Obligation(rule, instance, where, OBSERVATION, detail, facts or {}, True))

    def floor(self, rule: str, what: str, count: int, minimum: int):
        self.analysed["%s %s" % (rule, what)] = count
        if count < minimum:
            # deferred: a violation found on the same run takes precedence over the floor (exit 1, not exit 2)
            self.deferred_errors.append(
                "%s: instance floor not met for %s: matched %d, confirmed by hand on the pinned tree: %d "
                "(a rule that matches fewer sites than confirmed would pass vacuously)" % (rule, what, count, minimum)
            )

    def assume(self, text: str):
        if text not in self.assumptions:
            self.assumptions.append(text)

    def note(self, text: str):
        self.notes.append(text)

    # ---- known findings -------------------------------------------------------------------------
    def _known(self) -> List[dict]:
        p = os.path.join(VERIF, "known_findings.json")
        if not os.path.exists(p):
            return []
        with open(p) as fh:
            data = json.load(fh)
        return [e for e in data.get("findings", []) if e.get("property") == self.prop and e.get("kind") == "finding"]

    # ---- finish ---------------------------------------------------------------------------------
    def finish(self, seed: int = 0, quiet: bool = False) -> int:
        known = self._known()
        viol = [o for o in self.obligations if o.status == VIOLATED]
        okc = [o for o in self.obligations if o.status == OK]
        obs = [o for o in self.obligations if o.status == OBSERVATION]
        listed, unlisted = [], []
        for o in viol:
            m = [k for k in known if k["rule"] == o.rule and k["instance"] == o.instance]
            (listed if m else unlisted).append((o, m[0] if m else None))
        out_dir = os.path.join(VERIF, "out")
        os.makedirs(out_dir, exist_ok=True)

        if not quiet:
            print("== %s tier=%s repo=%s" % (self.prop, self.tier, self.repo))
            for k, v in self.analysed.items():
                print("   analysed: %s = %s" % (k, v))
            byrule: Dict[str, List[Obligation]] = {}
            for o in self.obligations:
                byrule.setdefault(o.rule, []).append(o)
            for r in sorted(byrule):
                os_ = byrule[r]
                print(
                    "   rule %-8s %3d obligations, %3d discharged, %d violated, %d observations  -- %s"
                    % (r, len([o for o in os_ if o.status != OBSERVATION]), len([o for o in os_ if o.status == OK]),
                       len([o for o in os_ if o.status == VIOLATED]), len([o for o in os_ if o.status == OBSERVATION]),
                       self.rules.get(r, ""))
                )
            for o in obs:
                print("   observation %s %s @ %s: %s" % (o.rule, o.instance, o.where, o.detail))
            for n in self.notes:
                print("   note: %s" % n)
        for o, k in listed:
            print("KNOWN-FINDING: property=%s %s [%s %s @ %s]" % (self.prop, k.get("what", o.detail), o.rule, o.instance, o.where))
        # stale known findings are reported (not an error: the defect may have been repaired)
        for k in known:
            if not any(k["rule"] == o.rule and k["instance"] == o.instance for o in viol):
                print("   note: known finding no longer reproduced by the analysis: %s %s" % (k["rule"], k["instance"]))
        n = 0
        for o, _ in unlisted:
            n += 1
            rp = os.path.join(out_dir, "%s-violation-%d.json" % (self.prop, n))
            with open(rp, "w") as fh:
                json.dump({"property": self.prop, "obligation": asdict(o), "rule_text": self.rules.get(o.rule, ""),
                           "repo": self.repo, "tier": self.tier,
                           "replay": "./check %s --replay %s" % (self.prop, rp)}, fh, indent=1, default=str)
            print("   violated %s instance=%s @ %s: %s" % (o.rule, o.instance, o.where, o.detail))
            print("VIOLATION property=%s replay=%s" % (self.prop, rp))
        self._write_evidence(seed, len(unlisted), len(listed))
        if not quiet:
            print("== %s: %d obligations, %d discharged, %d known findings, %d violations, %.2fs"
                  % (self.prop, len(okc) + len(viol), len(okc), len(listed), len(unlisted), time.time() - self.t0))
        if unlisted:
            return 1
        if self.deferred_errors:
            for e in self.deferred_errors:
                print("ANALYSIS-ERROR property=%s %s" % (self.prop, e))
            return 2
        return 0

    def _write_evidence(self, seed: int, nviol: int, nknown: int):
        real = [o for o in self.obligations if o.status != OBSERVATION]
        distinct = {o.key() for o in real if not o.trivial}
        samples = []
        seen_rules = set()
        for o in real:  # one sample per rule first, then fill up
            if o.rule not in seen_rules:
                seen_rules.add(o.rule)
                samples.append(asdict(o))
        for o in real:
            if len(samples) >= 40:
                break
            d = asdict(o)
            if d not in samples:
                samples.append(d)
        cov = {
            "explanation": self.explanation + self._rules_not_in_explanation(),
            "obligations": len(real),
            "discharged": len([o for o in real if o.status == OK]),
            "known_findings": nknown,
            "evaluations": len(real),
            "distinct_nontrivial": len(distinct),
            "rule": "one obligation per (rule, construct) instance enumerated from the current source tree; "
                    "non-trivial = the rule had to analyse a construct (path, call site, expression); "
                    "inventory/positive-control obligations are marked trivial and not counted; distinct = distinct (rule, instance) keys",
            "rules": self.rules,
            "analysed": self.analysed,
            "observations": [asdict(o) for o in self.obligations if o.status == OBSERVATION],
            "samples": samples,
            "checker_cmd": "./check %s --tier %s" % (self.prop, self.tier),
            "trusted_base": ["CPython ast parser", "sa/ engine (index, cfg, domains)", "frozen tables in sa/rules (each entry with a reason)"],
            "exhaustive": True,
        }
        if self.selfcheck is not None:
            cov["self_validation"] = self.selfcheck
        ev = {
            "property_id": self.prop,
            "tier": self.tier,
            "seed": seed,
            "level": "other",
            "coverage": cov,
            "assumptions": self.assumptions,
            "wall_s": round(time.time() - self.t0, 3),
            "violations": nviol,
        }
        d = os.path.join(VERIF, "evidence")
        os.makedirs(d, exist_ok=True)
        tmp = os.path.join(d, ".%s.json.tmp" % self.prop)
        with open(tmp, "w") as fh:
            json.dump(ev, fh, indent=1, default=str)
        os.replace(tmp, os.path.join(d, "%s.json" % self.prop))
