"""Shared rule: no in-place aliasing hazard (storage/version domain of C19) in a given set of functions.

A hazard is: an operand overwritten in place through a view by a later operand of the same call, a stale read (storage updated
through another name), or a write into the caller's tensor (an argument) - except the accumulator idiom, where the argument that
is updated in place is the value the function returns.
"""
from __future__ import annotations

import ast
from typing import Iterable, List

from ..index import AnalysisError, FuncInfo, ProgramIndex
from ..report import Report


def _returned_names(fi: FuncInfo) -> set:
    out = set()
    for r in ast.walk(fi.node):
        if isinstance(r, ast.Return) and r.value is not None:
            for x in ast.walk(r.value):
                if isinstance(x, ast.Name):
                    out.add(x.id)
    return out


def fresh_properties(cls) -> set:
    """properties whose every return is a computed (non-view) value: reading them yields a fresh tensor"""
    from ..domains.storage import VIEW_METHODS
    out = set()
    if cls is None:
        return out
    methods = cls.all_methods()

    def fresh_return(r, depth=0) -> bool:
        if isinstance(r, (ast.BinOp, ast.UnaryOp)):
            return True
        if isinstance(r, ast.Call) and isinstance(r.func, ast.Attribute):
            if r.func.attr in VIEW_METHODS or r.func.attr.endswith("_"):
                return False
            if isinstance(r.func.value, ast.Name) and r.func.value.id == "self":
                # a method of the object: fresh only if that method is not memoised and itself returns computed values
                t = methods.get(r.func.attr)
                if t is None or t.cached_decorator() is not None or depth > 1:
                    return False
                rr = [x.value for x in ast.walk(t.node) if isinstance(x, ast.Return) and x.value is not None]
                return bool(rr) and all(fresh_return(x, depth + 1) for x in rr)
            return True
        if isinstance(r, ast.Call) and isinstance(r.func, ast.Name):
            return True
        return False

    for name, m in methods.items():
        if m.kind != "property" or m.cached_decorator() is not None:
            continue
        rets = [r.value for r in ast.walk(m.node) if isinstance(r, ast.Return) and r.value is not None]
        if rets and all(fresh_return(r) for r in rets):
            out.add(name)
    return out


def aliasing_obligations(idx: ProgramIndex, rep: Report, rule: str, funcs: Iterable[FuncInfo], floor: int, what: str, only_state: bool = False, arg_attrs_alias: bool = False, helper_functions: bool = False):
    from .c19 import interp_function

    n = 0
    seen = set()
    for fi in funcs:
        if id(fi.node) in seen or not fi.params or fi.kind == "staticmethod":
            continue
        seen.add(id(fi.node))
        try:
            track = fi.cls is not None and fi.name != "__init__"
            if fi.cls is None and helper_functions:
                # a module-level function has no `self`: every parameter is an argument of the caller
                import copy as _copy
                node = _copy.deepcopy(fi.node)
                node.args.args.insert(0, ast.arg(arg="__ctx__"))
                fi = FuncInfo(fi.module, fi.cls, fi.name, node, fi.decorators, fi.kind)
            probs, npaths = interp_function(fi, "helper" if fi.cls is None else "method", set(), {}, track_state=track, fresh_properties=fresh_properties(fi.cls) if track else None, arg_attrs_alias=arg_attrs_alias)
            if only_state:
                probs = [p for p in probs if "owned by the object" in p]
        except AnalysisError as e:
            rep.observe(rule, "%s:%s" % (fi.module.name, fi.qualname), fi.where, "not analysed (%s)" % str(e)[:60])
            continue
        if npaths == 0:
            continue
        n += 1
        returned = _returned_names(fi)
        kept = []
        for p in probs:
            if "writes to the storage of an input" in p:
                # accumulator idiom: `acc.add_(...)` on a parameter that the function returns
                import re
                m = re.search(r"in-place update `(\w+)\.", p)
                if m and m.group(1) in fi.params and m.group(1) in returned:
                    continue
                p = p.replace("an input of the Function (autograd forbids it without mark_dirty; the caller's tensor is changed)", "an argument: the caller's tensor is changed")
            kept.append(p)
        rep.add(rule, "%s:%s" % (fi.module.name, fi.qualname), fi.where, not kept,
                "on all %d path(s): no operand overwritten through an alias, no stale reads, caller's tensors and object-owned tensors not written in place" % npaths if not kept else "; ".join(kept[:2]), {"paths": npaths}, trivial=not _has_inplace(fi))
    rep.floor(rule, what, n, floor)


def _has_inplace(fi: FuncInfo) -> bool:
    for c in ast.walk(fi.node):
        if isinstance(c, ast.Call) and isinstance(c.func, ast.Attribute) and c.func.attr.endswith("_") and not c.func.attr.endswith("__"):
            return True
        if isinstance(c, (ast.AugAssign,)):
            return True
        if isinstance(c, ast.Assign) and any(isinstance(t, ast.Subscript) for t in c.targets):
            return True
    return False
