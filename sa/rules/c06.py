"""C06 - diag, transpose, lazy evaluation and indexing of a kernel agree (structural clauses).

C06-1  active_dims has a single application point (Kernel.__call__); a kernel that calls a member kernel's forward directly
       takes over or applies the member's active_dims
C06-2  tensors that Kernel.__getitem__/expand_batch batch-transform are batch-leading, or are skipped
C06-3  temporary nulling of active_dims in evaluate_kernel is restored on all normal paths
C06-4  every re-construction of a LazyEvaluatedKernelTensor propagates kernel, inputs in order, last_dim_is_batch, params;
       transpose swaps x1/x2
C06-5  multi-output guard: slice division only after the divisibility and step tests
Does not decide numerical equality of diag/full paths.  (DESIGN.md section 4, C06.)
"""
from __future__ import annotations

import ast
from typing import Dict, List, Optional, Set, Tuple

from ..cfg import enumerate_paths, FALL, RETURN
from ..domains.shapeprefix import registrations
from ..index import (AnalysisError, ClassInfo, FuncInfo, ProgramIndex, body_without_docstring, call_name, calls_in, chain,
                     const_str, get_arg, is_super_call, norm, src, walk_no_nested)
from ..report import Report

# frozen tables ----------------------------------------------------------------------------------------------------------
DIRECT_FORWARD_TABLE = {
    # (class, member) -> reason why calling member.forward directly does not lose the member's active_dims (none today)
}
DIRECT_FORWARD_OBSERVED = {
    ("MultiDeviceKernel", "module"): "torch DataParallel wrapper for multi-GPU evaluation (constructor does not run Kernel.__init__); "
                                     "cannot be exercised without several devices, outside the CPU kernels the property quantifies over",
    ("GridKernel", "base_kernel"): "fall-through for x != grid outside interpolation mode; on the grid path the base kernel is reached through "
                                   "__call__ with per-dimension inputs, where active_dims on the base kernel has no column meaning",
}
NON_BATCH_TENSORS = {
    # (class, tensor name or prefix) -> why the tensor has no batch dimensions (confirmed by reading and by replay)
    ("Kernel", "active_dims"): "indexes input columns",
    ("GridKernel", "grid_"): "per-dimension grid projections (n_i x 1), shared by all batch elements",
    ("GridKernel", "full_grid"): "prod(n_i) x d grid, shared by all batch elements",
    ("GridInterpolationKernel", "has_initialized_grid"): "0-dim boolean flag",
    ("InducingPointKernel", "inducing_points"): "m x d as passed by the user; not expanded to the base kernel's batch shape",
}


def kernel_cls(idx: ProgramIndex) -> ClassInfo:
    return idx.cls("gpytorch.kernels.kernel", "Kernel")


def run(idx: ProgramIndex, rep: Report, tier: str):
    rep.explanation = (
        "Who-may-apply / who-may-bypass analysis of active_dims over all Kernel subclasses (direct member.forward calls must take "
        "over or apply the member's active_dims), shape-prefix abstract domain over every parameter/buffer registration to decide "
        "whether Kernel.__getitem__/expand_batch may batch-transform it (loops must skip non-batched tensors), save/null/restore "
        "pairing in evaluate_kernel, constructor-completeness at each LazyEvaluatedKernelTensor re-construction site (kernel, inputs "
        "in order, last_dim_is_batch, **params; transpose swaps), and dominance of the divisibility/step guard over the slice "
        "division for multi-output kernels. Numerical equality of the paths is not decided.")
    rep.rule("C06-1", "single application point of active_dims and no bypass through direct member.forward calls")
    rep.rule("C06-2", "non-batched tensors are never batch-transformed by Kernel.__getitem__ / expand_batch")
    rep.rule("C06-3", "temporary nulling of active_dims is restored on all normal paths")
    rep.rule("C06-4", "lazy re-construction sites propagate every field; transpose swaps x1/x2")
    rep.rule("C06-5", "multi-output slices are divided only after the divisibility and step guards")
    active_dims_discipline(idx, rep)
    batch_transform(idx, rep)
    evaluate_kernel_restore(idx, rep)
    lazy_reconstruction(idx, rep)
    multi_output_guard(idx, rep)
    rep.rule("C06-6", "x1 and x2 (rows and columns) are treated alike: the second input of every kernel evaluation / lazy re-construction is the twin of the first under the swap x1<->x2, row<->col")
    from .common_twin import twin_obligations
    twin_obligations(idx, rep, "C06-6", 30)
    derivative_diag_layout(idx, rep)
    lazy_batch_ops(idx, rep)
    block_shapes(idx, rep)
    own_batch_shape(idx, rep)
    sub_kernels_replaced_in_place(idx, rep)
    active_dims_order(idx, rep)
    diag_not_reclassified_by_shape(idx, rep)
    expand_shortcut_covers_members(idx, rep)
    lazy_tensor_of_a_member(idx, rep)
    outputs_per_input_of_members(idx, rep)


# ---- C06-1 ---------------------------------------------------------------------------------------------------------
def _member_attr(fi: FuncInfo, recv: ast.AST) -> Optional[str]:
    """`self.X` / `self.X[i]` / loop variable over self.X -> 'X'"""
    sn = fi.params[0] if fi.params else "self"
    e = recv
    while isinstance(e, ast.Subscript):
        e = e.value
    c = chain(e)
    if c and c.startswith(sn + ".") and c.count(".") == 1:
        return c.split(".")[1]
    if isinstance(e, ast.Name):
        for n in ast.walk(fi.node):
            if isinstance(n, (ast.For, ast.comprehension)) and isinstance(n.target, ast.Name) and n.target.id == e.id:
                it = n.iter
                while isinstance(it, (ast.Subscript, ast.Call)):
                    it = it.value if isinstance(it, ast.Subscript) else (it.args[0] if it.args else it.func)
                c2 = chain(it)
                if c2 and c2.startswith(sn + "."):
                    return c2.split(".")[1]
    return None


def _init_takeover(cls: ClassInfo, member: str) -> bool:
    """__init__ passes the member's active_dims to Kernel.__init__ (kwargs['active_dims'] = P.active_dims or keyword)."""
    for k in cls.repo_mro():
        init = k.methods.get("__init__")
        if init is None:
            continue
        # which constructor parameter is stored in self.<member>?
        params = set()
        for n in ast.walk(init.node):
            if isinstance(n, ast.Assign) and any(chain(t) == "self." + member for t in n.targets) and isinstance(n.value, ast.Name):
                params.add(n.value.id)
        # super().__init__(module=base_kernel, ...) style
        for c in calls_in(init.node):
            for kw in c.keywords:
                if kw.arg == member and isinstance(kw.value, ast.Name):
                    params.add(kw.value.id)
        for p in params:
            for n in ast.walk(init.node):
                if isinstance(n, ast.Assign) and any(src(t) in ('kwargs["active_dims"]', "kwargs['active_dims']") for t in n.targets) and src(n.value) == "%s.active_dims" % p:
                    return True
                if isinstance(n, ast.Call) and any(kw.arg == "active_dims" and src(kw.value) == "%s.active_dims" % p for kw in n.keywords):
                    return True
        if params:
            return False
    return False


def _constructed_without_active_dims(idx: ProgramIndex, cls: ClassInfo, member: str) -> bool:
    """self.<member> holds kernels constructed inside the class with no active_dims argument."""
    for k in cls.repo_mro():
        for m in k.methods.values():
            for n in ast.walk(m.node):
                if isinstance(n, ast.Assign) and any(chain(t) == "self." + member for t in n.targets):
                    ctor_calls = [c for c in ast.walk(n.value) if isinstance(c, ast.Call) and isinstance(idx.resolve_expr(m.module, c.func), ClassInfo)
                                  and idx.resolve_expr(m.module, c.func).is_subclass_of("Kernel")]
                    if ctor_calls and all(not any(kw.arg == "active_dims" or kw.arg is None for kw in c.keywords) for c in ctor_calls):
                        return True
    return False


def _applies_locally(fi: FuncInfo, call: ast.Call, member_expr: str) -> bool:
    """Before `call`, the inputs are restricted with index_select(-1, <member>.active_dims) (possibly via a local alias)."""
    aliases = {member_expr + ".active_dims"}
    for n in ast.walk(fi.node):
        if isinstance(n, ast.Assign) and len(n.targets) == 1 and isinstance(n.targets[0], ast.Name) and src(n.value) in aliases:
            aliases.add(n.targets[0].id)
    restricted: Set[str] = set()
    for n in ast.walk(fi.node):
        if isinstance(n, ast.Assign) and len(n.targets) == 1 and isinstance(n.targets[0], ast.Name) and isinstance(n.value, ast.Call):
            c = n.value
            if isinstance(c.func, ast.Attribute) and c.func.attr == "index_select" and len(c.args) == 2 and src(c.args[0]) == "-1" and src(c.args[1]) in aliases and n.lineno < call.lineno:
                restricted.add(n.targets[0].id)
    args = [a.id for a in call.args[:2] if isinstance(a, ast.Name)]
    return len(args) == 2 and all(a in restricted for a in args)


def active_dims_discipline(idx: ProgramIndex, rep: Report):
    K = kernel_cls(idx)
    # (a) application points
    sites = []
    for fi in idx.all_functions():
        for c in calls_in(fi.node):
            if isinstance(c.func, ast.Attribute) and c.func.attr == "index_select" and len(c.args) == 2 and "active_dims" in src(c.args[1]) or \
                    (isinstance(c.func, ast.Attribute) and c.func.attr == "index_select" and len(c.args) == 2 and isinstance(c.args[1], ast.Name) and "active_dims" in c.args[1].id):
                sites.append((fi, c))
    call_fi = idx.method(K, "__call__", own=True)

    def selection(e: ast.AST, self_name: str) -> Optional[str]:
        """None if `e` selects columns with the whole list self.active_dims along the last axis, else what it does instead"""
        if isinstance(e, ast.Call) and isinstance(e.func, ast.Attribute) and e.func.attr == "index_select" and len(e.args) == 2:
            if src(e.args[0]) == "-1" and src(e.args[1]) == "%s.active_dims" % self_name:
                return None
            return "`%s` is not index_select(-1, %s.active_dims)" % (src(e)[:60], self_name)
        if isinstance(e, ast.Subscript) and isinstance(e.slice, ast.Tuple) and len(e.slice.elts) == 2 and isinstance(e.slice.elts[0], ast.Constant) and e.slice.elts[0].value is Ellipsis \
                and src(e.slice.elts[1]) == "%s.active_dims" % self_name:
            return None
        if isinstance(e, ast.Call) and isinstance(e.func, ast.Attribute) and isinstance(e.func.value, ast.Name) and e.func.value.id == self_name:
            h = K.lookup(e.func.attr)
            if h is not None and h.kind == "method" and len(h.params) >= 2:
                helpers_used.append(h)
                rets = [r.value for r in ast.walk(h.node) if isinstance(r, ast.Return) and r.value is not None]
                if not rets:
                    return "the helper %s returns nothing" % h.qualname
                for r in rets:
                    why = selection(r, h.params[0])
                    if why is not None:
                        return "a path of the helper %s selects differently: %s" % (h.qualname, why)
                return None
        return "`%s` is not an index selection with the whole list self.active_dims" % src(e)[:60]
    own, targets, whys = [], set(), []
    helpers_used: List[FuncInfo] = []
    sn = call_fi.params[0]
    for n in ast.walk(call_fi.node):
        if isinstance(n, ast.Assign) and len(n.targets) == 1 and isinstance(n.targets[0], ast.Name) and isinstance(n.value, (ast.Call, ast.Subscript)):
            mentions = any(isinstance(x, ast.Attribute) and x.attr == "active_dims" for x in ast.walk(n.value)) or \
                (isinstance(n.value, ast.Call) and isinstance(n.value.func, ast.Attribute) and isinstance(n.value.func.value, ast.Name) and n.value.func.value.id == sn and "active" in n.value.func.attr)
            if not mentions:
                continue
            why = selection(n.value, sn)
            own.append(n.value)
            if why is None:
                targets.add(n.targets[0].id)
            else:
                whys.append(why)
    ok = not whys and len(targets) == 2
    rep.add("C06-1", "gpytorch.kernels.kernel:Kernel.__call__[applies active_dims]", call_fi.where, ok,
            "x1 and x2 are restricted with an index selection over the whole list self.active_dims (last axis) before forward" if ok else
            ("Kernel.__call__: " + "; ".join(sorted(set(whys))) if whys else "Kernel.__call__ no longer restricts both inputs to self.active_dims along the last dimension"), {"restricted": sorted(targets)})
    for f, c in sites:
        if f is call_fi or f in helpers_used:
            continue  # __call__ itself and the selection helpers it delegates to (checked above) are THE application point
        member = None
        for n in ast.walk(f.node):
            if isinstance(n, ast.Assign) and len(n.targets) == 1 and isinstance(n.targets[0], ast.Name) and n.targets[0].id == src(c.args[1]):
                member = src(n.value)
        okm = member is not None and member.startswith("self.") and member.endswith(".active_dims")
        rep.add("C06-1", "%s:%s[index_select %s]" % (f.module.name, f.qualname, src(c.args[1])), "%s:%d" % (f.module.relpath, c.lineno), okm,
                "applies a *member's* active_dims before calling its forward directly" if okm else "active_dims applied outside Kernel.__call__ (double application for kernels reached through __call__)", {})
    # (b) bypasses
    n = 0
    for cls in idx.subclasses(K):
        for fi in cls.methods.values():
            for c in calls_in(fi.node):
                if not (isinstance(c.func, ast.Attribute) and c.func.attr == "forward"):
                    continue
                if is_super_call(c):
                    continue
                recv = c.func.value
                if chain(recv) in (fi.params[:1] or ["self"]):
                    continue
                member = _member_attr(fi, recv)
                n += 1
                inst = "%s:%s.%s -> %s.forward" % (cls.module.name, cls.qualname, fi.name, src(recv))
                where = "%s:%d" % (fi.module.relpath, c.lineno)
                if member is None:
                    rep.add("C06-1", inst, where, False, "direct forward call on `%s`, which is not a resolvable member kernel" % src(recv), {})
                    continue
                if (cls.name, member) in DIRECT_FORWARD_TABLE:
                    ok2 = _init_takeover(cls, member)
                    rep.add("C06-1", inst, where, ok2, "by table (%s)" % DIRECT_FORWARD_TABLE[(cls.name, member)] if ok2 else "table entry requires the constructor take-over of the member's active_dims, which is gone", {})
                    continue
                if (cls.name, member) in DIRECT_FORWARD_OBSERVED:
                    rep.observe("C06-1", inst, where, "bypass recorded, not armed: " + DIRECT_FORWARD_OBSERVED[(cls.name, member)])
                    continue
                how = None
                if _init_takeover(cls, member):
                    how = "constructor takes over the member's active_dims (so Kernel.__call__ of the wrapper applies them)"
                elif _applies_locally(fi, c, src(recv)):
                    how = "the member's active_dims are applied to both inputs before the direct forward call"
                elif _constructed_without_active_dims(idx, cls, member):
                    how = "member kernels are constructed inside the class without active_dims"
                rep.add("C06-1", inst, where, how is not None, how or
                        "`%s.forward` is called directly (bypassing Kernel.__call__) and the member's active_dims are neither taken over by the constructor nor applied here: the member kernel sees all input columns" % src(recv), {"member": member})
    rep.floor("C06-1", "direct member.forward call sites", n, 7)


# ---- C06-2 ---------------------------------------------------------------------------------------------------------
def _loop_skips(fi: FuncInfo, iterator_call: str) -> Set[str]:
    """names skipped (`if name == "x": continue`) in the `for name, t in self.<iterator_call>(recurse=False)` loop"""
    skipped: Set[str] = set()
    for n in ast.walk(fi.node):
        if isinstance(n, ast.For) and iterator_call in src(n.iter):
            tg = n.target
            namevar = tg.elts[0].id if isinstance(tg, ast.Tuple) and isinstance(tg.elts[0], ast.Name) else None
            for st in n.body:
                if isinstance(st, ast.If) and any(isinstance(s, ast.Continue) for s in st.body):
                    t = st.test
                    if isinstance(t, ast.Compare) and isinstance(t.left, ast.Name) and t.left.id == namevar:
                        for cmp in t.comparators:
                            if isinstance(cmp, ast.Constant):
                                skipped.add(cmp.value)
                            elif isinstance(cmp, (ast.Tuple, ast.List, ast.Set)):
                                skipped |= {e.value for e in cmp.elts if isinstance(e, ast.Constant)}
                    if isinstance(t, ast.Call) and isinstance(t.func, ast.Attribute) and t.func.attr == "startswith" and isinstance(t.func.value, ast.Name) and t.func.value.id == namevar and t.args:
                        v = const_str(t.args[0])
                        if v:
                            skipped.add(v + "*")
    return skipped


def _is_skipped(name: str, skipped: Set[str]) -> bool:
    return name in skipped or any(s.endswith("*") and name.startswith(s[:-1]) for s in skipped)


def batch_transform(idx: ProgramIndex, rep: Report):
    K = kernel_cls(idx)
    gi = idx.method(K, "__getitem__", own=True)
    eb = idx.method(K, "expand_batch", own=True)
    skips = {
        ("__getitem__", "buffer"): _loop_skips(gi, "named_buffers"), ("__getitem__", "parameter"): _loop_skips(gi, "named_parameters"),
        ("expand_batch", "buffer"): _loop_skips(eb, "named_buffers"), ("expand_batch", "parameter"): _loop_skips(eb, "named_parameters"),
    }
    # both methods loop over own parameters and buffers
    for f in (gi, eb):
        t = src(f.node)
        ok = "named_parameters(recurse=False)" in t and "named_buffers(recurse=False)" in t and "named_sub_kernels()" in t
        rep.add("C06-2", "gpytorch.kernels.kernel:Kernel.%s[loops]" % f.name, f.where, ok, "transforms own parameters, own buffers and recurses into sub-kernels" if ok else "Kernel.%s no longer covers own parameters, own buffers and sub-kernels" % f.name, {}, trivial=True)
    n = 0
    seen = set()
    for cls in idx.subclasses(K):
        overrides_both = cls is not K and "__getitem__" in cls.methods and "expand_batch" in cls.methods
        for kind, name, m, node, verdict in registrations(idx, cls):
            key = (cls.qualname, name)
            if key in seen:
                continue
            seen.add(key)
            n += 1
            inst = "%s:%s.%s" % (cls.module.name, cls.qualname, name if name.isidentifier() else norm(ast.parse(name).body[0]) if False else name)
            where = "%s:%d" % (m.module.relpath, node.lineno)
            table_key = None
            for (tc, tn), why in NON_BATCH_TENSORS.items():
                if cls.is_subclass_of(tc) and (name == tn or (tn.endswith("_") and (name.startswith(tn) or name.startswith("base_name")))):
                    table_key = (tc, tn)
            if verdict == "batch":
                rep.add("C06-2", inst, where, True, "registered with a *batch_shape prefix: indexing/expanding the leading dimensions is meaningful", {"verdict": verdict})
                continue
            if verdict == "unknown" and table_key is None:
                rep.observe("C06-2", inst, where, "shape of the registered %s cannot be determined statically (undetermined, not a violation)" % kind)
                continue
            # non-batched (provably or by table): both loops must skip it, or the class overrides both methods
            probe = name if name.isidentifier() else (table_key[1] + "0" if table_key else name)
            missing = [meth for meth in ("__getitem__", "expand_batch") if not _is_skipped(probe, skips[(meth, kind)])]
            ok = overrides_both or not missing
            why = NON_BATCH_TENSORS.get(table_key, "shape has no batch prefix") if table_key else "shape has no batch prefix"
            rep.add("C06-2", inst, where, ok,
                    "non-batched tensor (%s) is skipped by both loops" % why if ok else
                    "%s `%s` has no batch dimensions (%s) but Kernel.%s batch-%s it: kernel[i] / lazy batch indexing selects or reshapes the wrong axis"
                    % (kind, name, why, " and ".join(missing), "indexes/expands"), {"verdict": verdict, "table": table_key is not None})
    rep.floor("C06-2", "kernel parameter/buffer registrations", n, 28)


# ---- C06-3 ---------------------------------------------------------------------------------------------------------
def evaluate_kernel_restore(idx: ProgramIndex, rep: Report):
    L = idx.cls("gpytorch.lazy.lazy_evaluated_kernel_tensor", "LazyEvaluatedKernelTensor")
    # every site of the lazy tensor that evaluates the kernel through Kernel.__call__ works on inputs that __call__ has already
    # restricted to active_dims: it must disable active_dims around the call (the evaluate_kernel idiom) or bypass __call__
    for name, m in sorted(L.methods.items()):
        if name == "evaluate_kernel":
            continue
        for c in calls_in(m.node):
            if chain(c.func) == "self.kernel" and len(c.args) >= 2:
                nulls = any(isinstance(n, ast.Assign) and src(n.targets[0]) == "self.kernel.active_dims" and isinstance(n.value, ast.Constant) and n.value.value is None for n in ast.walk(m.node))
                rep.add("C06-3", "%s:LazyEvaluatedKernelTensor.%s[self.kernel(...)]" % (L.module.name, name), "%s:%d" % (m.module.relpath, c.lineno), nulls,
                        "active_dims disabled around the kernel call" if nulls else
                        "%s evaluates self.kernel(...) through Kernel.__call__ on the stored (already restricted) inputs without disabling active_dims: they are applied a second time" % name, {})
    fi = idx.method(L, "evaluate_kernel", own=True)
    save = null = restore = None
    assigns = [n for n in ast.walk(fi.node) if isinstance(n, ast.Assign) and len(n.targets) == 1]
    for n in assigns:
        if src(n.value) == "self.kernel.active_dims" and isinstance(n.targets[0], ast.Name):
            save = n
    for n in assigns:
        if src(n.targets[0]) == "self.kernel.active_dims" and isinstance(n.value, ast.Constant) and n.value.value is None:
            null = n
        elif src(n.targets[0]) == "self.kernel.active_dims" and save is not None and src(n.value) == save.targets[0].id:
            restore = n
    inst = "gpytorch.lazy.lazy_evaluated_kernel_tensor:LazyEvaluatedKernelTensor.evaluate_kernel"
    if null is None:
        # the kernel must then not be called through __call__ with already restricted inputs
        calls = [c for c in calls_in(fi.node) if chain(c.func) == "self.kernel"]
        rep.add("C06-3", inst, fi.where, not calls, "no nulling and no __call__ on the kernel" if not calls else
                "evaluate_kernel calls self.kernel(x1, x2) on inputs that Kernel.__call__ has already restricted, without disabling active_dims: they are applied twice", {})
        return
    ok = save is not None and restore is not None
    if ok:
        for p in enumerate_paths(body_without_docstring(fi.node)):
            if p.outcome not in (FALL, RETURN):
                continue
            state = "clean"
            for s in p.steps:
                if s.kind == "stmt" and s.node is null:
                    state = "nulled"
                elif s.kind == "stmt" and s.node is restore:
                    state = "clean"
            if state != "clean":
                ok = False
        # the kernel call sits between null and restore
        calls = [c for c in calls_in(fi.node) if chain(c.func) == "self.kernel"]
        ok = ok and all(null.lineno < c.lineno < restore.lineno for c in calls) and bool(calls)
    rep.add("C06-3", inst, fi.where, ok, "active_dims saved, nulled around the kernel call and restored on every normal path" if ok else
            "self.kernel.active_dims is set to None in evaluate_kernel but not restored from the saved value on every normal path (the kernel object loses its active_dims)", {})


# ---- C06-4 ---------------------------------------------------------------------------------------------------------
def lazy_reconstruction(idx: ProgramIndex, rep: Report):
    L = idx.cls("gpytorch.lazy.lazy_evaluated_kernel_tensor", "LazyEvaluatedKernelTensor")
    n = 0
    for name, fi in sorted(L.methods.items()):
        for c in calls_in(fi.node):
            if src(c.func) != "self.__class__":
                continue
            n += 1
            inst = "%s:LazyEvaluatedKernelTensor.%s" % (L.module.name, name)
            probs = _check_ctor(fi, c, "self", transpose=(name == "_transpose_nonbatch"))
            rep.add("C06-4", inst, "%s:%d" % (fi.module.relpath, c.lineno), not probs, "kernel, inputs%s, last_dim_is_batch and **params propagated" % (" (swapped)" if name == "_transpose_nonbatch" else " in order") if not probs else "; ".join(probs), {})
    # SGPR re-construction from another lazy tensor
    S = idx.find_class("SGPRPredictionStrategy")
    fi = idx.method(S, "exact_prediction", own=True)
    for c in calls_in(fi.node):
        if src(c.func) == "LazyEvaluatedKernelTensor":
            n += 1
            base = None
            if c.args and isinstance(c.args[0], ast.Attribute):
                base = src(c.args[0].value)
            probs = _check_ctor(fi, c, base or "?", positional=True)
            rep.add("C06-4", "%s:SGPRPredictionStrategy.exact_prediction" % S.module.name, "%s:%d" % (fi.module.relpath, c.lineno), not probs,
                    "inputs in order, last_dim_is_batch and **params propagated from the source tensor" if not probs else "; ".join(probs), {})
        elif len(c.args) >= 2 and isinstance(c.args[0], ast.Attribute) and c.args[0].attr == "x1" and isinstance(c.args[1], ast.Attribute) and c.args[1].attr == "x2":
            # the same re-construction written as a kernel call: kernel(<t>.x1, <t>.x2, last_dim_is_batch=<t>.last_dim_is_batch, **<t>.params)
            n += 1
            base = src(c.args[0].value)
            probs = []
            if src(c.args[1].value) != base:
                probs.append("x1 and x2 come from different tensors")
            kw = {k.arg: k.value for k in c.keywords}
            ldb = kw.get("last_dim_is_batch", c.args[2] if len(c.args) > 2 else None)
            if ldb is None or src(ldb) != base + ".last_dim_is_batch":
                probs.append("last_dim_is_batch of `%s` is not propagated" % base)
            if not any(k.arg is None and src(k.value) == base + ".params" for k in c.keywords):
                probs.append("**%s.params is not propagated" % base)
            rep.add("C06-4", "%s:SGPRPredictionStrategy.exact_prediction" % S.module.name, "%s:%d" % (fi.module.relpath, c.lineno), not probs,
                    "inputs in order, last_dim_is_batch and **params propagated from the source tensor (kernel call)" if not probs else "; ".join(probs), {})
    rep.floor("C06-4", "lazy re-construction sites", n, 5)


def _derived_from(fi: FuncInfo, e: ast.AST, base_attr: str) -> bool:
    """expression is `<owner>.<attr>` or a local assigned (possibly repeatedly) from expressions over that attr/local only"""
    if src(e) == base_attr:
        return True
    if isinstance(e, ast.Name):
        ok_any = False
        for n in ast.walk(fi.node):
            if isinstance(n, ast.Assign) and any(isinstance(t, ast.Name) and t.id == e.id for t in n.targets):
                owner = base_attr.split(".")[0]
                names = {src(x) for x in ast.walk(n.value) if isinstance(x, ast.Attribute) and src(x.value) == owner and x.attr in ("x1", "x2")}
                locs = {x.id for x in ast.walk(n.value) if isinstance(x, ast.Name)}
                if names - {base_attr}:
                    return False
                if base_attr in names or e.id in locs:
                    ok_any = True
        return ok_any
    return False


def _check_ctor(fi: FuncInfo, c: ast.Call, owner: str, transpose=False, positional=False) -> List[str]:
    probs = []
    if len(c.args) < 2:
        return ["constructor call does not pass x1 and x2 positionally"]
    want = ("%s.x2" % owner, "%s.x1" % owner) if transpose else ("%s.x1" % owner, "%s.x2" % owner)
    for i, (a, w) in enumerate(zip(c.args[:2], want)):
        if not _derived_from(fi, a, w):
            probs.append("argument %d (`%s`) is not derived from %s%s" % (i + 1, src(a), w, " (transpose must swap the inputs)" if transpose else ""))
    kw = {k.arg: k.value for k in c.keywords}
    kern = kw.get("kernel") if "kernel" in kw else (c.args[2] if len(c.args) > 2 else None)
    if kern is None:
        probs.append("no kernel passed")
    else:
        kt = src(kern)
        if not (kt.startswith("%s.kernel" % owner) or _kernel_local(fi, kern, owner)):
            probs.append("kernel argument `%s` is not derived from %s.kernel" % (kt, owner))
    ldb = kw.get("last_dim_is_batch") if "last_dim_is_batch" in kw else (c.args[3] if len(c.args) > 3 else None)
    if ldb is None or src(ldb) != "%s.last_dim_is_batch" % owner:
        probs.append("last_dim_is_batch of the source is not propagated")
    if not any(k.arg is None and src(k.value) == "%s.params" % owner for k in c.keywords):
        probs.append("**%s.params (extra kernel arguments) are not propagated" % owner)
    return probs


def _kernel_local(fi: FuncInfo, e: ast.AST, owner: str) -> bool:
    if not isinstance(e, ast.Name):
        return False
    vals = [n.value for n in ast.walk(fi.node) if isinstance(n, ast.Assign) and any(isinstance(t, ast.Name) and t.id == e.id for t in n.targets)]
    if not vals:
        return False
    for v in vals:
        t = src(v)
        if not (t.startswith("%s.kernel" % owner) or t.startswith("expanded_kernel")):
            return False
    return True


# ---- C06-5 ---------------------------------------------------------------------------------------------------------
def multi_output_guard(idx: ProgramIndex, rep: Report):
    """Decided on inlined expressions (local names do not matter): every path that divides a slice bound by the number of outputs
    per input has, before the division, refuted (a) `bound % outputs` for every divided bound, (b) a step on either slice,
    (c) a non-slice row/column index."""
    from ..symbolic import inline, walk_paths
    L = idx.cls("gpytorch.lazy.lazy_evaluated_kernel_tensor", "LazyEvaluatedKernelTensor")
    fi = idx.method(L, "_getitem", own=True)
    inst = "%s:LazyEvaluatedKernelTensor._getitem[multi-output]" % L.module.name
    row_p, col_p = fi.params[1], fi.params[2]

    def is_outs(e) -> bool:
        return any(isinstance(x, ast.Attribute) and x.attr == "num_outputs_per_input" for x in ast.walk(e))

    def atoms(e):
        if isinstance(e, ast.BoolOp):
            for v in e.values:
                yield from atoms(v)
        else:
            yield e

    npaths, ndiv = 0, 0
    missing: List[str] = []
    for path, seq in walk_paths(fi, limit=200000):
        refuted: List[str] = []   # dumps of atoms known to be false so far (a refuted disjunction refutes every disjunct)
        divided_here = False
        for st, env in seq:
            if not isinstance(st, ast.stmt):
                if st.kind == "assume" and st.truth is False:
                    t = inline(st.node, env)
                    if isinstance(t, ast.BoolOp) and isinstance(t.op, ast.Or):
                        refuted += [ast.dump(x) for x in atoms(t)]
                    elif not isinstance(t, ast.BoolOp):
                        refuted.append(ast.dump(t))
                continue
            divs = [n for n in ast.walk(st) if isinstance(n, ast.BinOp) and isinstance(n.op, ast.FloorDiv)]
            divs = [(n, inline(n, env)) for n in divs]
            divs = [(n, d) for n, d in divs if is_outs(d.right)]
            if not divs:
                continue
            divided_here = True
            for n, d in divs:
                ndiv += 1
                need = ast.dump(ast.BinOp(left=d.left, op=ast.Mod(), right=d.right))
                if need not in refuted:
                    missing.append("`%s` is divided without `%s %% %s` having been refuted" % (src(n.left), src(n.left), src(n.right)))
            for prm in (row_p, col_p):
                step = ast.dump(ast.Compare(left=ast.Attribute(value=ast.Name(id=prm, ctx=ast.Load()), attr="step", ctx=ast.Load()), ops=[ast.IsNot()], comparators=[ast.Constant(value=None)]))
                if step not in refuted:
                    missing.append("a step on `%s` is not excluded before the division" % prm)
                notslice = ast.dump(ast.UnaryOp(op=ast.Not(), operand=ast.Call(func=ast.Name(id="isinstance", ctx=ast.Load()), args=[ast.Name(id=prm, ctx=ast.Load()), ast.Name(id="slice", ctx=ast.Load())], keywords=[])))
                if notslice not in refuted:
                    missing.append("`%s` is not known to be a slice before the division" % prm)
        if divided_here:
            npaths += 1
    if ndiv == 0:
        rep.add("C06-5", inst, fi.where, False, "no slice division by num_outputs_per_input found (anchor vanished)", {})
        return
    # defaulting of slice bounds must not conflate 0 with None (a zero stop is an empty slice)
    for n in ast.walk(fi.node):
        if isinstance(n, ast.BoolOp) and isinstance(n.op, ast.Or) and len(n.values) == 2 and isinstance(n.values[0], ast.Attribute) and n.values[0].attr == "stop":
            rep.add("C06-5", "%s:LazyEvaluatedKernelTensor._getitem[%s]" % (L.module.name, norm(n)), "%s:%d" % (fi.module.relpath, n.lineno), False,
                    "`%s` treats a slice stop of 0 like None: for a multi-output kernel K[..., 0:0, :] returns all rows instead of none" % norm(n), {})
    ok_all = not missing
    rep.add("C06-5", inst, fi.where, ok_all and npaths > 0,
            "on all %d paths the divisibility test of every divided bound, the step test and the slice-type test are refuted before the slices are divided" % npaths if ok_all and npaths else
            "a path divides the row/column slices by num_outputs_per_input without the guards: %s" % "; ".join(sorted(set(missing))[:3]), {"paths": npaths, "divisions": ndiv})


# ---- C06-7: diagonal of the derivative kernels: layout of the pieces vs. the interleaving permutation -------------------
def derivative_diag_layout(idx: ProgramIndex, rep: Report):
    """diag=True of a derivative kernel returns cat(value block, gradient blocks)[..., pi] with pi = arange(n(d+1)).view(d+1, n).t()
    .reshape(-1): pi reads its source as component-major, point-minor.  Every flattened block that is concatenated must therefore
    have the point axis as its minor axis ((n, d) blocks are transposed before being flattened); otherwise the diagonal pairs the
    variance of one input dimension with another one (visible only for ARD lengthscales that differ)."""
    from ..domains.flatlayout import layout, permutation_minor
    from ..symbolic import inline, walk_paths
    rep.rule("C06-7", "derivative kernels: the blocks concatenated into the diagonal are laid out point-minor, as the interleaving permutation assumes")
    n = 0
    K = kernel_cls(idx)
    for cls in idx.subclasses(K):
        if "keops" in cls.module.name or "grad" not in cls.module.name:
            continue
        fi = cls.methods.get("forward")
        if fi is None:
            continue
        seen = set()
        for path, seq in walk_paths(fi):
            for st, env in seq:
                if not isinstance(st, ast.stmt):
                    continue
                for sub in (x for x in ast.walk(st) if isinstance(x, ast.Subscript)):
                    # <cat(...)>[..., <permutation>]
                    sl = sub.slice
                    if not (isinstance(sl, ast.Tuple) and len(sl.elts) == 2 and isinstance(sl.elts[0], ast.Constant) and sl.elts[0].value is Ellipsis):
                        continue
                    perm = permutation_minor(inline(sl.elts[1], env))
                    if perm is None:
                        continue
                    data = inline(sub.value, env)
                    if not (isinstance(data, ast.Call) and chain(data.func) == "torch.cat"):
                        continue  # the full matrix is permuted along rows/columns elsewhere; only concatenated diagonals here
                    key = sub.lineno
                    if key in seen:
                        continue
                    seen.add(key)
                    lay = layout(data)
                    inst = "%s:%s.forward[diagonal @%s]" % (cls.module.name, cls.qualname, " ".join(src(sub.value).split())[:30])
                    where = "%s:%d" % (fi.module.relpath, sub.lineno)
                    if lay is None or perm[1] is None:
                        rep.observe("C06-7", inst, where, "layout of the concatenated diagonal not decided")
                        continue
                    n += 1
                    ok = perm[0] == "transposed" and lay[0] == "flat" and lay[2] == perm[1]
                    rep.add("C06-7", inst, where, ok,
                            "all blocks are point-minor (%s), as the permutation (view(components, points).t()) assumes" % lay[2] if ok else
                            "the concatenated blocks have minor axis %s, the permutation reads its source as point-minor (%s): a block of shape (n, d) was flattened without the transpose, so entries of different input dimensions are exchanged" % (lay[2] if lay[0] == "flat" else lay, perm[1]), {"layout": str(lay)})
    rep.floor("C06-7", "permuted diagonals of derivative kernels", n, 3)


# ---- C06-8 ---------------------------------------------------------------------------------------------------------
EXTRA_FILES = {"linear_operator.operators._linear_operator": "linear_operator/operators/_linear_operator.py"}
BATCH_OPS = ("_permute_batch", "_unsqueeze_batch", "_expand_batch", "repeat", "_getitem")
X_BATCH_PRESERVING = {"transpose", "mT"}


def lazy_batch_ops(idx: ProgramIndex, rep: Report):
    """The batch shape of a LazyEvaluatedKernelTensor is the broadcast of the inputs' batch shapes and the kernel's batch shape, but the
    kernel is a keyword argument of the operator: the generic LinearOperator implementations of batch re-arrangements (written over the
    tensor arguments self._args) move the inputs' batch dimensions and leave the kernel's parameters where they were.  Every batch
    re-arranging primitive therefore has to be overridden, and the override has to hand a correspondingly re-arranged kernel (not
    self.kernel itself) to the re-construction whenever it re-arranges the batch dimensions of x1 / x2."""
    rep.rule("C06-8", "batch re-arrangements of a lazily evaluated kernel (permute / unsqueeze / repeat / expand / index) re-arrange the kernel's batch parameters together with x1 and x2")
    lek = idx.cls(idx.package + ".lazy.lazy_evaluated_kernel_tensor", "LazyEvaluatedKernelTensor")
    base = idx.cls("linear_operator.operators._linear_operator", "LinearOperator")
    n = 0
    for op in BATCH_OPS:
        own = lek.methods.get(op)
        bfi = base.methods.get(op)
        if bfi is None and own is None:
            raise AnalysisError("C06-8: LinearOperator.%s not found (anchor vanished)" % op)
        inst = "%s:LazyEvaluatedKernelTensor.%s" % (lek.module.name, op)
        n += 1
        if own is None:
            generic = any(chain(x) in ("self._args", "self.representation") for x in ast.walk(bfi.node))
            delegates = sorted({c.func.attr for c in calls_in(bfi.node) if isinstance(c.func, ast.Attribute) and chain(c.func.value) == "self" and c.func.attr in BATCH_OPS and c.func.attr != op})
            if generic:
                rep.add("C06-8", inst, lek.where, False,
                        "%s is not overridden: the inherited LinearOperator.%s re-arranges the tensor arguments (x1, x2) component-wise and passes the keyword arguments - the kernel with its batched parameters - on unchanged, so after the operation the inputs of one batch element are evaluated with the hyper-parameters of another" % (op, op), {})
            else:
                rep.add("C06-8", inst, lek.where, bool(delegates), "inherited LinearOperator.%s delegates to %s" % (op, ", ".join(delegates)) if delegates else
                        "inherited LinearOperator.%s neither delegates to an overridden primitive nor is generic over the arguments: not understood" % op, {})
            continue
        ctors = [c for c in calls_in(own.node) if src(c.func) in ("self.__class__", "LazyEvaluatedKernelTensor", "type(self)")]
        if not ctors:
            rep.add("C06-8", inst, own.where, False, "no re-construction found in the override", {})
            continue
        from ..symbolic import inline, walk_paths
        probs = []
        for path, seq in walk_paths(own):
            for st, env in seq:
                if not isinstance(st, ast.stmt):
                    continue
                for c in (x for x in ast.walk(st) if isinstance(x, ast.Call) and src(x.func) in ("self.__class__", "LazyEvaluatedKernelTensor", "type(self)")):
                    kw = {k.arg: inline(k.value, env) for k in c.keywords}
                    xs = [inline(a, env) for a in c.args[:2]] + [kw[k] for k in ("x1", "x2") if k in kw]
                    ker = kw.get("kernel", inline(c.args[2], env) if len(c.args) > 2 else None)
                    moved = [x for x in xs if src(x) not in ("self.x1", "self.x2")]
                    batch_moved = []
                    for x in moved:
                        # an x whose batch dimensions are re-arranged: any call / subscript on self.x* other than row selections on dim -2
                        ops = [m.func.attr for m in ast.walk(x) if isinstance(m, ast.Call) and isinstance(m.func, ast.Attribute)]
                        subs = [m for m in ast.walk(x) if isinstance(m, ast.Subscript)]
                        if any(o in ("unsqueeze", "repeat", "permute", "expand", "squeeze", "movedim") for o in ops) or any("batch_ind" in src(m.slice) for m in subs):
                            batch_moved.append(x)
                    # the kernel may stay as it is on the paths where the batch indices were tested to be trivial (all full slices / none)
                    trivial = any(getattr(s_, "kind", "") == "assume" and s_.truth is True and "slice(None" in src(s_.node) and "all(" in src(s_.node)
                                  for s_, _e in seq if not isinstance(s_, ast.stmt))
                    if batch_moved and ker is not None and src(ker) == "self.kernel" and not trivial:
                        probs.append("re-arranges the batch dimensions of the inputs (`%s`) but passes kernel=self.kernel unchanged: the kernel's batched parameters stay aligned with the old batch dimensions" % " ".join(src(batch_moved[0]).split())[:60])
        rep.add("C06-8", inst, own.where, not probs, "the override re-arranges the kernel together with the inputs (or leaves the batch dimensions alone)" if not probs else "; ".join(sorted(set(probs))), {})
    # indices that refer to the *broadcast* batch shape may be applied to the kernel only once the kernel has that batch shape: an
    # optimistic attempt guarded by `except IndexError` proves nothing - a kernel with fewer batch dimensions accepts the leading indices
    # on whatever dimensions it has (Kernel.__getitem__ indexes the parameters' leading dimensions), and the index meant for an input
    # batch dimension selects a hyper-parameter instead
    gi = lek.methods.get("_getitem")
    if gi is not None:
        for t in (x for x in ast.walk(gi.node) if isinstance(x, ast.Try)):
            opt = [c for b_ in t.body for c in ast.walk(b_) if isinstance(c, ast.Call) and isinstance(c.func, ast.Attribute) and c.func.attr == "__getitem__" and chain(c.func.value) == "self.kernel"]
            opt += [c for b_ in t.body for c in ast.walk(b_) if isinstance(c, ast.Subscript) and chain(c.value) == "self.kernel"]
            if not opt:
                continue
            n += 1
            catches = [h for h in t.handlers if h.type is not None and "IndexError" in src(h.type)]
            rank_checked = any("batch_shape" in src(g) and "len(" in src(g) for g in _guards_around(gi.node, t))
            bad = bool(catches) and not rank_checked
            rep.add("C06-8", "%s:LazyEvaluatedKernelTensor._getitem[kernel indexed before expansion]" % lek.module.name, "%s:%d" % (gi.module.relpath, t.lineno), not bad,
                    "the kernel is indexed after it was given the full batch shape (or its batch rank was checked)" if not bad else
                    "`self.kernel.__getitem__(batch_indices)` is tried first and the expansion to the broadcast batch shape happens only on IndexError: a kernel with fewer batch dimensions than the inputs accepts the leading index on its own first dimension, so an index meant for an input batch dimension picks a hyper-parameter", {})
    # (c) a kernel's batch dimensions are the TRAILING dimensions of the broadcast batch shape (everything broadcasts from the right): the
    #     batch indices handed to the kernel are all of them, or a suffix - a prefix `[:k]` pairs the index of an input batch dimension with
    #     a hyper-parameter dimension
    if gi is not None:
        assigns = {}
        for a in ast.walk(gi.node):
            if isinstance(a, ast.Assign) and isinstance(a.targets[0], ast.Name):
                assigns.setdefault(a.targets[0].id, []).append(a.value)
        for c in ast.walk(gi.node):
            arg = None
            if isinstance(c, ast.Call) and isinstance(c.func, ast.Attribute) and c.func.attr == "__getitem__" and "kernel" in (chain(c.func.value) or "") and c.args:
                arg = c.args[0]
            elif isinstance(c, ast.Subscript) and (chain(c.value) or "").endswith("kernel") and isinstance(c.ctx, ast.Load):
                arg = c.slice
            if arg is None:
                continue
            n += 1
            exprs = [arg] + (assigns.get(arg.id, []) if isinstance(arg, ast.Name) else [])
            prefix = [e for e in exprs for x in ast.walk(e) if isinstance(x, ast.Subscript) and isinstance(x.slice, ast.Slice) and x.slice.lower is None and x.slice.upper is not None
                      and not (isinstance(x.slice.upper, ast.UnaryOp)) and "batch_ind" in src(x.value)]
            rep.add("C06-8", "%s:LazyEvaluatedKernelTensor._getitem[batch indices handed to the kernel: %s]" % (lek.module.name, "prefix" if prefix else "all / suffix"), "%s:%d" % (gi.module.relpath, c.lineno), not prefix,
                    "the kernel receives all batch indices (or a suffix of them)" if not prefix else
                    "`%s`: the kernel is indexed with the LEADING batch indices; its batch dimensions are the trailing ones of the broadcast batch shape, so with data batch (2, 3) over kernel batch (3,) kernel(x)[i, j] is computed with the hyper-parameters of element i instead of j (right shape, wrong values)" % " ".join(src(prefix[0]).split())[:70], {})
    rep.floor("C06-8", "batch re-arranging primitives", n, 5)


def _guards_around(fn: ast.AST, target: ast.AST) -> List[ast.AST]:
    out: List[ast.AST] = []

    def rec(stmts, acc) -> bool:
        for st in stmts:
            if st is target:
                out.extend(acc)
                return True
            if any(x is target for x in ast.walk(st)):
                if isinstance(st, ast.If):
                    return rec(st.body, acc + [st.test]) or rec(st.orelse, acc + [st.test])
                for blk in ("body", "orelse", "finalbody", "handlers"):
                    v = getattr(st, blk, None)
                    if isinstance(v, list) and rec([x for x in v if isinstance(x, ast.stmt)], acc):
                        return True
        return False
    rec(fn.body, [])
    return out


# ---- C06-10 --------------------------------------------------------------------------------------------------------
def block_shapes(idx: ProgramIndex, rep: Report):
    """The derivative kernels assemble K(x1, x2) from blocks written into slices of one pre-allocated matrix.  'diag, transpose and lazy
    evaluation agree' presupposes that the rectangular evaluation exists for every n1, n2: each block must have the shape of its slot,
    and every elementwise operation on the way must broadcast, as *identities* in n1, n2 and d - code that was only ever exercised with
    n1 == n2 passes its tests and raises (or, with d = 1 coincidences, silently mis-pairs entries) for a cross-covariance.  Decided by
    abstract interpretation of forward's `not diag` branch in the symbolic-shape domain (domains/symshape.py)."""
    from ..domains.symshape import ShapeEval
    rep.rule("C06-10", "derivative kernels: every block has the shape of the slot it is stored into and every elementwise operation broadcasts, identically in n1, n2, d (symbolic-shape domain)")
    K = idx.cls(idx.package + ".kernels.kernel", "Kernel")
    n = 0
    for cls in sorted(idx.package_classes(), key=lambda c: c.qualname):
        if not cls.is_subclass_of(K) or "Grad" not in cls.name:
            continue
        fi = cls.methods.get("forward")
        if fi is None or len(fi.params) < 3:
            continue
        se = ShapeEval(fi.params[1], fi.params[2])
        # module-level numeric constants (sqrt5 = math.sqrt(5), five_thirds = 5.0 / 3.0) are python scalars
        for a_ in fi.module.tree.body:
            if isinstance(a_, ast.Assign) and len(a_.targets) == 1 and isinstance(a_.targets[0], ast.Name):
                v_ = a_.value
                if isinstance(v_, ast.Constant) and isinstance(v_.value, (int, float)) or (isinstance(v_, ast.Call) and (chain(v_.func) or "").startswith("math.")) or \
                   (isinstance(v_, ast.BinOp) and all(isinstance(x, (ast.Constant, ast.BinOp, ast.operator, ast.UnaryOp, ast.unaryop, ast.Load)) or (isinstance(x, ast.Call) and (chain(x.func) or "").startswith("math.")) or isinstance(x, (ast.Attribute, ast.Name)) and (chain(x) or "").startswith("math") for x in ast.walk(v_))):
                    se.env[a_.targets[0].id] = "scalar"

        def run_block(stmts):
            for st in stmts:
                if isinstance(st, ast.Assign):
                    se.assign(st)
                elif isinstance(st, ast.If):
                    t = src(st.test)
                    sizes_equal = any(isinstance(c, ast.Compare) and any(isinstance(o, ast.Eq) for o in c.ops) and isinstance(c.left, ast.Name) and isinstance(se.env.get(c.left.id), object) and c.left.id in se.env and
                                      all(isinstance(x, ast.Name) and x.id in se.env for x in c.comparators) for c in ast.walk(st.test))
                    is_diag = isinstance(st.test, ast.Name) and st.test.id == "diag"
                    not_diag = isinstance(st.test, ast.UnaryOp) and isinstance(st.test.op, ast.Not) and isinstance(st.test.operand, ast.Name) and st.test.operand.id == "diag"
                    if not_diag:
                        run_block(st.body)
                    elif is_diag:
                        run_block(st.orelse)
                    elif sizes_equal:
                        continue  # guarded by an explicit test that the sizes coincide: nothing is claimed for all sizes there
                    else:
                        run_block(st.body)
                        run_block(st.orelse)
                elif isinstance(st, ast.Expr):
                    se.ev(st.value)
        run_block(body_without_docstring(fi.node))
        n += 1
        probs = sorted(set(se.problems))
        rep.add("C06-10", "%s:%s.forward[block shapes]" % (cls.module.name, cls.qualname), fi.where, not probs,
                "%d shape obligations (block stores, broadcasts, reshapes, repeats) hold identically in n1, n2, d" % se.checked if not probs else
                "; ".join("line %d: %s" % (l, t) for l, t in probs[:4]) + (" (+%d more)" % (len(probs) - 4) if len(probs) > 4 else "") +
                ": the rectangular evaluation K(x1, x2) with n1 != n2 raises (the code was verified for n1 = n2 only)", {"checked": se.checked, "problems": len(probs)})
        if se.checked < 5:
            rep.observe("C06-10", "%s:%s.forward" % (cls.module.name, cls.qualname), fi.where, "only %d shape obligations could be formed: the code is outside the shape domain" % se.checked)
    rep.floor("C06-10", "derivative kernels", n, 3)


# ---- C06-11 --------------------------------------------------------------------------------------------------------
def own_batch_shape(idx: ProgramIndex, rep: Report):
    """Kernel.__getitem__ / expand_batch return a deep copy whose parameters and buffers were indexed / expanded.  The copy's own batch
    shape (`_batch_shape`, which LazyEvaluatedKernelTensor trusts for its size) has to follow on every path - in particular for kernels
    that own no parameter (MultitaskKernel(batch_shape=...), structure kernels), where a statement inside the loop over the kernel's
    parameters never runs."""
    rep.rule("C06-11", "batch transformations of a kernel (Kernel.__getitem__, expand_batch) assign the copy's own batch shape outside the loops over the kernel's parameters and buffers: a kernel without parameters of its own is re-shaped too")
    K = kernel_cls(idx)
    n = 0
    for mname in ("__getitem__", "expand_batch"):
        fi = idx.method(K, mname, own=True)
        copies = {t.id for a in ast.walk(fi.node) if isinstance(a, ast.Assign) and isinstance(a.value, ast.Call) and (chain(a.value.func) or "").split(".")[-1] == "deepcopy" for t in a.targets if isinstance(t, ast.Name)}
        if not copies:
            raise AnalysisError("C06-11: Kernel.%s no longer works on a deepcopy of self" % mname)
        n += 1
        sites = []
        for a in ast.walk(fi.node):
            if isinstance(a, ast.Assign) and any(isinstance(t, ast.Attribute) and isinstance(t.value, ast.Name) and t.value.id in copies and t.attr in ("batch_shape", "_batch_shape") for t in a.targets):
                sites.append(a)
        outside = []
        for a in sites:
            encl = _enclosing(fi.node, a)
            in_loop = any(isinstance(e, (ast.For, ast.While)) for e in encl)
            foreign_guard = [e for e in encl if isinstance(e, ast.If) and not ("_batch_shape" in src(e.test) or "batch_shape" in src(e.test))]
            if not in_loop and not foreign_guard:
                outside.append(a)
        ok = bool(outside)
        rep.add("C06-11", "%s:Kernel.%s[own batch shape]" % (K.module.name, mname), fi.where, ok,
                "the copy's batch shape is assigned at line %d, outside the parameter / buffer loops" % outside[0].lineno if ok else
                ("the copy's batch shape is only assigned inside the loops over the kernel's own parameters / buffers (line(s) %s): a kernel with a batch shape but no parameter of its own (MultitaskKernel(batch_shape=[b])) keeps the old batch shape, the lazily evaluated kernel tensor then reports the un-indexed size" % ", ".join(str(a.lineno) for a in sites)
                 if sites else "the copy's batch shape is never assigned"), {})
    rep.floor("C06-11", "batch transformations of Kernel", n, 2)


def _enclosing(fn: ast.AST, target: ast.AST) -> List[ast.AST]:
    out: List[ast.AST] = []

    def rec(node, stack):
        if node is target:
            out.extend(stack)
            return True
        for ch in ast.iter_child_nodes(node):
            if rec(ch, stack + [node]):
                return True
        return False
    rec(fn, [])
    return out


# ---- C06-12 --------------------------------------------------------------------------------------------------------
def sub_kernels_replaced_in_place(idx: ProgramIndex, rep: Report):
    """Kernel.__getitem__ / expand_batch replace every sub-kernel of the copy by its indexed / expanded version.  The names come from
    named_sub_kernels(), i.e. from named_modules(): for composite kernels they are DOTTED paths ('kernels.0', 'base_kernel.kernels.1').
    `setattr(copy, 'kernels.0', k)` does not replace copy.kernels[0] - it registers an orphan module under that literal name; the members the
    copy evaluates keep their old batch shape while the copy reports the new one."""
    rep.rule("C06-12", "sub-kernels of a copied kernel are replaced through their parent module: no setattr / __setattr__ with the (dotted) names of named_sub_kernels() / named_modules()")
    K = kernel_cls(idx)
    n = 0
    for mname in ("__getitem__", "expand_batch"):
        fi = idx.method(K, mname, own=True)
        for loop in [x for x in ast.walk(fi.node) if isinstance(x, ast.For)]:
            it = src(loop.iter)
            if not ("named_sub_kernels" in it or "named_modules" in it):
                continue
            names = {t.id for t in ast.walk(loop.target) if isinstance(t, ast.Name)}
            for c in ast.walk(loop):
                dotted = None
                if isinstance(c, ast.Call) and isinstance(c.func, ast.Attribute) and c.func.attr == "__setattr__" and c.args and isinstance(c.args[0], ast.Name) and c.args[0].id in names:
                    dotted = c
                if isinstance(c, ast.Call) and isinstance(c.func, ast.Name) and c.func.id == "setattr" and len(c.args) >= 2 and isinstance(c.args[1], ast.Name) and c.args[1].id in names:
                    dotted = c
                if dotted is None:
                    continue
                n += 1
                rep.add("C06-12", "%s:Kernel.%s[sub-kernel stored under a module path]" % (K.module.name, mname), "%s:%d" % (fi.module.relpath, dotted.lineno), False,
                        "`%s`: the names of %s are dotted module paths for composite kernels; setting an attribute of that literal name registers an orphan module and leaves the member untouched: (RBFKernel() + MaternKernel()).expand_batch([2]) reports batch shape (2,) while its members keep (), evaluating it raises; kernel(x)[i, j] of a sum / product with batch shapes raises IndexError" % (" ".join(src(dotted).split())[:70], it.split("(")[0].split(".")[-1] + "()"), {})
    rep.add("C06-12", "%s:Kernel[sub-kernel replacement sites]" % K.module.name, K.where, True, "%d site(s) use the names of named_sub_kernels() as attribute names" % n, {"sites": n}, trivial=True)


# ---- C06-13 --------------------------------------------------------------------------------------------------------
def active_dims_order(idx: ProgramIndex, rep: Report):
    """active_dims is a LIST of column positions: column i of what the kernel sees is column active_dims[i] of the input, so that ARD
    lengthscale i belongs to it.  The selection has to be an index selection with the whole list (index_select / x[..., active_dims]); a
    slice whose bounds are taken from entries of active_dims (first .. last) selects the right set only for ascending gap-free lists and
    loses the order for a permuted one."""
    rep.rule("C06-13", "active_dims is applied as an index selection with the whole list, in the order given: no slice whose bounds are read off entries of active_dims")
    n = 0
    for fi in sorted(idx.all_functions(), key=lambda f: (f.module.name, f.qualname)):
        if not any(isinstance(x, ast.Attribute) and x.attr == "active_dims" for x in ast.walk(fi.node)):
            continue
        # names that are pure functions of active_dims (its entries, its length ...): every leaf of their defining expressions is active_dims,
        # such a name, or a constant - data selected WITH active_dims is not among them
        derived = set()

        def pure(e) -> bool:
            leaves_ok = True
            has_ad = False
            for x in ast.walk(e):
                if isinstance(x, ast.Attribute) and x.attr == "active_dims":
                    has_ad = True
                elif isinstance(x, ast.Name):
                    if x.id in derived:
                        has_ad = True
                    elif x.id not in ("self", "int", "len", "min", "max", "range", "torch", "list", "tuple"):
                        leaves_ok = False
            return leaves_ok and has_ad
        changed = True
        while changed:
            changed = False
            for a in ast.walk(fi.node):
                if not isinstance(a, ast.Assign):
                    continue
                pairs = []
                for t in a.targets:
                    if isinstance(t, ast.Name):
                        pairs.append((t, a.value))
                    elif isinstance(t, ast.Tuple) and isinstance(a.value, ast.Tuple) and len(t.elts) == len(a.value.elts):
                        pairs += list(zip(t.elts, a.value.elts))
                for t, v in pairs:
                    if isinstance(t, ast.Name) and t.id not in derived and pure(v):
                        derived.add(t.id)
                        changed = True
        n += 1
        bad = []
        for x in ast.walk(fi.node):
            if isinstance(x, ast.Subscript):
                for sl in ([x.slice] if isinstance(x.slice, ast.Slice) else [e for e in getattr(x.slice, "elts", []) if isinstance(e, ast.Slice)]):
                    for b in (sl.lower, sl.upper):
                        if b is not None and any((isinstance(y, ast.Name) and y.id in derived) or (isinstance(y, ast.Attribute) and y.attr == "active_dims") for y in ast.walk(b)):
                            bad.append(x)
        # slices of active_dims ITSELF (active_dims[1:]) select entries of the list, not columns of the data: only subscripts of other values count
        def rooted_in_active_dims(e) -> bool:
            while True:
                if isinstance(e, ast.Call) and isinstance(e.func, ast.Attribute):
                    e = e.func.value
                elif isinstance(e, ast.Subscript):
                    e = e.value
                elif isinstance(e, ast.Attribute) and e.attr != "active_dims":
                    e = e.value
                else:
                    break
            return isinstance(e, ast.Attribute) and e.attr == "active_dims"
        index_names = {t.id for a in ast.walk(fi.node) if isinstance(a, ast.Assign) and rooted_in_active_dims(a.value) for t in a.targets if isinstance(t, ast.Name)}
        bad = [x for x in bad if not ((isinstance(x.value, ast.Attribute) and x.value.attr == "active_dims") or (isinstance(x.value, ast.Name) and x.value.id in index_names))]
        if bad:
            rep.add("C06-13", "%s:%s[columns sliced between entries of active_dims]" % (fi.module.name, fi.qualname), "%s:%d" % (fi.module.relpath, bad[0].lineno), False,
                    "`%s` selects the columns between two entries of active_dims: for a permuted list ([0, 2, 1, 3]) or one with repeats the columns come out in ascending order, so ARD lengthscale i scales another column than active_dims[i] (0.15-0.57 off for RBF / Matern / RQ with ARD)" % " ".join(src(bad[0]).split())[:70], {})
    rep.add("C06-13", "gpytorch:<functions that read active_dims>", "gpytorch/", True, "%d function(s) inspected" % n, {"functions": n}, trivial=True)
    rep.floor("C06-13", "functions that read active_dims", n, 5)
    # ... and the list that is stored is the caller's list: between the constructor argument and the registered buffer only
    # order-preserving conversions (torch.tensor / as_tensor / .long() / .to()); unique / sort / set re-order (and drop) entries
    K = kernel_cls(idx)
    init = idx.method(K, "__init__", own=True)
    REORDER = {"unique", "unique_consecutive", "sort", "sorted", "argsort", "set", "flip", "msort", "frozenset"}
    regs = [c for c in calls_in(init.node) if isinstance(c.func, ast.Attribute) and c.func.attr == "register_buffer" and c.args and const_str(c.args[0]) == "active_dims"]
    if not regs:
        raise AnalysisError("C06-13: Kernel.__init__ no longer registers the active_dims buffer (anchor)")
    bad_ops = []
    for a in ast.walk(init.node):
        if isinstance(a, ast.Assign) and any(isinstance(t, ast.Name) and t.id == "active_dims" for t in a.targets):
            for c in ast.walk(a.value):
                if isinstance(c, ast.Call):
                    nm = c.func.attr if isinstance(c.func, ast.Attribute) else (c.func.id if isinstance(c.func, ast.Name) else "")
                    if nm in REORDER:
                        bad_ops.append((a.lineno, nm))
    rep.add("C06-13", "gpytorch.kernels.kernel:Kernel.__init__[active_dims stored as given]", init.where, not bad_ops,
            "the buffer holds the caller's list in the caller's order" if not bad_ops else
            "; ".join("line %d: `%s` re-orders (and de-duplicates) the list before it is stored: active_dims=[3, 0, 2] selects columns [0, 2, 3], ARD lengthscale i no longer belongs to column active_dims[i]" % b for b in bad_ops), {})


# ---- C06-14 --------------------------------------------------------------------------------------------------------
def diag_not_reclassified_by_shape(idx: ProgramIndex, rep: Report):
    """Kernel.__call__(diag=True) asks forward for the diagonal and then decides FROM THE SHAPE OF THE RESULT whether forward honoured the
    request ("did this kernel eat the diag option?"): a result with as many dimensions as x1 whose last two sizes are (n1, n2) is taken for a
    full matrix and its diagonal is taken once more.  A correct diagonal of shape b x n with b = n (kernel batch size = number of points)
    looks exactly like that; a full matrix with extra kernel batch dimensions looks like a diagonal.  Whether the diagonal was computed is a
    fact about the callee, not about shapes."""
    rep.rule("C06-14", "the diagonal returned by forward(diag=True) is not re-classified from its shape: no second diagonal under a test of res.dim() / res.shape against the input sizes")
    K = kernel_cls(idx)
    fi = idx.method(K, "__call__", own=True)
    sites = []
    for node in ast.walk(fi.node):
        if isinstance(node, ast.If) and ("shape" in src(node.test) or ".dim()" in src(node.test) or ".size(" in src(node.test)):
            for c in ast.walk(node):
                if isinstance(c, ast.Call) and isinstance(c.func, ast.Attribute) and c.func.attr in ("diagonal", "diag") and any("diag" in src(g) for g in _guards_around(fi.node, node)):
                    sites.append((node, c))
    ok = not sites
    rep.add("C06-14", "%s:Kernel.__call__[diag decided from the shape of the result]" % K.module.name, ("%s:%d" % (fi.module.relpath, sites[0][0].lineno)) if sites else fi.where, ok,
            "no shape test decides whether the diagonal is taken again" if ok else
            "`if %s: ... %s` takes the diagonal of forward's result whenever the result LOOKS like a full matrix: RBFKernel(batch_shape=[3])(x1, x2, diag=True) with n = 3 points returns shape (3,) instead of (3, 3) (diagonal taken twice; n = 4 is right), IndexKernel(batch_shape=[2])(i, diag=True) returns the full 2 x n x n matrix; products of the two raise" % (" ".join(src(sites[0][0].test).split())[:80], " ".join(src(sites[0][1]).split())[:40]), {})
    rep.floor("C06-14", "diag post-processing of Kernel.__call__", 1, 1)


# ---- C06-15 --------------------------------------------------------------------------------------------------------
def expand_shortcut_covers_members(idx: ProgramIndex, rep: Report):
    """Kernel.batch_shape is the BROADCAST of the kernel's own batch shape and its members'.  expand_batch returns self when the requested
    shape equals that broadcast shape - but then members with a smaller batch shape stay as they are, and the caller
    (LazyEvaluatedKernelTensor._getitem's fallback: expand, then index every member with the full index) indexes them out of range."""
    rep.rule("C06-15", "the 'nothing to do' shortcut of Kernel.expand_batch compares the requested shape with the batch shape of every member (and the kernel's own), not only with their broadcast")
    K = kernel_cls(idx)
    fi = idx.method(K, "expand_batch", own=True)
    shortcuts = []
    for node in ast.walk(fi.node):
        if isinstance(node, ast.If) and any(isinstance(st, ast.Return) and st.value is not None and src(st.value) == fi.params[0] for st in node.body):
            shortcuts.append(node)
    if not shortcuts:
        raise AnalysisError("C06-15: Kernel.expand_batch has no early return of self any more (anchor)")
    n = 0
    for sc in shortcuts:
        n += 1
        t = src(sc.test)
        per_member = "sub_kernels" in t or "all(" in t or "any(" in t
        rep.add("C06-15", "%s:Kernel.expand_batch[shortcut]" % K.module.name, "%s:%d" % (fi.module.relpath, sc.lineno), per_member,
                "the shortcut looks at the members' batch shapes" if per_member else
                "`if %s: return self`: the compared shape is the broadcast over the kernel and its members; ScaleKernel(RBFKernel(batch_shape=[2]), batch_shape=[3, 2]).expand_batch([3, 2]) returns self with the member still at [2], so kernel(x)[1] (expand, then index every member with the full index) raises IndexError - also for sums / products / MultitaskKernel with mixed member batch shapes" % " ".join(t.split())[:60], {})
    rep.floor("C06-15", "early returns of expand_batch", n, 1)


# ---- C06-16 --------------------------------------------------------------------------------------------------------
def lazy_tensor_of_a_member(idx: ProgramIndex, rep: Report):
    """A LazyEvaluatedKernelTensor evaluates `kernel` with active_dims switched off: it assumes x1 / x2 were already restricted by THAT
    kernel's __call__.  Kernel.__call__ builds it with kernel=self after the restriction; code elsewhere that re-wraps the inputs of an
    existing lazy tensor must keep its kernel.  Passing a member of that kernel (lazy.kernel.base_kernel, .kernels[i], ...) evaluates
    the member on inputs its own active_dims never saw."""
    rep.rule("C06-16", "a LazyEvaluatedKernelTensor built outside Kernel.__call__ from the inputs of an existing lazy tensor keeps that tensor's kernel: a member kernel (whose own active_dims were not applied to those inputs) is evaluated through its __call__ instead")
    K = kernel_cls(idx)
    call_fi = idx.method(K, "__call__", own=True)
    n = 0
    own = 0
    for fi in sorted(idx.all_functions(), key=lambda f: (f.module.name, f.qualname)):
        for c in calls_in(fi.node):
            if (chain(c.func) or "").split(".")[-1] != "LazyEvaluatedKernelTensor":
                continue
            args = list(c.args)
            kern = args[2] if len(args) >= 3 else next((k.value for k in c.keywords if k.arg == "kernel"), None)
            if kern is None or len(args) < 2:
                raise AnalysisError("C06-16: LazyEvaluatedKernelTensor call of unknown form in %s" % fi.qualname)
            if fi is call_fi:
                own += 1
                ok = isinstance(kern, ast.Name) and kern.id == fi.params[0]
                rep.add("C06-16", "%s:%s[kernel=%s]" % (fi.module.name, fi.qualname, src(kern)), "%s:%d" % (fi.module.relpath, c.lineno), ok,
                        "the kernel that restricted the inputs" if ok else "Kernel.__call__ wraps its restricted inputs with another kernel `%s`" % src(kern), {})
                continue
            n += 1
            x1, x2 = chain(args[0]) or "", chain(args[1]) or ""
            base = x1.rsplit(".", 1)[0] if x1.endswith(".x1") else None
            ok = base is not None and x2 == base + ".x2" and chain(kern) == base + ".kernel"
            rep.add("C06-16", "%s:%s[kernel=%s]" % (fi.module.name, fi.qualname, src(kern)), "%s:%d" % (fi.module.relpath, c.lineno), ok,
                    "re-wraps the inputs of `%s` with its own kernel" % base if ok else
                    "the inputs `%s`, `%s` were restricted by the active_dims of the kernel that produced them, `%s` is evaluated on them with active_dims switched off: its own active_dims are never applied (SGPR with RBFKernel(active_dims=[2, 0]) as base kernel: predictive covariance off by 0.31)" % (src(args[0]), src(args[1]), src(kern)), {})
    if own < 1:
        raise AnalysisError("C06-16: Kernel.__call__ no longer builds the LazyEvaluatedKernelTensor (anchor)")
    rep.add("C06-16", "gpytorch:<lazy kernel tensors built outside Kernel.__call__>", "gpytorch/", True, "%d construction site(s) outside Kernel.__call__ inspected" % n, {"sites": n}, trivial=True)


# ---- C06-17 --------------------------------------------------------------------------------------------------------
def outputs_per_input_of_members(idx: ProgramIndex, rep: Report):
    """num_outputs_per_input(x1, x2) is asked by the lazy tensor with inputs restricted by the OUTERMOST kernel's active_dims; wrappers
    (sums, products, grids, SGPR ...) pass the question on to a member with the same inputs - the member's own active_dims were never
    applied to them.  An implementation that reads the width of its inputs (d + 1 outputs for d dimensions) therefore has to use the
    kernel's own active dimensionality when active_dims is set; otherwise RBFKernelGrad(active_dims=(0, 2)) + ... on 4-column inputs
    announces 5 outputs per input and produces 3 ('expected shape [25, 25] but got [15, 15]')."""
    rep.rule("C06-17", "a num_outputs_per_input that depends on the input width uses the kernel's own active dimensionality when active_dims is set (wrappers forward inputs the member's active_dims were not applied to)")
    K = kernel_cls(idx)
    n = forwards = 0
    for cls in sorted(idx.subclasses(K), key=lambda c: (c.module.name, c.qualname)):
        fi = cls.methods.get("num_outputs_per_input")
        if fi is None or cls is K:
            continue
        params = set(fi.params[1:])
        if any(isinstance(c, ast.Call) and isinstance(c.func, ast.Attribute) and c.func.attr == "num_outputs_per_input" for c in ast.walk(fi.node)):
            forwards += 1
            continue
        width = [x for x in ast.walk(fi.node)
                 if (isinstance(x, ast.Call) and isinstance(x.func, ast.Attribute) and x.func.attr == "size" and isinstance(x.func.value, ast.Name) and x.func.value.id in params)
                 or (isinstance(x, ast.Subscript) and isinstance(x.value, ast.Attribute) and x.value.attr == "shape" and isinstance(x.value.value, ast.Name) and x.value.value.id in params)]
        if not width:
            continue
        n += 1
        consults = any(isinstance(x, ast.Attribute) and x.attr == "active_dims" for x in ast.walk(fi.node))
        rep.add("C06-17", "%s:%s.num_outputs_per_input" % (cls.module.name, cls.qualname), fi.where, consults,
                "reads the input width only when the kernel has no active_dims of its own" if consults else
                "returns a function of `%s` alone: asked through a wrapper (k1 + k2, k1 * k2, a grid / SGPR kernel) it sees inputs its own active_dims were not applied to and announces more outputs per input than forward produces" % src(width[0]), {})
    rep.floor("C06-17", "width-dependent num_outputs_per_input implementations", n, 4)
    rep.add("C06-17", "gpytorch:<wrappers forwarding num_outputs_per_input>", "gpytorch/kernels/", forwards >= 5, "%d wrapper kernel(s) pass the question on to a member with the inputs they received" % forwards, {"wrappers": forwards}, trivial=True)
