"""C17 - constraints, parameter setters and priors: bounds, bijection, round trips.

(a) symbolic-interval abstract interpretation of the four `transform`s: range inside [lower, upper], monotone,
    transform(inverse_transform(y)) == y and inverse_transform(transform(x)) == x by rewriting;
(b) wiring table of every constrained parameter: getter / setter / closure / constraint / raw name agree;
(c) bound check on both `initialize` paths, before the write;
(d) prior closures are value-typed and paired with a setting closure that reaches the setter of the same parameter.
Does not decide prior densities.  (DESIGN.md section 4, C17-1 ... C17-5.)
"""
from __future__ import annotations

import ast
import math
import re
from typing import Dict, List, Optional, Set, Tuple

from ..cfg import enumerate_paths, FALL, RETURN, RAISE
from ..domains.symint import (D, INF, INVERSE_OF, NINF, PRIMITIVES, Lin, NF, TransformEval, Val, atom, ep_le)
from ..index import (AnalysisError, ClassInfo, FuncInfo, ProgramIndex, body_without_docstring, call_name, calls_in, chain,
                     const_str, get_arg, norm, src, walk_no_nested)
from ..report import Report

CONSTRAINTS_MOD = "gpytorch.constraints.constraints"

# documented range per constraint class: (lo, hi) in terms of L/U/constants
SPEC = {
    "Interval": ("L", "U"),
    "GreaterThan": ("L", INF),
    "Positive": (0, INF),
    "LessThan": (NINF, "U"),
}


def _ep(spec):
    if spec == "L":
        return Lin(a=1)
    if spec == "U":
        return Lin(b=1)
    if spec in (INF, NINF):
        return spec
    return Lin(c=spec)


def default_transform(idx: ProgramIndex, cls: ClassInfo) -> Tuple[str, str]:
    init = cls.lookup("__init__")
    a = init.node.args
    names = [x.arg for x in a.args]
    defaults = dict(zip(names[len(names) - len(a.defaults):], a.defaults))
    t = defaults.get("transform")
    it = defaults.get("inv_transform")
    if t is None or it is None:
        raise AnalysisError("C17-1: %s.__init__ has no default transform/inv_transform" % cls.qualname)
    return (chain(t) or src(t)).split(".")[-1], (chain(it) or src(it)).split(".")[-1]


class StaleCopy(Exception):
    """a transform reads a stored copy of bound-derived state that some writer of the bounds does not refresh"""


BOUNDS = ("lower_bound", "upper_bound")


def _writes_bounds(m: FuncInfo):
    """line of the last statement of method m that (re-)writes a bound buffer, or None"""
    last = None
    for n in ast.walk(m.node):
        if isinstance(n, ast.Assign) and any(isinstance(t, ast.Attribute) and t.attr in BOUNDS and isinstance(t.value, ast.Name) and t.value.id == m.params[0] for t in n.targets):
            last = max(last or 0, n.lineno)
        elif isinstance(n, ast.Call) and isinstance(n.func, ast.Attribute):
            if n.func.attr == "register_buffer" and n.args and const_str(n.args[0]) in BOUNDS:
                last = max(last or 0, n.lineno)
            elif n.func.attr == "_load_from_state_dict" and isinstance(n.func.value, ast.Call) and chain(n.func.value.func) == "super":
                last = max(last or 0, n.lineno)  # torch copies the loaded values into the registered buffers in place
            elif n.func.attr in ("copy_", "fill_", "set_") and isinstance(n.func.value, ast.Attribute) and n.func.value.attr in BOUNDS:
                last = max(last or 0, n.lineno)
    return last


def bound_attr_resolver(cls: ClassInfo):
    """resolves `self.<attr>` inside transform / inverse_transform: a property is replaced by what it returns; a stored attribute by
    the expression the constructor stores - provided EVERY method that writes the bounds re-assigns it afterwards (otherwise the copy
    goes stale and the map is no longer pinned to the current bounds: StaleCopy)"""
    def resolve(attr: str):
        f = cls.lookup(attr)
        if f is not None and f.kind == "property":
            rets = [r.value for r in ast.walk(f.node) if isinstance(r, ast.Return) and r.value is not None]
            return rets[0] if len(rets) == 1 else None
        stores = {}
        methods = {}
        for k in cls.mro():
            for name, m in getattr(k, "methods", {}).items():
                methods.setdefault(name, m)
        for name, m in methods.items():
            if not m.params:
                continue
            for n in ast.walk(m.node):
                if isinstance(n, ast.Assign) and any(isinstance(t, ast.Attribute) and t.attr == attr and isinstance(t.value, ast.Name) and t.value.id == m.params[0] for t in n.targets):
                    stores.setdefault(name, []).append(n)
        if "__init__" not in stores:
            return None
        if "_load_from_state_dict" not in methods or _writes_bounds(methods["_load_from_state_dict"]) is None:
            raise StaleCopy("`self.%s` is a stored copy of bound-derived state; load_state_dict copies new bounds into the buffers in place and nothing refreshes the copy" % attr)
        for name, m in methods.items():
            w = _writes_bounds(m) if m.params else None
            if w is None:
                continue
            if not any(n.lineno > w for n in stores.get(name, [])):
                raise StaleCopy("`self.%s` is a copy of bound-derived state stored by the constructor; %s re-writes the bounds (line %d) without refreshing it, so afterwards the map is no longer pinned to the current [lower_bound, upper_bound]" % (attr, m.qualname, w))
        e = stores["__init__"][-1].value
        # the constructor's locals lower_bound / upper_bound are the registered buffers
        class _R(ast.NodeTransformer):
            def visit_Name(self, n):
                if n.id in BOUNDS:
                    return ast.copy_location(ast.Attribute(value=ast.Name(id="self", ctx=ast.Load()), attr=n.id, ctx=ast.Load()), n)
                return n
        import copy
        return ast.fix_missing_locations(_R().visit(copy.deepcopy(e)))
    return resolve


def eval_method(fi: FuncInfo, prim: str, arg_val: Optional[Val] = None, resolver=None) -> Dict[bool, object]:
    """-> {enforced: Val | 'identity' | None}"""
    sn, arg = fi.params[0], fi.params[1]
    out: Dict[bool, object] = {}
    for enforced in (True, False):
        results = []
        for p in enumerate_paths(body_without_docstring(fi.node)):
            te = TransformEval(sn, arg, prim, arg_val, resolver)
            feasible = True
            ret = None
            for s in p.steps:
                if s.kind == "assume":
                    v = _enforced_truth(s.node, sn, enforced)
                    if v is None:
                        raise AnalysisError("C17-1: unknown guard `%s` in %s" % (src(s.node), fi.qualname))
                    if v != s.truth:
                        feasible = False
                        break
                elif s.kind == "stmt":
                    n = s.node
                    if isinstance(n, ast.Assign) and len(n.targets) == 1 and isinstance(n.targets[0], ast.Name):
                        e = _select(n.value, sn, enforced)
                        if isinstance(e, ast.Name) and e.id == arg:
                            te.env[n.targets[0].id] = "ARG"
                        else:
                            te.env[n.targets[0].id] = te.ev(e)
                    elif isinstance(n, ast.Return):
                        e = _select(n.value, sn, enforced)
                        if isinstance(e, ast.Name) and (e.id == arg or te.env.get(e.id) == "ARG"):
                            ret = "identity"
                        else:
                            ret = te.ev(e)
                    elif isinstance(n, ast.Expr) and isinstance(n.value, ast.Constant):
                        pass
                    else:
                        raise AnalysisError("C17-1: unknown statement form in %s: %s" % (fi.qualname, norm(n)))
            if feasible:
                if p.outcome != RETURN:
                    raise AnalysisError("C17-1: path of %s does not return" % fi.qualname)
                results.append(ret)
        if len(results) != 1:
            raise AnalysisError("C17-1: %s has %d feasible paths for enforced=%s" % (fi.qualname, len(results), enforced))
        out[enforced] = results[0]
    return out


def _enforced_truth(test: ast.AST, sn: str, enforced: bool) -> Optional[bool]:
    if isinstance(test, ast.UnaryOp) and isinstance(test.op, ast.Not):
        v = _enforced_truth(test.operand, sn, enforced)
        return None if v is None else not v
    if chain(test) == "%s.enforced" % sn:
        return enforced
    if isinstance(test, ast.Compare) and len(test.ops) == 1 and chain(test.left) == "%s._transform" % sn and isinstance(test.comparators[0], ast.Constant) and test.comparators[0].value is None:
        if isinstance(test.ops[0], ast.IsNot):
            return enforced
        if isinstance(test.ops[0], ast.Is):
            return not enforced
    return None


def _select(e: ast.AST, sn: str, enforced: bool) -> ast.AST:
    if isinstance(e, ast.IfExp):
        v = _enforced_truth(e.test, sn, enforced)
        if v is None:
            raise AnalysisError("C17-1: unknown conditional `%s`" % src(e.test))
        return _select(e.body if v else e.orelse, sn, enforced)
    return e


# ------------------------------------------------------------------------------------------------------------------
def run(idx: ProgramIndex, rep: Report, tier: str):
    rep.explanation = (
        "C17-1/2: the bodies of transform/inverse_transform of Interval, GreaterThan, Positive and LessThan are evaluated in a "
        "symbolic-interval domain (endpoints linear in lower/upper, primitive summaries sigmoid in [0,1] increasing, softplus/exp in "
        "[0,inf) increasing, fact lower < upper from the constructor's check) giving range and monotonicity, and composed in a "
        "rewriting normal form (T(Tinv z) -> z, (z*d)/d -> z, ...) giving the two inverse identities. C17-3: for every "
        "register_constraint site the wiring getter/setter/constraint/raw-name/prior-closures is extracted and cross-checked "
        "(sibling agreement across ~30 constrained parameters), plus raw-parameter encapsulation. C17-4: both value paths of "
        "Module.initialize run check_raw and raise before writing. C17-5: prior closures evaluate to values, string-named priors "
        "name existing members, setting closures reach the setter of the same parameter. Prior densities are not decided.")
    rep.rule("C17-1", "range of transform inside the documented closed interval; monotone increasing; identity when not enforced")
    rep.rule("C17-2", "transform(inverse_transform(y)) == y and inverse_transform(transform(x)) == x; default transform/inverse pairing consistent")
    rep.rule("C17-3", "wiring of every constrained parameter: getter, setter, constraint and raw name agree; raw parameters are encapsulated")
    rep.rule("C17-4", "Module.initialize rejects out-of-bounds values on both the Tensor and the float path before writing")
    rep.rule("C17-7", "inverse link functions are defined exactly on the open range of their forward link and do not clamp (out-of-bounds values become NaN and are rejected)")
    rep.rule("C17-6", "initialize writes exactly the given value into the parameter; sample_from_prior stores prior.sample() through the setting closure")
    rep.rule("C17-5", "prior closures are value-typed; string-named priors name an existing member; setting closures reach the setter of the same parameter")
    transforms(idx, rep)
    wiring(idx, rep)
    initialize_bounds(idx, rep)
    prior_closures(idx, rep)
    sampling_and_writes(idx, rep)
    composite_prior_terms(idx, rep)
    setters_convert_numbers(idx, rep)
    inverse_follows_transform(idx, rep)
    expand_keeps_transform(idx, rep)


# ---- C17-1 / C17-2 -------------------------------------------------------------------------------------------------
def transforms(idx: ProgramIndex, rep: Report):
    mi = idx.module(CONSTRAINTS_MOD)
    interval = idx.cls(CONSTRAINTS_MOD, "Interval")
    # fact lower < upper: constructor raises when any lower >= upper
    init = idx.method(interval, "__init__", own=True)
    has_check = False
    for n in ast.walk(init.node):
        if isinstance(n, ast.If) and any(isinstance(s, ast.Raise) for s in n.body):
            t = src(n.test)
            if re.search(r"torch\.(ge|greater_equal)\(lower_bound,\s*upper_bound\)", t) or re.search(r"lower_bound\s*>=\s*upper_bound", t) or re.search(r"torch\.(le|less_equal)\(upper_bound,\s*lower_bound\)", t):
                has_check = True
    rep.add("C17-1", CONSTRAINTS_MOD + ":Interval.__init__[lower<upper]", init.where, has_check,
            "constructor raises unless lower < upper elementwise (the order fact used by the interval domain)" if has_check else
            "Interval.__init__ no longer rejects lower >= upper: the range argument has no order fact", {})
    n_cls = 0
    for cls in idx.subclasses(interval):
        if cls.module.name != CONSTRAINTS_MOD and not ({"transform", "inverse_transform"} & set(cls.methods)):
            continue
        if cls.name not in SPEC:
            if {"transform", "inverse_transform"} & set(cls.methods):
                raise AnalysisError("C17-1: constraint class %s overrides transform but has no documented range in the table" % cls.qualname)
            continue
        n_cls += 1
        tname, iname = default_transform(idx, cls)
        inst = "%s:%s" % (cls.module.name, cls.qualname)
        ok_pair = INVERSE_OF.get(tname) == iname
        rep.add("C17-2", inst + ":default-pair", cls.where, ok_pair, "default transform %s is paired with %s" % (tname, iname) if ok_pair else
                "default transform %s is paired with inverse %s (expected %s)" % (tname, iname, INVERSE_OF.get(tname)), {})
        tf = cls.lookup("transform")
        inv = cls.lookup("inverse_transform")
        rs = bound_attr_resolver(cls)
        try:
            eval_method(tf, tname, None, rs)
            eval_method(inv, tname, None, rs)
        except StaleCopy as ex:
            rep.add("C17-1", inst + ".transform[range]", tf.where, False, str(ex), {})
            continue
        res = eval_method(tf, tname, None, rs)
        lo_s, hi_s = SPEC[cls.name]
        v = res[True]
        if v == "identity" or v is None:
            rep.add("C17-1", inst + ".transform[range]", tf.where, False, "enforced transform returns its argument unchanged", {})
        else:
            ok_lo = ep_le(_ep(lo_s), v.lo)
            ok_hi = ep_le(v.hi, _ep(hi_s))
            rep.add("C17-1", inst + ".transform[range]", tf.where, ok_lo and ok_hi,
                    "range [%s, %s] is inside [%s, %s]" % (v.lo, v.hi, lo_s, hi_s) if ok_lo and ok_hi else
                    "range of transform is [%s, %s], not inside the documented [%s, %s] (normal form %r)" % (v.lo, v.hi, lo_s, hi_s, v.nf),
                    {"normal_form": repr(v.nf), "lo": str(v.lo), "hi": str(v.hi), "primitive": tname})
            rep.add("C17-1", inst + ".transform[monotone]", tf.where, v.mono == 1,
                    "monotone increasing (sign composition of the primitives)" if v.mono == 1 else "transform is not provably increasing (sign %s)" % v.mono, {})
        rep.add("C17-1", inst + ".transform[not enforced]", tf.where, res[False] == "identity",
                "returns the argument unchanged when no transform is set" if res[False] == "identity" else "the not-enforced path does not return the argument unchanged", {})
        # inverse: compose
        ires = eval_method(inv, tname, None, rs)
        iv = ires[True]
        if iv == "identity" or iv is None:
            rep.add("C17-2", inst + "[transform o inverse]", inv.where, False, "enforced inverse_transform returns its argument unchanged", {})
        else:
            comp = eval_method(tf, tname, Val(iv.nf, NINF, INF, None, False), rs)[True]
            ok = comp != "identity" and comp.nf == atom("x")
            rep.add("C17-2", inst + "[transform o inverse]", inv.where, ok,
                    "transform(inverse_transform(y)) rewrites to y" if ok else "transform(inverse_transform(y)) rewrites to %r, not y" % (comp.nf if comp != "identity" else "identity"),
                    {"inverse_normal_form": repr(iv.nf)})
            if v not in ("identity", None):
                comp2 = eval_method(inv, tname, Val(v.nf, NINF, INF, None, False), rs)[True]
                ok2 = comp2 != "identity" and comp2.nf == atom("x")
                rep.add("C17-2", inst + "[inverse o transform]", inv.where, ok2,
                        "inverse_transform(transform(x)) rewrites to x" if ok2 else "inverse_transform(transform(x)) rewrites to %r, not x" % (comp2.nf if comp2 != "identity" else "identity"), {})
        rep.add("C17-2", inst + ".inverse_transform[not enforced]", inv.where, ires[False] == "identity", "identity when not enforced" if ires[False] == "identity" else "not-enforced inverse is not the identity", {})
        # constructor arguments that fix the other bound
        if cls.name in ("GreaterThan", "LessThan", "Positive"):
            own_init = cls.methods.get("__init__")
            want = {"GreaterThan": ("upper_bound", "math.inf"), "LessThan": ("lower_bound", "-math.inf"), "Positive": ("lower_bound", "0.0")}[cls.name]
            ok = False
            if own_init is not None:
                for c in calls_in(own_init.node):
                    if isinstance(c.func, ast.Attribute) and c.func.attr == "__init__":
                        a = get_arg(c, None, want[0])
                        if a is not None and _num(a) == _num_text(want[1]):
                            ok = True
            rep.add("C17-1", inst + ".__init__[%s]" % want[0], (own_init or cls).where, ok, "passes %s=%s to the base constructor" % want if ok else "%s.__init__ no longer passes %s=%s" % (cls.name, want[0], want[1]), {})
    rep.floor("C17-1", "constraint classes analysed", n_cls, 4)
    # registry pairing
    tmi = idx.module("gpytorch.utils.transforms")
    reg = tmi.assigns.get("TRANSFORM_REGISTRY")
    if not isinstance(reg, ast.Dict):
        raise AnalysisError("anchor vanished: TRANSFORM_REGISTRY")
    for k, v in zip(reg.keys, reg.values):
        kn, vn = (chain(k) or src(k)).split(".")[-1], (chain(v) or src(v)).split(".")[-1]
        ok = INVERSE_OF.get(kn) == vn
        rep.add("C17-2", "gpytorch.utils.transforms:TRANSFORM_REGISTRY[%s]" % kn, tmi.relpath, ok, "%s -> %s" % (kn, vn) if ok else "registry maps %s to %s (expected %s)" % (kn, vn, INVERSE_OF.get(kn)), {})
    # C17-7: inverse links are partial - defined exactly on the open range of the forward link, and never clamping.  The rejection
    # of out-of-bounds assignments rests on it: inverse_transform(v) is NaN for v outside the bounds and check_raw(NaN) fails.
    from ..domains.defdomain import Unknown, clamping_constructs, domain
    RANGE = {"exp": (0.0, math.inf), "softplus": (0.0, math.inf), "sigmoid": (0.0, 1.0)}
    n7 = 0
    for k, v in zip(reg.keys, reg.values):
        kn, vn = (chain(k) or src(k)).split(".")[-1], (chain(v) or src(v)).split(".")[-1]
        f = tmi.functions.get(vn)
        if f is None or kn not in RANGE:
            continue  # torch.log: a library primitive (defined on (0, inf))
        n7 += 1
        x = f.params[0]
        rets = [r.value for r in ast.walk(f.node) if isinstance(r, ast.Return) and r.value is not None]
        inst = "gpytorch.utils.transforms:%s[partial inverse of %s]" % (vn, kn)
        probs7, undecided = [], []
        for r in rets:
            cl = clamping_constructs(r)
            if cl:
                probs7.append("`%s` clamps its argument (%s): values outside the range of %s get a finite raw value, so an out-of-bounds assignment is accepted instead of rejected" % (" ".join(src(r).split())[:60], ", ".join(cl), kn))
                continue
            try:
                d = domain(r, x)
            except Unknown as e:
                undecided.append(str(e))
                continue
            if d != RANGE[kn]:
                probs7.append("`%s` is defined on (%s, %s), the range of %s is (%s, %s)" % (" ".join(src(r).split())[:60], d[0], d[1], kn, RANGE[kn][0], RANGE[kn][1]))
        if undecided and not probs7:
            rep.observe("C17-7", inst, f.where, "domain of definedness not decided (%s)" % undecided[0])
        else:
            rep.add("C17-7", inst, f.where, not probs7 and bool(rets), "defined exactly on the open range (%s, %s) of %s, no clamping: out-of-range values map to NaN and are rejected by check_raw" % (RANGE[kn][0], RANGE[kn][1], kn) if not probs7 else "; ".join(probs7), {})
    rep.floor("C17-7", "inverse links analysed", n7, 2)
    # check / check_raw compare against both bounds
    cr = idx.method(interval, "check_raw", own=True)
    t = src(cr.node)
    ok = bool(re.search(r"self\.transform\(tensor\)\s*<=\s*self\.upper_bound", t)) and bool(re.search(r"self\.transform\(tensor\)\s*>=\s*self\.lower_bound", t)) and " and " in t
    rep.add("C17-4", CONSTRAINTS_MOD + ":Interval.check_raw", cr.where, ok, "compares transform(x) with both bounds" if ok else "check_raw no longer compares transform(x) with both bounds (conjunction)", {})


def _num(a: ast.AST):
    t = src(a).replace(" ", "")
    return _num_text(t)


def _num_text(t: str):
    t = t.replace("float('inf')", "math.inf").replace('float("inf")', "math.inf").replace("inf", "inf")
    if t in ("math.inf", "torch.inf", "inf"):
        return float("inf")
    if t in ("-math.inf", "-torch.inf", "-inf"):
        return float("-inf")
    try:
        return float(t)
    except ValueError:
        return t


# ---- C17-3 ---------------------------------------------------------------------------------------------------------
TRANSFORM_RE = re.compile(r"^(\w+)\.(\w+)_constraint\.transform\((\w+)\.(\w+)\)$")


def _returns(fi: FuncInfo) -> List[ast.AST]:
    return [n.value for n in walk_no_nested(fi.node) if isinstance(n, ast.Return) and n.value is not None]


def getter_facts(cls: ClassInfo, fi: FuncInfo, depth=0) -> List[Tuple[str, str, str]]:
    """(constraint raw name, param raw name, how) for each `X.raw_Q_constraint.transform(X.raw_R)` the getter returns."""
    out = []
    for r in _returns(fi):
        for c in ast.walk(r):
            if isinstance(c, ast.Call) and isinstance(c.func, ast.Attribute) and c.func.attr == "transform":
                base = chain(c.func.value)
                if base and base.endswith("_constraint") and c.args:
                    arg = chain(c.args[0])
                    q = base.split(".")[-1][: -len("_constraint")]
                    out.append((q, arg.split(".")[-1] if arg else src(c.args[0]), base.split(".")[0]))
        # helper: return self._P_param(self)
        if depth < 2 and isinstance(r, ast.Call) and isinstance(r.func, ast.Attribute) and chain(r.func.value) == fi.params[0]:
            h = cls.lookup(r.func.attr)
            if h is not None and h is not fi:
                out += getter_facts(cls, h, depth + 1)
    return out


def setter_facts(cls: ClassInfo, fi: FuncInfo, depth=0) -> List[Tuple[str, str]]:
    """(initialize keyword, constraint raw name) for each `X.initialize(raw_Q=X.<c>.inverse_transform(v))` reachable."""
    out = []
    unc = unconstrained_nodes(fi.node)
    for c in calls_in(fi.node):
        if id(c) in unc:
            continue
        if isinstance(c.func, ast.Attribute) and c.func.attr == "initialize":
            for kw in c.keywords:
                if kw.arg and isinstance(kw.value, ast.Call) and isinstance(kw.value.func, ast.Attribute) and kw.value.func.attr == "inverse_transform":
                    base = chain(kw.value.func.value) or ""
                    out.append((kw.arg, base.split(".")[-1]))
                elif kw.arg:
                    out.append((kw.arg, "<no inverse_transform: %s>" % src(kw.value)[:40]))
        elif depth < 2 and isinstance(c.func, ast.Attribute) and chain(c.func.value) in (fi.params[:1] + fi.params[1:2]) and c.func.attr.startswith("_"):
            h = cls.lookup(c.func.attr)
            if h is not None and h is not fi and h.name not in ("initialize",):
                out += setter_facts(cls, h, depth + 1)
    return out


def registered_constraints(idx: ProgramIndex) -> List[Tuple[ClassInfo, FuncInfo, ast.Call, str]]:
    out = []
    for c in sorted(idx.package_classes(), key=lambda c: (c.module.name, c.qualname)):
        for m in c.methods.values():
            for call in calls_in(m.node):
                if isinstance(call.func, ast.Attribute) and call.func.attr == "register_constraint" and call.args:
                    nm = const_str(call.args[0])
                    if nm is None:
                        raise AnalysisError("C17-3: register_constraint with a non-literal name in %s" % m.qualname)
                    out.append((c, m, call, nm))
    return out


def is_registered_parameter(cls: ClassInfo, raw: str) -> bool:
    for k in cls.repo_mro():
        for m in k.methods.values():
            for call in calls_in(m.node):
                if isinstance(call.func, ast.Attribute) and call.func.attr == "register_parameter":
                    nm = get_arg(call, 0, "name")
                    if nm is not None and const_str(nm) == raw:
                        return True
            for n in ast.walk(m.node):
                if isinstance(n, ast.Assign) and any(chain(t) == "self." + raw for t in n.targets) and isinstance(n.value, ast.Call) and (chain(n.value.func) or "").endswith("Parameter"):
                    return True
    return False


METADATA_ATTRS = {"dtype", "device", "shape", "size", "dim", "ndim", "ndimension", "requires_grad", "numel", "data", "grad", "requires_grad_"}


def _metadata_use(parents: Dict[int, ast.AST], node: ast.AST) -> bool:
    p = parents.get(id(node))
    if isinstance(p, ast.Attribute) and p.attr in METADATA_ATTRS - {"data"}:
        return True
    if isinstance(p, ast.Call):
        fn = p.func.attr if isinstance(p.func, ast.Attribute) else (p.func.id if isinstance(p.func, ast.Name) else "")
        if node in p.args and (fn in ("to", "type_as", "expand_as", "view_as") or fn.endswith("_like")):
            return True
    return False


def unconstrained_nodes(fn: ast.AST) -> Set[int]:
    """ids of nodes that execute only when `hasattr(X, "raw_P_constraint")` is False (optional-constraint idiom)."""
    out: Set[int] = set()

    def mark(stmts):
        for st in stmts:
            for n in ast.walk(st):
                out.add(id(n))

    def rec(body):
        for i, st in enumerate(body):
            if isinstance(st, ast.If):
                t = src(st.test)
                if re.match(r"^hasattr\(\w+, ['\"]raw_\w+_constraint['\"]\)$", t):
                    mark(st.orelse)
                    if st.body and isinstance(st.body[-1], (ast.Return, ast.Raise)):
                        mark(body[i + 1:])
                rec(st.body)
                rec(st.orelse)
            else:
                for fld in ("body", "orelse", "finalbody"):
                    sub = getattr(st, fld, None)
                    if isinstance(sub, list) and sub and isinstance(sub[0], ast.stmt):
                        rec(sub)

    rec(getattr(fn, "body", []))
    return out


def wiring(idx: ProgramIndex, rep: Report):
    regs = registered_constraints(idx)
    rep.floor("C17-3", "register_constraint sites", len(regs), 30)
    seen: Set[Tuple[str, str]] = set()
    for cls, m, call, raw in regs:
        if (cls.qualname, raw) in seen:
            continue
        seen.add((cls.qualname, raw))
        inst = "%s:%s.%s" % (cls.module.name, cls.qualname, raw)
        where = "%s:%d" % (m.module.relpath, call.lineno)
        if not raw.startswith("raw_"):
            rep.add("C17-3", inst, where, False, "constrained parameter name does not start with raw_", {})
            continue
        # (i) registered as parameter
        ok_i = is_registered_parameter(cls, raw)
        # (ii) getter(s)
        getters = []
        for name, g in cls.all_methods().items():
            if g.kind != "property":
                continue
            for q, r, base in getter_facts(cls, g):
                if q == raw or r == raw:
                    getters.append((name, g, q, r))
        problems = []
        if not ok_i:
            problems.append("%s is not registered as a parameter in %s or its bases" % (raw, cls.qualname))
        if not getters:
            problems.append("no property returns %s_constraint.transform(%s)" % (raw, raw))
        for name, g, q, r in getters:
            if q != r:
                problems.append("getter `%s` transforms %s with the constraint of %s" % (name, r, q))
            # (iii) setter
            s = cls.lookup_setter(name)
            if s is None:
                problems.append("property `%s` has no setter" % name)
                continue
            facts = setter_facts(cls, s)
            if not facts:
                problems.append("setter of `%s` does not end in initialize(%s=...inverse_transform(value))" % (name, raw))
            for kw, cname in facts:
                cq = cname[: -len("_constraint")] if cname.endswith("_constraint") else cname
                alias_ok = cq == raw or _constraint_alias(cls, cname, raw)
                if kw != raw and (q == raw or r == raw):
                    problems.append("setter of `%s` initialises %s (getter reads %s)" % (name, kw, raw))
                elif not alias_ok:
                    problems.append("setter of `%s` inverts with %s (expected %s_constraint)" % (name, cname, raw))
        rep.add("C17-3", inst, where, not problems, "getter(s) %s, setter(s) and constraint agree on %s" % ([g[0] for g in getters], raw) if not problems else "; ".join(sorted(set(problems))),
                {"getters": [g[0] for g in getters], "registered_parameter": ok_i})
    # (v) encapsulation of raw parameters
    n_raw_reads = 0
    bad = []
    raws_by_class: Dict[str, Set[str]] = {}
    for cls, m, call, raw in regs:
        raws_by_class.setdefault(cls.qualname, set()).add(raw)
    for cls in idx.package_classes():
        raws = set()
        for k in cls.repo_mro():
            raws |= raws_by_class.get(k.qualname, set())
        if not raws:
            continue
        for name, f in list(cls.methods.items()) + list(cls.setters.items()):
            if name == "__init__":
                continue
            parents = {}
            for p in ast.walk(f.node):
                for ch in ast.iter_child_nodes(p):
                    parents[id(ch)] = p
            unc = unconstrained_nodes(f.node)
            for n in walk_no_nested(f.node):
                if isinstance(n, ast.Attribute) and n.attr in raws and isinstance(n.ctx, ast.Load):
                    n_raw_reads += 1
                    if id(n) in unc:
                        continue
                    p = parents.get(id(n))
                    # accepted: argument of <constraint>.transform(...)
                    if isinstance(p, ast.Call) and isinstance(p.func, ast.Attribute) and p.func.attr in ("transform",) and n in p.args:
                        continue
                    if _metadata_use(parents, n):
                        continue
                    bad.append("%s reads %s directly (%s:%d)" % (f.qualname, n.attr, f.module.relpath, n.lineno))
    rep.analysed["C17-3 reads of raw parameters inspected"] = n_raw_reads
    rep.add("C17-3", "gpytorch:<raw parameter encapsulation>", "gpytorch/", not bad, "every read of a constrained raw parameter goes through its constraint's transform (metadata-only uses accepted)" if not bad else "; ".join(bad[:4]), {"reads": n_raw_reads})


def _constraint_alias(cls: ClassInfo, attr: str, raw: str) -> bool:
    """`self.<attr> = c` where c is the very local passed to register_constraint(raw, c)."""
    for k in cls.repo_mro():
        for m in k.methods.values():
            local = None
            for call in calls_in(m.node):
                if isinstance(call.func, ast.Attribute) and call.func.attr == "register_constraint" and call.args and const_str(call.args[0]) == raw and len(call.args) > 1 and isinstance(call.args[1], ast.Name):
                    local = call.args[1].id
            if local:
                for n in ast.walk(m.node):
                    if isinstance(n, ast.Assign) and any(chain(t) == "self." + attr for t in n.targets) and isinstance(n.value, ast.Name) and n.value.id == local:
                        return True
    return False


# ---- C17-4 ---------------------------------------------------------------------------------------------------------
def initialize_bounds(idx: ProgramIndex, rep: Report):
    gm = idx.cls("gpytorch.module", "Module")
    fi = idx.method(gm, "initialize", own=True)
    # the loop `for <name>, <val> in kwargs.items()` names the value variable; everything below is relative to it
    kw = fi.node.args.kwarg.arg if fi.node.args.kwarg else None
    val = None
    for n in ast.walk(fi.node):
        if isinstance(n, ast.For) and isinstance(n.iter, ast.Call) and isinstance(n.iter.func, ast.Attribute) and n.iter.func.attr == "items" and chain(n.iter.func.value) == kw \
                and isinstance(n.target, ast.Tuple) and len(n.target.elts) == 2 and isinstance(n.target.elts[1], ast.Name):
            val = n.target.elts[1].id
    if val is None:
        raise AnalysisError("anchor vanished: the loop over the keyword arguments of Module.initialize")
    # find the two value branches
    found = {"Tensor": None, "float": None}
    for n in ast.walk(fi.node):
        if isinstance(n, ast.If):
            t = n.test
            if isinstance(t, ast.Call) and chain(t.func) == "isinstance" and len(t.args) == 2 and isinstance(t.args[0], ast.Name) and t.args[0].id == val:
                kinds = [src(e).split(".")[-1] for e in (t.args[1].elts if isinstance(t.args[1], ast.Tuple) else [t.args[1]])]
                for k in kinds:
                    if k in found:
                        found[k] = n
    for kind, node in found.items():
        inst = "gpytorch.module:Module.initialize[%s path]" % kind
        if node is None:
            raise AnalysisError("anchor vanished: %s" % inst)
        body = node.body
        # locals bound to the parameter's constraint
        cnames = {st.targets[0].id for st in body if isinstance(st, ast.Assign) and len(st.targets) == 1 and isinstance(st.targets[0], ast.Name)
                  and isinstance(st.value, ast.Call) and isinstance(st.value.func, ast.Attribute) and st.value.func.attr == "constraint_for_parameter_name"}

        def is_bound_check(t) -> bool:
            """not <constraint>.check_raw(<val>)"""
            return isinstance(t, ast.UnaryOp) and isinstance(t.op, ast.Not) and isinstance(t.operand, ast.Call) and isinstance(t.operand.func, ast.Attribute) and t.operand.func.attr == "check_raw" \
                and isinstance(t.operand.func.value, ast.Name) and t.operand.func.value.id in cnames and len(t.operand.args) == 1 and _is_value_or_conversion(t.operand.args[0], val)

        def is_weakening_ok(t) -> bool:
            """<constraint> is not None | <constraint>.enforced"""
            if isinstance(t, ast.Compare) and len(t.ops) == 1 and isinstance(t.ops[0], ast.IsNot) and isinstance(t.left, ast.Name) and t.left.id in cnames and isinstance(t.comparators[0], ast.Constant) and t.comparators[0].value is None:
                return True
            return isinstance(t, ast.Attribute) and t.attr == "enforced" and isinstance(t.value, ast.Name) and t.value.id in cnames

        # the write statements
        writes = [i for i, st in enumerate(body) if _is_param_write(st)]
        checks = []
        for i, st in enumerate(body):
            if isinstance(st, ast.If) and any(isinstance(s_, ast.Raise) for s_ in st.body):
                atoms = st.test.values if isinstance(st.test, ast.BoolOp) and isinstance(st.test.op, ast.And) else [st.test]
                if any(is_bound_check(a_) for a_ in atoms):
                    checks.append((i, atoms, st.test))
        ok = bool(writes) and bool(checks) and min(c[0] for c in checks) < min(writes)
        if ok:
            # the guard may be weakened only by `constraint is not None` / `constraint.enforced`
            _, atoms, t = min(checks, key=lambda c: c[0])
            extra = [a_ for a_ in atoms if not (is_bound_check(a_) or is_weakening_ok(a_))]
            if extra or (isinstance(t, ast.BoolOp) and not isinstance(t.op, ast.And)):
                ok = False
        rep.add("C17-4", inst, "%s:%d" % (fi.module.relpath, node.lineno), ok,
                "check_raw(val) failure raises before the parameter is written" if ok else "the %s path of initialize writes the parameter without a preceding bound check that raises" % kind, {})


def _is_param_write(st: ast.AST) -> bool:
    for n in ast.walk(st):
        if isinstance(n, ast.Call) and isinstance(n.func, ast.Attribute) and n.func.attr in ("copy_", "fill_") and src(n.func.value).endswith(".data"):
            return True
        if isinstance(n, ast.Assign) and any(src(t).endswith(".data") for t in n.targets):
            return True
    return False


# ---- C17-5 ---------------------------------------------------------------------------------------------------------
def prior_closures(idx: ProgramIndex, rep: Report):
    n = 0
    for cls in sorted(idx.package_classes(), key=lambda c: (c.module.name, c.qualname)):
        for m in cls.methods.values():
            for call in calls_in(m.node):
                if not (isinstance(call.func, ast.Attribute) and call.func.attr == "register_prior" and chain(call.func.value) == "self"):
                    continue
                if len(call.args) < 3:
                    continue
                n += 1
                pname = const_str(call.args[0]) or src(call.args[0])
                clo = call.args[2]
                setc = call.args[3] if len(call.args) > 3 else get_arg(call, None, "setting_closure")
                inst = "%s:%s:%s" % (cls.module.name, cls.qualname, pname)
                where = "%s:%d" % (m.module.relpath, call.lineno)
                probs = []
                target = None  # name of the property the closure reads
                if isinstance(clo, ast.Constant) and isinstance(clo.value, str):
                    nm = clo.value
                    target = nm
                    if cls.lookup(nm) is None and not is_registered_parameter(cls, nm) and not _assigned_attr(cls, nm):
                        probs.append("string-named prior refers to `%s`, which is neither a parameter nor a property of %s" % (nm, cls.qualname))
                    elif cls.lookup(nm) is not None and cls.lookup(nm).kind != "property":
                        probs.append("string-named prior refers to method `%s` (getattr returns a bound method, not a value)" % nm)
                elif isinstance(clo, ast.Lambda):
                    target, p = _closure_value(cls, clo.body, clo.args.args[0].arg if clo.args.args else "m")
                    probs += p
                elif chain(clo) and chain(clo).startswith("self."):
                    h = cls.lookup(chain(clo).split(".", 1)[1])
                    if h is None:
                        probs.append("closure %s does not resolve" % src(clo))
                    else:
                        mparam = h.params[1] if len(h.params) > 1 else None
                        unc = unconstrained_nodes(h.node)
                        for r in _returns(h):
                            t, p = _closure_value(cls, r, mparam, unc)
                            target = target or t
                            probs += p
                else:
                    probs.append("unrecognised closure form %s" % src(clo)[:40])
                # setting closure reaches the setter of the same parameter
                if setc is not None and target is not None and not (isinstance(setc, ast.Constant) and setc.value is None):
                    reach = _setting_target(cls, setc)
                    if reach is None:
                        probs.append("setting closure %s does not reach a setter" % src(setc)[:40])
                    elif not reach.startswith("initialize") and cls.lookup(reach) is None and cls.lookup_setter(reach) is None:
                        probs.append("the setting closure calls `m.%s(...)`, which %s does not define: sample_from_prior / pyro_load_from_samples for this prior raise AttributeError" % (reach, cls.name))
                    elif reach not in ("_set_" + target, target, "initialize") and not _same_raw(cls, target, reach):
                        probs.append("closure reads `%s` but the setting closure reaches `%s`" % (target, reach))
                rep.add("C17-5", inst, where, not probs, "closure evaluates to the value of `%s`%s" % (target, " and the setting closure stores to the same parameter" if setc is not None else "") if not probs else "; ".join(probs), {"closure": src(clo)[:80]})
    rep.floor("C17-5", "register_prior sites", n, 28)


def _assigned_attr(cls: ClassInfo, nm: str) -> bool:
    for k in cls.repo_mro():
        for m in k.methods.values():
            for n in ast.walk(m.node):
                if isinstance(n, (ast.Assign, ast.AnnAssign)):
                    tg = n.targets if isinstance(n, ast.Assign) else [n.target]
                    if any(chain(t) == "self." + nm for t in tg):
                        return True
    return False


def _closure_value(cls: ClassInfo, body: ast.AST, mparam: Optional[str], skip: Optional[Set[int]] = None) -> Tuple[Optional[str], List[str]]:
    """The closure body must evaluate to a tensor-valued expression."""
    probs = []
    target = None
    # find attribute accesses on the module parameter
    call_funcs = {id(c.func) for c in ast.walk(body) if isinstance(c, ast.Call)}
    for n in ast.walk(body):
        if isinstance(n, ast.Attribute) and isinstance(n.value, ast.Name) and n.value.id == mparam:
            member = cls.lookup(n.attr)
            if n.attr.endswith("_constraint"):
                continue
            if skip and id(n) in skip:
                continue
            if target is None:
                target = n.attr
            if member is not None and member.kind != "property" and id(n) not in call_funcs:
                probs.append("closure returns the bound method `%s.%s` without calling it (prior.log_prob would receive a method, not a value)" % (mparam, n.attr))
            if n.attr.startswith("raw_") and not _inside_transform(body, n):
                probs.append("closure evaluates the raw parameter `%s` instead of the constrained value" % n.attr)
    return target, probs


def _inside_transform(body: ast.AST, node: ast.AST) -> bool:
    for c in ast.walk(body):
        if isinstance(c, ast.Call) and isinstance(c.func, ast.Attribute) and c.func.attr == "transform" and any(a is node for a in c.args):
            return True
    # accepted: `return m.raw_P` in the branch where no constraint exists (ConstantMean idiom) is handled by caller context
    return False


def _setting_target(cls: ClassInfo, setc: ast.AST) -> Optional[str]:
    if isinstance(setc, ast.Lambda):
        for c in ast.walk(setc.body):
            if isinstance(c, ast.Call) and isinstance(c.func, ast.Attribute):
                return c.func.attr
        return None
    if chain(setc) and chain(setc).startswith("self."):
        h = cls.lookup(chain(setc).split(".", 1)[1])
        if h is None:
            return None
        for c in calls_in(h.node):
            if isinstance(c.func, ast.Attribute) and (c.func.attr.startswith("_set_") or c.func.attr == "initialize") and chain(c.func.value) in h.params:
                if c.func.attr == "initialize":
                    kws = [k.arg for k in c.keywords if k.arg]
                    return "initialize:" + ",".join(kws)
                return c.func.attr
    return None


def _same_raw(cls: ClassInfo, target: str, reach: str) -> bool:
    """closure reads property `target`; setting closure reaches `reach` (a _set_X method or initialize:raw_X)."""
    g = cls.lookup(target)
    raws = {r for q, r, _ in getter_facts(cls, g)} if g is not None and g.kind == "property" else set()
    if target.startswith("raw_"):
        raws.add(target)
    if reach.startswith("initialize:"):
        return bool(raws & set(reach.split(":", 1)[1].split(",")))
    s = cls.lookup(reach)
    if s is None:
        return False
    return bool(raws & {kw for kw, _ in setter_facts(cls, s)})


# ---- C17-6 ---------------------------------------------------------------------------------------------------------
def sampling_and_writes(idx: ProgramIndex, rep: Report):
    gm = idx.cls("gpytorch.module", "Module")
    fi = idx.method(gm, "initialize", own=True)
    # every write into the parameter's data carries the loop's value variable (expanded / viewed / as is), nothing else
    kw = fi.node.args.kwarg.arg if fi.node.args.kwarg else None
    name_var = val_var = None
    for n in ast.walk(fi.node):
        if isinstance(n, ast.For) and isinstance(n.iter, ast.Call) and isinstance(n.iter.func, ast.Attribute) and n.iter.func.attr == "items" and chain(n.iter.func.value) == kw \
                and isinstance(n.target, ast.Tuple) and len(n.target.elts) == 2 and all(isinstance(e, ast.Name) for e in n.target.elts):
            name_var, val_var = n.target.elts[0].id, n.target.elts[1].id
    if val_var is None:
        raise AnalysisError("anchor vanished: the loop over the keyword arguments of Module.initialize")
    sn0 = fi.params[0]
    probs = []
    nw = 0
    for n in ast.walk(fi.node):
        v = None
        if isinstance(n, ast.Call) and isinstance(n.func, ast.Attribute) and n.func.attr in ("copy_", "fill_") and src(n.func.value).endswith(".data") and n.args:
            v = n.args[0]
        elif isinstance(n, ast.Assign) and any(src(t).endswith(".data") for t in n.targets):
            v = n.value
        if v is None:
            continue
        nw += 1
        root = v
        while isinstance(root, ast.Call) and isinstance(root.func, ast.Attribute) and root.func.attr in ("expand_as", "view_as", "expand", "view", "to", "type_as", "clone", "detach"):
            root = root.func.value
        if not (isinstance(root, ast.Name) and root.id == val_var):
            probs.append("parameter data is written with `%s`, not with the given value" % src(v)[:50])
        tgt = n.func.value if isinstance(n, ast.Call) else n.targets[0]
        named = any(isinstance(c, ast.Call) and ((chain(c.func) == "%s.__getattr__" % sn0 and len(c.args) == 1 and src(c.args[0]) == name_var) or
                                                 (chain(c.func) == "getattr" and len(c.args) == 2 and src(c.args[0]) == sn0 and src(c.args[1]) == name_var)) for c in ast.walk(tgt))
        if not named:
            probs.append("the write `%s` does not target the named parameter" % src(tgt)[:50])
    rep.add("C17-6", "gpytorch.module:Module.initialize[writes]", fi.where, not probs and nw >= 3, "all %d writes store the given value (reshaped at most) into the named parameter" % nw if not probs else "; ".join(sorted(set(probs))), {"writes": nw})
    # sample_from_prior (inlined expressions): <registration>[setting position](self, <registration>[prior position].sample(...)),
    # after a test `<registration>[setting position] is None` that raises
    from ..symbolic import inline, walk_paths
    from .common_enum import registration_tuple_roles
    roles = registration_tuple_roles(idx)
    sp = idx.method(gm, "sample_from_prior", own=True)
    ssn, pn = sp.params[0], sp.params[1]

    def reg_field(e):
        """position k if e is self._priors[<prior_name>][k]"""
        if isinstance(e, ast.Subscript) and isinstance(e.slice, ast.Constant) and isinstance(e.value, ast.Subscript) and chain(e.value.value) == "%s._priors" % ssn and src(e.value.slice) == pn:
            return e.slice.value
        return None

    stores = guarded = 0
    sprobs = []
    for path, seq in walk_paths(sp):
        refuted_none = set()
        for stx, env in seq:
            if not isinstance(stx, ast.stmt):
                if stx.kind == "assume":
                    t = inline(stx.node, env)
                    if isinstance(t, ast.Compare) and len(t.ops) == 1 and isinstance(t.ops[0], (ast.Is, ast.IsNot)) and isinstance(t.comparators[0], ast.Constant) and t.comparators[0].value is None:
                        k = reg_field(t.left)
                        if k is not None and ((isinstance(t.ops[0], ast.Is) and stx.truth is False) or (isinstance(t.ops[0], ast.IsNot) and stx.truth is True)):
                            refuted_none.add(k)
                continue
            if isinstance(stx, ast.Expr) and isinstance(stx.value, ast.Call):
                c = stx.value
                k = reg_field(inline(c.func, env))
                if k is None:
                    continue
                stores += 1
                if k == roles.get("prior") or k == roles.get("closure"):
                    sprobs.append("the value is stored through field %d of the registration, which is not the setting closure" % k)
                args = [inline(a_, env) for a_ in c.args]
                if not (len(args) == 2 and src(args[0]) == ssn and isinstance(args[1], ast.Call) and isinstance(args[1].func, ast.Attribute) and args[1].func.attr in ("sample", "rsample") and reg_field(args[1].func.value) == roles.get("prior")):
                    sprobs.append("the setting closure is not called with (self, <registered prior>.sample()): `%s`" % src(stx)[:60])
                if k in refuted_none:
                    guarded += 1
                else:
                    sprobs.append("a missing setting closure is not rejected before the call")
    ok = stores >= 1 and not sprobs
    rep.add("C17-6", "gpytorch.module:Module.sample_from_prior", sp.where, ok,
            "setting_closure(self, prior.sample()) with the closure registered for that prior; missing closure raises" if ok else
            "sample_from_prior no longer stores prior.sample() through the prior's own setting closure (or silently skips a missing closure): %s" % ("; ".join(sorted(set(sprobs))) or "no store found"), {})
    # register_prior stores (prior, closure, setting_closure) under the name and, for string names, a setting closure that initialises that parameter
    rp = idx.method(gm, "register_prior", own=True)
    pname = rp.params[2]  # the `prior` parameter
    stores = [n for n in ast.walk(rp.node) if isinstance(n, ast.Assign) and isinstance(n.targets[0], ast.Subscript) and chain(n.targets[0].value) == "self._priors"]
    ok_store = len(stores) == 1 and isinstance(stores[0].value, ast.Tuple) and len(stores[0].value.elts) == 3 and src(stores[0].value.elts[0]) == pname and src(stores[0].targets[0].slice) == rp.params[1]
    # the locals that name the attribute of a string-named prior
    str_names = {rp.params[3]}
    for n in ast.walk(rp.node):
        if isinstance(n, ast.Assign) and isinstance(n.targets[0], ast.Name) and isinstance(n.value, ast.Name) and n.value.id in str_names:
            str_names.add(n.targets[0].id)
    reads = writes = False
    for f in ast.walk(rp.node):
        if isinstance(f, ast.FunctionDef) and f is not rp.node:
            for r in ast.walk(f):
                if isinstance(r, ast.Return) and isinstance(r.value, ast.Call) and chain(r.value.func) == "getattr" and len(r.value.args) == 2 and src(r.value.args[1]) in str_names:
                    reads = True
                if isinstance(r, ast.Call) and isinstance(r.func, ast.Attribute) and r.func.attr == "initialize":
                    for k in r.keywords:
                        if k.arg is None and isinstance(k.value, ast.Dict) and len(k.value.keys) == 1 and src(k.value.keys[0]) in str_names and isinstance(k.value.values[0], ast.Name):
                            writes = True
    ok = ok_store and reads and writes
    rep.add("C17-6", "gpytorch.module:Module.register_prior", rp.where, ok, "stores (prior, closure, setting closure) under the prior's name; string-named priors read and initialise that very attribute" if ok else
            "register_prior no longer stores the (prior, closure, setting closure) triple under its name, or the closures of a string-named prior do not read/initialise the named attribute (store=%s, reads=%s, writes=%s)" % (ok_store, reads, writes), {})


def _is_value_or_conversion(e: ast.AST, val: str) -> bool:
    """`val`, or a tensor conversion of it (torch.as_tensor(val), torch.tensor(val).to(...)): the checked quantity is the given value"""
    if isinstance(e, ast.Name):
        return e.id == val
    # other names may only appear as the receiver-side metadata of the conversion (`.to(self.__getattr__(name))`, dtype / device)
    names = {x.id for x in ast.walk(e) if isinstance(x, ast.Name)} - {"torch", "self"}
    if val not in names:
        return False
    inside_to = {y.id for c in ast.walk(e) if isinstance(c, ast.Call) and isinstance(c.func, ast.Attribute) and c.func.attr in ("to", "type_as") for a in list(c.args) + [k.value for k in c.keywords] for y in ast.walk(a) if isinstance(y, ast.Name)}
    # ... or of the dtype= / device= keywords of the conversion itself (torch.as_tensor(val, dtype=param.dtype, device=param.device))
    inside_to |= {y.id for c in ast.walk(e) if isinstance(c, ast.Call) for k in c.keywords if k.arg in ("dtype", "device") for y in ast.walk(k.value) if isinstance(y, ast.Name)}
    if names - {val} - inside_to:
        return False
    # val must be the (first) argument of a conversion, not e.g. an index or an exponent
    for c in ast.walk(e):
        if isinstance(c, ast.Call) and (chain(c.func) or "").split(".")[-1] in ("as_tensor", "tensor", "full_like", "new_tensor") and c.args and isinstance(c.args[0], ast.Name) and c.args[0].id == val:
            return True
    return False


# ---- C17-8 ---------------------------------------------------------------------------------------------------------
def composite_prior_terms(idx: ProgramIndex, rep: Report):
    """A prior over a structured value that is the product of independent parts returns the SUM of the parts' log densities, each reduced over
    its own event: LKJCovariancePrior = LKJ density of the correlation matrix (one number per matrix) + the density of the n standard
    deviations under sd_prior - with an element-wise sd_prior that is a vector of n terms, which has to be summed before it meets the
    per-matrix term (otherwise log_prob has a spurious dimension and every consumer that sums it counts the LKJ term n times)."""
    rep.rule("C17-8", "a prior that adds the log densities of independent parts reduces the element-wise part (the vector of standard deviations) over its event dimension before adding it to the per-matrix part")
    C = idx.find_class("LKJCovariancePrior")
    fi = idx.method(C, "log_prob", own=True)
    sd_terms = [a for a in ast.walk(fi.node) if isinstance(a, ast.Assign) and isinstance(a.value, ast.Call) and chain(a.value.func) == "%s.sd_prior.log_prob" % fi.params[0] and isinstance(a.targets[0], ast.Name)]
    if len(sd_terms) != 1:
        raise AnalysisError("C17-8: LKJCovariancePrior.log_prob no longer evaluates self.sd_prior.log_prob(...) into a local (anchor vanished)")
    nm = sd_terms[0].targets[0].id
    reduced = any(isinstance(c, ast.Call) and isinstance(c.func, ast.Attribute) and c.func.attr == "sum" and isinstance(c.func.value, ast.Name) and c.func.value.id == nm for c in ast.walk(fi.node))
    rep.add("C17-8", "%s:LKJCovariancePrior.log_prob[sd term]" % C.module.name, fi.where, reduced,
            "the vector of sd terms is summed (when it is one) before it is added to the correlation term" if reduced else
            "`%s = self.sd_prior.log_prob(marginal_sd)` is added to the per-matrix LKJ term as it is: with an element-wise sd_prior (the documented scalar prior) log_prob(Sigma) has shape (n,), entry i = lkj(corr) + p(sd_i), and the objective - which sums every entry - counts the LKJ density n times" % nm, {})
    rep.floor("C17-8", "composite priors", 1, 1)


# ---- C17-9 ---------------------------------------------------------------------------------------------------------
def setters_convert_numbers(idx: ProgramIndex, rep: Report):
    """The public setters accept python numbers: the value reaches `inverse_transform`, which for the default transforms is a torch function
    of a tensor.  Every setter that hands its argument to inverse_transform converts non-tensors first (torch.as_tensor(value).to(raw)) - the
    idiom of all but a few of them; the few raise TypeError for `kernel.var = 0.5`."""
    rep.rule("C17-9", "every setter that hands its argument to inverse_transform converts python numbers to tensors first (torch.is_tensor / torch.as_tensor)")
    n = 0
    for fi in sorted(idx.all_functions(), key=lambda f: (f.module.name, f.qualname)):
        if fi.cls is None or not fi.name.startswith("_set_") or len(fi.params) < 2:
            continue
        val = fi.params[1]
        inv = [c for c in calls_in(fi.node) if isinstance(c.func, ast.Attribute) and c.func.attr == "inverse_transform" and any(isinstance(x, ast.Name) and x.id == val for a in c.args for x in ast.walk(a))]
        if not inv:
            continue
        n += 1
        converts = any(isinstance(c, ast.Call) and (chain(c.func) or "") in ("torch.as_tensor", "torch.tensor", "torch.is_tensor") and any(isinstance(x, ast.Name) and x.id == val for a in c.args for x in ast.walk(a)) for c in ast.walk(fi.node)) \
            or any(isinstance(c, ast.Call) and isinstance(c.func, ast.Name) and c.func.id == "isinstance" and c.args and isinstance(c.args[0], ast.Name) and c.args[0].id == val for c in ast.walk(fi.node))
        rep.add("C17-9", "%s:%s" % (fi.module.name, fi.qualname), fi.where, converts,
                "non-tensors are converted before inverse_transform" if converts else
                "`%s` receives the argument as it is: a python number raises TypeError in the default inverse transforms (expm1 / log of a float) - all other setters convert with torch.as_tensor(value).to(raw parameter) first" % " ".join(src(inv[0]).split())[:70], {})
    rep.floor("C17-9", "setters that call inverse_transform", n, 25)


# ---- C17-10 --------------------------------------------------------------------------------------------------------
def inverse_follows_transform(idx: ProgramIndex, rep: Report):
    """`Positive(transform=torch.exp)` names a transform and leaves the inverse to the library.  The constructors declare a NON-None
    default for inv_transform (the inverse of the DEFAULT transform); a look-up of the inverse that belongs to the given transform which
    only runs under `inv_transform is None` is then dead for exactly these callers: exp is paired with inv_softplus, the setter writes
    inv_softplus(v) and the parameter reads back exp(inv_softplus(v)) != v.  The constructor must pair the inverse with the transform it
    was given on a path that does not require inv_transform to be None (or declare None as the default)."""
    rep.rule("C17-10", "a constraint built with a transform but no inverse does not keep the default inverse of another transform: the inverse is resolved from the given transform on a path that is live for the declared defaults")
    interval = idx.cls(CONSTRAINTS_MOD, "Interval")
    n = 0
    for cls in idx.subclasses(interval):
        if cls.module.name != CONSTRAINTS_MOD:
            continue
        init = cls.lookup("__init__")
        a = init.node.args
        names = [x.arg for x in a.args]
        defaults = dict(zip(names[len(names) - len(a.defaults):], a.defaults))
        if "transform" not in defaults or "inv_transform" not in defaults:
            continue
        n += 1
        d = defaults["inv_transform"]
        none_default = isinstance(d, ast.Constant) and d.value is None
        base_init = interval.methods["__init__"]
        # assignments of self._inv_transform in the base constructor and the tests around them
        live = False
        for node in ast.walk(base_init.node):
            if not (isinstance(node, ast.Assign) and any(isinstance(t, ast.Attribute) and t.attr == "_inv_transform" for t in node.targets)):
                continue
            uses_transform = any(isinstance(x, ast.Name) and x.id == "transform" for x in ast.walk(node.value)) or \
                any(isinstance(x, ast.Name) and x.id in _derived_from(base_init, "transform") for x in ast.walk(node.value))
            tests = _guards_of(base_init.node, node)
            # ... or the store is guarded by a comparison of the given transform with a registered one
            if not uses_transform and any(any(isinstance(x, ast.Name) and x.id == "transform" for x in ast.walk(t)) and isinstance(t, ast.Compare) for t, pos in tests):
                uses_transform = True
            if not uses_transform:
                continue
            needs_none = any(_requires_none(t, pos, "inv_transform") for t, pos in tests)
            if not needs_none:
                live = True
        ok = none_default or live
        rep.add("C17-10", "%s:%s.__init__[inverse of a given transform]" % (cls.module.name, cls.qualname), init.where, ok,
                ("inv_transform defaults to None: the inverse is looked up from the transform" if none_default else "the inverse is paired with the given transform on a path that does not need inv_transform to be None") if ok else
                "inv_transform defaults to `%s` and the constructor resolves the inverse from `transform` only under `inv_transform is None`: %s(transform=torch.exp) keeps %s - transform(inverse_transform(0.9)) = 1.46, and the setter of the constrained parameter stores a value that reads back differently" % (src(d), cls.name, src(d)), {})
    rep.floor("C17-10", "constraint constructors with transform / inv_transform defaults", n, 4)


def _derived_from(fi: FuncInfo, name: str) -> set:
    out = set()
    changed = True
    while changed:
        changed = False
        for a in ast.walk(fi.node):
            if isinstance(a, ast.Assign) and len(a.targets) == 1 and isinstance(a.targets[0], ast.Name) and a.targets[0].id not in out:
                if any(isinstance(x, ast.Name) and (x.id == name or x.id in out) for x in ast.walk(a.value)):
                    out.add(a.targets[0].id)
                    changed = True
    return out


def _guards_of(fn: ast.AST, target: ast.AST):
    """[(test, True/False)] for every if / elif around `target` inside fn (False: target sits in the else branch)"""
    out = []

    def walk(node, acc):
        for child in ast.iter_child_nodes(node):
            if isinstance(child, ast.If):
                for b in child.body:
                    if b is target or any(x is target for x in ast.walk(b)):
                        walk_into(b, acc + [(child.test, True)])
                for b in child.orelse:
                    if b is target or any(x is target for x in ast.walk(b)):
                        walk_into(b, acc + [(child.test, False)])
            else:
                if child is target:
                    out.extend(acc)
                else:
                    walk(child, acc)

    def walk_into(node, acc):
        if node is target:
            out.extend(acc)
        else:
            walk(node, acc) if not isinstance(node, ast.If) else walk(ast.Module(body=[node], type_ignores=[]), acc)
    walk(fn, [])
    return out


def _requires_none(test: ast.AST, positive: bool, name: str) -> bool:
    """does being in this branch imply `name is None`?"""
    if isinstance(test, ast.BoolOp) and isinstance(test.op, ast.And) and positive:
        return any(_requires_none(v, True, name) for v in test.values)
    if isinstance(test, ast.BoolOp) and isinstance(test.op, ast.Or) and not positive:
        return any(_requires_none(v, False, name) for v in test.values)
    if isinstance(test, ast.UnaryOp) and isinstance(test.op, ast.Not):
        return _requires_none(test.operand, not positive, name)
    if isinstance(test, ast.Compare) and len(test.ops) == 1 and isinstance(test.left, ast.Name) and test.left.id == name and isinstance(test.comparators[0], ast.Constant) and test.comparators[0].value is None:
        if isinstance(test.ops[0], ast.Is):
            return positive
        if isinstance(test.ops[0], ast.IsNot):
            return not positive
    return False


# ---- C17-11 --------------------------------------------------------------------------------------------------------
def expand_keeps_transform(idx: ProgramIndex, rep: Report):
    """A prior built with transform=t evaluates log p(t(x)).  expand(batch_shape) may only change the batch shape: the priors implement
    it by re-building themselves from their (expanded) parameters, and a re-build that does not pass the transform on scores another
    density (NormalPrior(0, 1, transform=torch.log).expand([2]) differs by 1.7 - 4 nats at x = [0.5, 2.0]).  Module._pyro_sample_from_prior
    expands every registered prior, so pyro scores a different density than the marginal log likelihood."""
    rep.rule("C17-11", "expand of a prior whose constructor takes a transform re-builds it with that transform (and as the same prior class): only the batch shape changes")
    P = idx.cls("gpytorch.priors.prior", "Prior")
    n = 0
    for cls in sorted(idx.subclasses(P), key=lambda c: (c.module.name, c.qualname)):
        ex = cls.methods.get("expand")
        init = cls.lookup("__init__")
        if ex is None or init is None or cls is P:
            continue
        takes_transform = "transform" in [a.arg for a in init.node.args.args + init.node.args.kwonlyargs]
        if not takes_transform:
            continue
        n += 1
        rets = [r.value for r in ast.walk(ex.node) if isinstance(r, ast.Return) and r.value is not None]
        probs = []
        for r in rets:
            if not isinstance(r, ast.Call):
                probs.append("returns `%s`" % src(r)[:40])
                continue
            built = (chain(r.func) or "").split(".")[-1]
            same_class = built in (cls.name, "__class__") or chain(r.func) in ("type(self)",)
            if not same_class:
                probs.append("returns a `%s`, not a %s: the result is no longer a gpytorch prior (no transform, no buffers)" % (built, cls.name))
                continue
            kw = {k.arg: k.value for k in r.keywords}
            passes = "transform" in kw and isinstance(kw["transform"], ast.Attribute) and kw["transform"].attr in ("_transform", "transform")
            if not passes:
                probs.append("re-builds %s without transform=self._transform: the expanded prior scores log p(x) instead of log p(t(x))" % cls.name)
        rep.add("C17-11", "%s:%s.expand" % (cls.module.name, cls.qualname), ex.where, not probs and bool(rets), "re-built with its transform" if not probs else "; ".join(sorted(set(probs))), {})
    rep.floor("C17-11", "priors with a transform and an expand", n, 6)
