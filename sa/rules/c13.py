"""C13 - Gauss-Hermite quadrature and the one-dimensional likelihoods: the *structural* clauses only.

The accuracy statements of C13 (exactness for polynomials, truncation error, the 2e-3 bound of log_normal_cdf) are numerical analysis and are
NOT decided.  What is visible in the shape of the code - and necessary for any of them - is decided:

C13-1  GaussHermiteQuadrature1D.forward is the Gauss-Hermite rule for N(m, v): nodes sqrt(2 v) t + m, weights w / sqrt(pi), reduction over
       the node axes only; nodes and weights come from numpy's hermgauss(num_locs) with num_locs defaulting to the setting
C13-2  _OneDimensionalLikelihood: expected_log_prob = Q[ f -> log p(y | f) ],  log_marginal = log Q[ f -> exp(log p(y | f)) ]
C13-3  BernoulliLikelihood: conditional Bernoulli(Phi(f)); analytic marginal Bernoulli(Phi(m / sqrt(1 + v)))
C13-4  the conditional distributions have the documented parameters (Laplace(f, sqrt(noise)), StudentT(df, f, sqrt(noise)),
       Beta(sigmoid(f) s + 1, s - sigmoid(f) s + 1))
(DESIGN.md section 9.15.)
"""
from __future__ import annotations

import ast
import math
from typing import Dict, List, Optional, Tuple

from fractions import Fraction

from ..domains.monomial import Mono, evaluate
from ..index import AnalysisError, ProgramIndex, calls_in, chain, src
from ..report import Report
from ..symbolic import inline, walk_paths


def _norm(e: ast.AST) -> str:
    return " ".join(src(e).split())


def _is_sqrt_of(e: ast.AST, inner_test) -> bool:
    """torch.sqrt(X) / X.sqrt() / X ** 0.5 / X.pow(0.5) with inner_test(X)"""
    if isinstance(e, ast.Call) and chain(e.func) in ("torch.sqrt", "math.sqrt") and len(e.args) == 1:
        return inner_test(e.args[0])
    if isinstance(e, ast.Call) and isinstance(e.func, ast.Attribute) and e.func.attr == "sqrt" and not e.args:
        return inner_test(e.func.value)
    if isinstance(e, ast.BinOp) and isinstance(e.op, ast.Pow) and isinstance(e.right, ast.Constant) and e.right.value == 0.5:
        return inner_test(e.left)
    if isinstance(e, ast.Call) and isinstance(e.func, ast.Attribute) and e.func.attr == "pow" and len(e.args) == 1 and isinstance(e.args[0], ast.Constant) and e.args[0].value == 0.5:
        return inner_test(e.func.value)
    return False


def _product_factors(e: ast.AST) -> List[ast.AST]:
    if isinstance(e, ast.BinOp) and isinstance(e.op, ast.Mult):
        return _product_factors(e.left) + _product_factors(e.right)
    if isinstance(e, ast.Call) and isinstance(e.func, ast.Attribute) and e.func.attr == "mul" and len(e.args) == 1:
        return _product_factors(e.func.value) + _product_factors(e.args[0])
    return [e]


def _sum_terms(e: ast.AST) -> List[ast.AST]:
    if isinstance(e, ast.BinOp) and isinstance(e.op, ast.Add):
        return _sum_terms(e.left) + _sum_terms(e.right)
    if isinstance(e, ast.Call) and isinstance(e.func, ast.Attribute) and e.func.attr == "add" and len(e.args) == 1:
        return _sum_terms(e.func.value) + _sum_terms(e.args[0])
    if isinstance(e, ast.Call) and chain(e.func) == "torch.add" and len(e.args) == 2:
        return _sum_terms(e.args[0]) + _sum_terms(e.args[1])
    return [e]


def _strip_pad(e: ast.AST) -> ast.AST:
    """_pad_with_singletons(X, ...) / X.view(...) / X.unsqueeze(..): shape-only wrappers"""
    while True:
        if isinstance(e, ast.Call) and (chain(e.func) or "").split(".")[-1] == "_pad_with_singletons" and e.args:
            e = e.args[0]
        elif isinstance(e, ast.Call) and isinstance(e.func, ast.Attribute) and e.func.attr in ("view", "unsqueeze", "reshape", "to", "type_as", "expand", "expand_as"):
            e = e.func.value
        else:
            return e


def _is_node_axes(axes: Optional[ast.AST], sn: str) -> bool:
    """tuple(range(self.locations.dim())) / list(range(self.locations.ndim)) / range(...)"""
    e = axes
    if e is None:
        return False
    if isinstance(e, ast.Call) and isinstance(e.func, ast.Name) and e.func.id in ("tuple", "list") and len(e.args) == 1:
        e = e.args[0]
    if not (isinstance(e, ast.Call) and isinstance(e.func, ast.Name) and e.func.id == "range" and len(e.args) == 1):
        return False
    return _norm(e.args[0]) in ("%s.locations.dim()" % sn, "%s.locations.ndim" % sn, "%s.locations.ndimension()" % sn, "len(%s.locations.shape)" % sn)


def _returned(fi) -> List[ast.AST]:
    """every returned expression, path by path, with the locals inlined"""
    out, seen = [], set()
    for path, seq in walk_paths(fi):
        for st, env in seq:
            if isinstance(st, ast.Return) and st.value is not None:
                r = inline(st.value, env)
                k = ast.dump(r)
                if k not in seen:
                    seen.add(k)
                    out.append(r)
    return out


def run(idx: ProgramIndex, rep: Report, tier: str):
    rep.explanation = (
        "Only the structural clauses of C13. The quadrature module's forward is inlined path by path and matched, as sums of products, "
        "against the Gauss-Hermite change of variables for N(m, v) (nodes sqrt(2 v) t + m, weights w / sqrt(pi), reduction over the node "
        "axes); the one-dimensional likelihood base class must integrate log p(y|f) for expected_log_prob and exp(log p(y|f)) - followed "
        "by a log - for log_marginal; the Bernoulli likelihood must use the standard normal CDF of f and the probit identity "
        "Phi(m / sqrt(1 + v)); the conditional distributions must be built with the documented parameters. Exactness for polynomials, "
        "truncation error and the accuracy of log_normal_cdf are numerical and not decided.")
    rep.rule("C13-1", "GaussHermiteQuadrature1D is the Gauss-Hermite rule for N(m, v): nodes sqrt(2 v) t + m, weights w / sqrt(pi), sum over the node axes; nodes/weights from hermgauss(num_locs), num_locs defaulting to the setting")
    rep.rule("C13-6", "the float64 table of hermgauss reaches every precision the module is moved to without passing through a narrower one (stored in float64, or re-derived by _apply)")
    rep.rule("C13-7", "the node axis of the quadrature is placed by one rank: the singleton axes behind the nodes and behind the weights are counted on the same value")
    rep.rule("C13-8", "the likelihood and quadrature methods leave their arguments intact: no in-place update reaches the function distribution, the observations or the function samples (storage/version domain)")
    rep.rule("C13-2", "expected_log_prob integrates log p(y|f); log_marginal is the log of the integral of exp(log p(y|f)), both with the module's quadrature over the given function distribution")
    rep.rule("C13-3", "Bernoulli: conditional Bernoulli(Phi(f)) and analytic marginal Bernoulli(Phi(m / sqrt(1 + v))), Phi the standard normal CDF")
    rep.rule("C13-5", "LogNormalCDF: the masked cases of forward and of backward partition the real line, each case computes its values from the elements selected by its own mask, and per-case intermediates saved on ctx are used for the same case")
    rep.rule("C13-4", "the conditional distributions of the Laplace, Student-t and Beta likelihoods are built with the documented parameters")
    quadrature(idx, rep)
    one_dimensional(idx, rep)
    bernoulli(idx, rep)
    conditionals(idx, rep)
    log_normal_cdf(idx, rep)
    inputs_intact(idx, rep)
    legacy_layout_guard(idx, rep)


# ---- C13-1 ---------------------------------------------------------------------------------------------------------
def quadrature(idx: ProgramIndex, rep: Report):
    Q = idx.find_class("GaussHermiteQuadrature1D")
    fwd = idx.method(Q, "forward", own=True)
    func_p, dist_p = fwd.params[1], fwd.params[2]
    inst = "%s:GaussHermiteQuadrature1D.forward" % Q.module.name
    probs: List[str] = []
    nret = 0
    sn = fwd.params[0]
    want_sum = Mono.atom("pi", Fraction(-1, 2)) * Mono.atom("F") * Mono.atom("w")
    want_nodes = {Mono.atom("m"), Mono.atom("#2", Fraction(1, 2)) * Mono.atom("v", Fraction(1, 2)) * Mono.atom("t")}
    for r in _returned(fwd):
        nret += 1
        # r = <summand>.sum(<node axes>)
        if isinstance(r, ast.Call) and chain(r.func) == "torch.sum" and r.args:
            summand, rest = r.args[0], list(r.args[1:])
        elif isinstance(r, ast.Call) and isinstance(r.func, ast.Attribute) and r.func.attr == "sum":
            summand, rest = r.func.value, list(r.args)
        else:
            probs.append("the result is not a sum over the node axes (`%s`)" % _norm(r)[:60])
            continue
        axes = rest[0] if rest else next((k.value for k in r.keywords if k.arg in ("dim", "axis")), None)
        if not _is_node_axes(axes, sn):
            probs.append("the reduction axes `%s` are not the leading node axes of self.locations" % (_norm(axes) if axes is not None else "all"))
        fcalls: List[ast.Call] = []

        def leaf(e):
            if isinstance(e, ast.Call) and isinstance(e.func, ast.Name) and e.func.id == func_p:
                fcalls.append(e)
                return Mono.atom("F")
            if chain(e) == "%s.weights" % sn:
                return Mono.atom("w")
            return None
        m = evaluate(summand, leaf)
        if m is None:
            probs.append("the summand `%s` is not a product the evaluator understands" % _norm(summand)[:80])
            continue
        if m != want_sum:
            probs.append("the summand is %s, expected %s (F = func(nodes), w = self.weights)" % (m.show(), want_sum.show()))
        if len(fcalls) != 1 or len(fcalls[0].args) != 1:
            continue

        def nleaf(e):
            n_ = _norm(e)
            if n_ in ("%s.mean" % dist_p, "%s.loc" % dist_p):
                return Mono.atom("m")
            if n_ == "%s.variance" % dist_p:
                return Mono.atom("v")
            if n_ in ("%s.stddev" % dist_p, "%s.scale" % dist_p):
                return Mono.atom("v", Fraction(1, 2))
            if chain(e) == "%s.locations" % sn:
                return Mono.atom("t")
            return None
        terms = [evaluate(t, nleaf) for t in _sum_terms(fcalls[0].args[0])]
        if None in terms or len(terms) != 2 or set(terms) != want_nodes:
            probs.append("the nodes handed to func are %s, expected m + 2^(1/2) v^(1/2) t (m, v = mean, variance of the distribution, t = self.locations)" % (
                " + ".join(t.show() if t is not None else "?" for t in terms)))
    rep.add("C13-1", inst, fwd.where, nret > 0 and not probs, "sum over the node axes of (1 / sqrt(pi)) * func(sqrt(2 v) t + m) * w on %d returning path(s)" % nret if nret > 0 and not probs else "; ".join(sorted(set(probs))) or "no returning path", {})
    # nodes and weights
    lw = idx.method(Q, "_locs_and_weights", own=True)
    herm = [c for c in calls_in(lw.node) if (chain(c.func) or "").endswith("hermite.hermgauss") or (chain(c.func) or "").endswith("hermgauss")]
    p = lw.params[1] if len(lw.params) > 1 else None
    ok = len(herm) == 1 and len(herm[0].args) == 1 and isinstance(herm[0].args[0], ast.Name) and herm[0].args[0].id == p
    tgt = None
    for a in ast.walk(lw.node):
        if isinstance(a, ast.Assign) and a.value in herm and isinstance(a.targets[0], ast.Tuple) and len(a.targets[0].elts) == 2:
            tgt = [x.id for x in a.targets[0].elts if isinstance(x, ast.Name)]
    rets = [x.value for x in ast.walk(lw.node) if isinstance(x, ast.Return) and x.value is not None]
    order_ok = bool(tgt) and len(tgt) == 2 and all(isinstance(r, ast.Tuple) and len(r.elts) == 2 and [getattr(e, "id", None) for e in r.elts] == tgt for r in rets)
    rep.add("C13-1", "%s:GaussHermiteQuadrature1D._locs_and_weights" % Q.module.name, lw.where, ok and order_ok,
            "nodes and weights are numpy's hermgauss(num_locs), returned in that order" if ok and order_ok else
            ("the nodes / weights are not hermgauss(%s)" % p if not ok else "the pair returned is not (nodes, weights) in the order hermgauss gives them"), {})
    init = idx.method(Q, "__init__", own=True)
    np_ = init.params[1] if len(init.params) > 1 else None
    dflt = any(isinstance(a, ast.Assign) and any(isinstance(t, ast.Name) and t.id == np_ for t in a.targets) and "num_gauss_hermite_locs" in _norm(a.value) for a in ast.walk(init.node))
    uses = any(isinstance(c.func, ast.Attribute) and c.func.attr == "_locs_and_weights" and c.args and isinstance(c.args[0], ast.Name) and c.args[0].id == np_ for c in calls_in(init.node))
    stores = {t.attr: _norm(a.value) for a in ast.walk(init.node) if isinstance(a, ast.Assign) for t in a.targets if isinstance(t, ast.Attribute) and chain(t.value) == init.params[0] and t.attr in ("locations", "weights")}
    unpack = [None, None]
    for a in ast.walk(init.node):
        if isinstance(a, ast.Assign) and isinstance(a.value, ast.Call) and isinstance(a.value.func, ast.Attribute) and a.value.func.attr == "_locs_and_weights" \
                and isinstance(a.targets[0], ast.Tuple) and len(a.targets[0].elts) == 2 and all(isinstance(x, ast.Name) for x in a.targets[0].elts):
            unpack = [x.id for x in a.targets[0].elts]
    ok2 = dflt and uses and unpack[0] is not None and stores.get("locations") == unpack[0] and stores.get("weights") == unpack[1]
    rep.add("C13-1", "%s:GaussHermiteQuadrature1D.__init__" % Q.module.name, init.where, ok2,
            "num_locs defaults to settings.num_gauss_hermite_locs; the rule's nodes and weights are stored as locations / weights" if ok2 else
            ("the setting num_gauss_hermite_locs is read in a default argument of the constructor, i.e. once at import time: quadratures built later under settings.num_gauss_hermite_locs(n) keep the import-time node count"
             if any("num_gauss_hermite_locs" in _norm(d) for d in list(init.node.args.defaults) + [k for k in init.node.args.kw_defaults if k is not None]) else
             "the constructor does not take num_locs from settings.num_gauss_hermite_locs by default, or does not store the nodes as `locations` and the weights as `weights`"), {"stores": stores})
    # device / dtype moves keep each buffer in its own slot
    ap = idx.method(Q, "_apply", own=True)
    sn_, fnp = ap.params[0], ap.params[1]
    SLOT = {"locations": 0, "weights": 1}

    def is_table(e, slot) -> bool:
        """component `slot` of hermgauss(self.num_locs) / self._locs_and_weights(self.num_locs)"""
        if isinstance(e, ast.Subscript) and isinstance(e.slice, ast.Constant) and e.slice.value == SLOT[slot] and isinstance(e.value, ast.Call):
            fn_ = chain(e.value.func) or ""
            return (fn_.endswith("hermgauss") or fn_ == "%s._locs_and_weights" % sn_) and len(e.value.args) == 1 and _norm(e.value.args[0]) == "%s.num_locs" % sn_
        return False

    def moved(e, slot) -> Optional[str]:
        """'moved' = fn(self.<slot>); 'rederived' = <exact table component>.to(fn(self.<slot>))"""
        if isinstance(e, ast.Call) and isinstance(e.func, ast.Name) and e.func.id == fnp and len(e.args) == 1 and chain(e.args[0]) == "%s.%s" % (sn_, slot):
            return "moved"
        if isinstance(e, ast.Call) and isinstance(e.func, ast.Attribute) and e.func.attr == "to" and len(e.args) == 1 and moved(e.args[0], slot) == "moved":
            src_ = e.func.value
            if isinstance(src_, ast.Call) and (chain(src_.func) or "") in ("torch.from_numpy", "torch.as_tensor", "torch.tensor") and len(src_.args) == 1 and is_table(src_.args[0], slot):
                return "rederived"
            if is_table(src_, slot):
                return "rederived"
        return None
    kinds = {"locations": set(), "weights": set()}
    bad_moves = []
    for path, seq in walk_paths(ap):
        env = {}
        stored = {}
        for st, e_ in seq:
            if isinstance(st, ast.Assign) and isinstance(st.targets[0], ast.Attribute) and chain(st.targets[0].value) == sn_ and st.targets[0].attr in SLOT:
                stored[st.targets[0].attr] = inline(st.value, e_)
        for slot in SLOT:
            if slot not in stored:
                bad_moves.append("%s is not re-stored on a path" % slot)
                continue
            k = moved(stored[slot], slot)
            if k is None:
                bad_moves.append("self.%s = `%s`" % (slot, _norm(stored[slot])[:70]))
            else:
                kinds[slot].add(k)
    ok3 = not bad_moves
    rederives = all("rederived" in kinds[s_] for s_ in SLOT)
    rep.add("C13-1", "%s:GaussHermiteQuadrature1D._apply" % Q.module.name, ap.where, ok3,
            "on every path locations / weights become fn(themselves)%s, each in its own slot" % (" or the exact table component moved to where fn puts them" if rederives else "") if ok3 else
            "a device / dtype move does not map locations to locations and weights to weights: %s" % "; ".join(sorted(set(bad_moves)))[:200], {})
    # C13-6: precision of the stored table
    narrowing = []
    for c in calls_in(lw.node):
        fn_ = chain(c.func) or ""
        if fn_ in ("torch.Tensor", "torch.FloatTensor", "torch.HalfTensor") or (isinstance(c.func, ast.Attribute) and c.func.attr in ("float", "half", "bfloat16") and not c.args):
            narrowing.append(c)
    ok6 = not narrowing or rederives
    rep.add("C13-6", "%s:GaussHermiteQuadrature1D[precision of the nodes]" % Q.module.name, lw.where, ok6,
            ("the float64 table of hermgauss is stored as it is" if not narrowing else
             "the table is rounded to the default dtype at construction (`%s`), and _apply re-derives it from the float64 table when the dtype changes" % _norm(narrowing[0])[:40]) if ok6 else
            "`%s` rounds numpy's float64 nodes / weights to the default dtype (float32) and _apply only maps the rounded values: a quadrature moved to float64 with .double() integrates with float32 accuracy (relative error 1e-8 .. 5e-7 for polynomials it should integrate exactly)" % _norm(narrowing[0])[:40], {})
    # C13-7: where the node axis sits
    pads = {}
    for a in ast.walk(fwd.node):
        if isinstance(a, ast.Assign) and isinstance(a.value, ast.Call) and (chain(a.value.func) or "").split(".")[-1] == "_pad_with_singletons" and a.value.args:
            which = chain(a.value.args[0]) or ""
            after = next((k.value for k in a.value.keywords if k.arg == "num_singletons_after"), a.value.args[2] if len(a.value.args) > 2 else None)
            if which.startswith(sn + ".") and after is not None:
                pads[which.split(".")[-1]] = after
    if set(pads) != {"locations", "weights"}:
        raise AnalysisError("C13-7: GaussHermiteQuadrature1D.forward no longer pads self.locations and self.weights with _pad_with_singletons")
    roots = {}
    for k_, e_ in pads.items():
        names = {x.id for x in ast.walk(e_) if isinstance(x, ast.Name)}
        # which value's rank decides the number of singleton axes: the distribution (means) or the integrand's result
        src_names = set()
        for nm in names:
            for a in ast.walk(fwd.node):
                if isinstance(a, ast.Assign) and any(isinstance(t, ast.Name) and t.id == nm for t in a.targets):
                    src_names.add("integrand" if isinstance(a.value, ast.Call) and isinstance(a.value.func, ast.Name) and a.value.func.id == func_p else ("distribution" if dist_p in {x.id for x in ast.walk(a.value) if isinstance(x, ast.Name)} else nm))
        roots[k_] = src_names or names
    ok7 = roots["locations"] == roots["weights"]
    rep.add("C13-7", "%s:GaussHermiteQuadrature1D.forward[node axis]" % Q.module.name, fwd.where, ok7,
            "nodes and weights are padded by the rank of the same value" if ok7 else
            "the node axis is placed in front of the rank of the %s (`%s` singleton axes) but the weights are aligned to the rank of the %s (`%s`): whenever the integrand closes over observations or likelihood parameters with more batch dimensions than q(f) the two disagree - the node axis then meets a batch axis (error, or - batch size = number of nodes - a silently wrong result of the wrong shape)"
            % ("/".join(sorted(roots["locations"])), _norm(pads["locations"]), "/".join(sorted(roots["weights"])), _norm(pads["weights"])), {})
    rep.floor("C13-1", "quadrature obligations", 4, 4)


# ---- C13-2 ---------------------------------------------------------------------------------------------------------
def _lambda_of(fi, name: str) -> Optional[ast.Lambda]:
    for a in ast.walk(fi.node):
        if isinstance(a, ast.Assign) and any(isinstance(t, ast.Name) and t.id == name for t in a.targets) and isinstance(a.value, ast.Lambda):
            return a.value
    return None


def one_dimensional(idx: ProgramIndex, rep: Report):
    L = idx.find_class("_OneDimensionalLikelihood")
    n = 0
    for mname, want_exp, want_log in (("expected_log_prob", False, False), ("log_marginal", True, True)):
        fi = idx.method(L, mname, own=True)
        sn, obs, dist = fi.params[0], fi.params[1], fi.params[2]
        n += 1
        probs = []
        qcalls = [c for c in calls_in(fi.node) if chain(c.func) == "%s.quadrature" % sn]
        if len(qcalls) != 1 or len(qcalls[0].args) != 2:
            rep.add("C13-2", "%s:_OneDimensionalLikelihood.%s" % (L.module.name, mname), fi.where, False, "expected exactly one call self.quadrature(<integrand>, <distribution>)", {})
            continue
        integrand, d = qcalls[0].args
        if not (isinstance(d, ast.Name) and d.id == dist):
            probs.append("the quadrature is taken over `%s`, not over the given function distribution" % _norm(d))
        lam = integrand if isinstance(integrand, ast.Lambda) else (_lambda_of(fi, integrand.id) if isinstance(integrand, ast.Name) else None)
        if lam is None:
            probs.append("the integrand is not a lambda of the function samples")
        else:
            fp = lam.args.args[0].arg if lam.args.args else None
            body = lam.body
            has_exp = False
            if isinstance(body, ast.Call) and isinstance(body.func, ast.Attribute) and body.func.attr == "exp" and not body.args:
                has_exp, body = True, body.func.value
            # self.forward(f, ...).log_prob(observations)
            ok_body = isinstance(body, ast.Call) and isinstance(body.func, ast.Attribute) and body.func.attr == "log_prob" and len(body.args) == 1 and _norm(body.args[0]) == obs \
                and isinstance(body.func.value, ast.Call) and chain(body.func.value.func) == "%s.forward" % sn and body.func.value.args and isinstance(body.func.value.args[0], ast.Name) and body.func.value.args[0].id == fp
            if not ok_body:
                probs.append("the integrand is `%s`, expected self.forward(f).log_prob(observations)%s" % (_norm(lam.body)[:70], ".exp()" if want_exp else ""))
            if has_exp != want_exp:
                probs.append("the integrand %s exponentiated" % ("must be" if want_exp else "must not be"))
        # the returned value: the quadrature result, with .log() for the marginal
        rets = [x.value for x in ast.walk(fi.node) if isinstance(x, ast.Return) and x.value is not None]
        res_names = {t.id for a in ast.walk(fi.node) if isinstance(a, ast.Assign) and a.value in qcalls for t in a.targets if isinstance(t, ast.Name)}
        for r in rets:
            e, logged = r, False
            if isinstance(e, ast.Call) and isinstance(e.func, ast.Attribute) and e.func.attr == "log" and not e.args:
                e, logged = e.func.value, True
            elif isinstance(e, ast.Call) and chain(e.func) == "torch.log" and len(e.args) == 1:
                e, logged = e.args[0], True
            if not ((isinstance(e, ast.Name) and e.id in res_names) or e in qcalls):
                probs.append("the method returns `%s`, not the quadrature result" % _norm(r)[:50])
            elif logged != want_log:
                probs.append("the quadrature result %s passed through log" % ("must be" if want_log else "must not be"))
        rep.add("C13-2", "%s:_OneDimensionalLikelihood.%s" % (L.module.name, mname), fi.where, not probs,
                ("log Q[exp(log p(y|f))]" if want_log else "Q[log p(y|f)]") + " over the function distribution" if not probs else "; ".join(sorted(set(probs))), {})
    q_init = any(isinstance(a, ast.Assign) and any(isinstance(t, ast.Attribute) and t.attr == "quadrature" for t in a.targets) and isinstance(a.value, ast.Call) and (chain(a.value.func) or "").split(".")[-1] == "GaussHermiteQuadrature1D"
                 for a in ast.walk(idx.method(L, "__init__", own=True).node))
    n += 1
    rep.add("C13-2", "%s:_OneDimensionalLikelihood.__init__" % L.module.name, L.where, q_init, "self.quadrature is a GaussHermiteQuadrature1D" if q_init else "self.quadrature is not a GaussHermiteQuadrature1D", {})
    # sibling agreement: both integrands evaluate the conditional with the same extra arguments of the call
    fwd_calls = {}
    for mname in ("expected_log_prob", "log_marginal"):
        fi = idx.method(L, mname, own=True)
        for c in calls_in(fi.node):
            if chain(c.func) == "%s.forward" % fi.params[0]:
                fwd_calls[mname] = (fi, c)
    if len(fwd_calls) == 2:
        n += 1

        def extras(fi, c):
            va = fi.node.args.vararg.arg if fi.node.args.vararg else None
            kw = fi.node.args.kwarg.arg if fi.node.args.kwarg else None
            return (any(isinstance(a, ast.Starred) and isinstance(a.value, ast.Name) and a.value.id == va for a in c.args) if va else True,
                    any(k.arg is None and isinstance(k.value, ast.Name) and k.value.id == kw for k in c.keywords) if kw else True)
        e1, e2 = extras(*fwd_calls["expected_log_prob"]), extras(*fwd_calls["log_marginal"])
        ok = e1 == e2 == (True, True)
        rep.add("C13-2", "%s:_OneDimensionalLikelihood[extra arguments reach forward]" % L.module.name, fwd_calls["log_marginal"][0].where, ok,
                "expected_log_prob and log_marginal both evaluate self.forward(f, *args, **kwargs)" if ok else
                "expected_log_prob forwards (*args, **kwargs) = %s to self.forward, log_marginal %s: a likelihood whose conditional takes an argument of the call (scale=...) is integrated with its default in the one and with the given value in the other" % (e1, e2), {})
    # torch's Distribution.log_prob takes the value only
    LK = idx.find_class("_Likelihood")
    for cls in sorted([LK] + list(idx.subclasses(LK)), key=lambda c: c.qualname):
        for name, m in sorted(cls.methods.items()):
            for c in calls_in(m.node):
                if isinstance(c.func, ast.Attribute) and c.func.attr == "log_prob":
                    extra = len(c.args) > 1 or any(isinstance(a, ast.Starred) for a in c.args) or bool(c.keywords)
                    key = "%s:%s.%s[log_prob with extra arguments]" % (cls.module.name, cls.qualname, name)
                    if extra and not any(o.rule == "C13-2" and o.instance == key for o in rep.obligations):
                        n += 1
                        rep.add("C13-2", key, "%s:%d" % (m.module.relpath, c.lineno), False,
                                "`%s`: Distribution.log_prob takes the value only; the likelihood's extra arguments belong to forward - this call raises TypeError as soon as one is given" % " ".join(src(c).split())[:70], {})
    rep.floor("C13-2", "one-dimensional likelihood obligations", n, 4)


# ---- C13-3 ---------------------------------------------------------------------------------------------------------
def _std_normal_cdf_arg(e: ast.AST) -> Optional[ast.AST]:
    """Normal(0, 1).cdf(X) -> X"""
    if isinstance(e, ast.Call) and isinstance(e.func, ast.Attribute) and e.func.attr == "cdf" and len(e.args) == 1:
        d = e.func.value
        if isinstance(d, ast.Call) and (chain(d.func) or "").split(".")[-1] == "Normal":
            vals = [a.value if isinstance(a, ast.Constant) else None for a in d.args] + [k.value.value if isinstance(k.value, ast.Constant) else None for k in d.keywords]
            if [float(v) if v is not None else None for v in vals] == [0.0, 1.0]:
                return e.args[0]
    return None


def bernoulli(idx: ProgramIndex, rep: Report):
    B = idx.find_class("BernoulliLikelihood")
    n = 0
    for mname in ("forward", "marginal"):
        fi = idx.method(B, mname, own=True)
        arg = fi.params[1]
        n += 1
        probs = []
        k = 0
        for r in _returned(fi):
            k += 1
            if not (isinstance(r, ast.Call) and (chain(r.func) or "").split(".")[-1] == "Bernoulli"):
                probs.append("the result is not a Bernoulli distribution")
                continue
            pr = next((kw.value for kw in r.keywords if kw.arg == "probs"), r.args[0] if r.args else None)
            if any(kw.arg == "logits" for kw in r.keywords):
                probs.append("the Bernoulli is parameterised by logits")
                continue
            x = _std_normal_cdf_arg(pr) if pr is not None else None
            if x is None:
                probs.append("the success probability is `%s`, not the standard normal CDF of the link" % (_norm(pr)[:50] if pr is not None else "?"))
                continue
            if mname == "forward":
                if not (isinstance(x, ast.Name) and x.id == arg):
                    probs.append("the conditional uses Phi(%s), expected Phi(f)" % _norm(x)[:40])
            else:
                # m / sqrt(1 + v)
                from ..domains.symshape import Poly
                want_atom = "(" + (Poly.const(1) + Poly.sym("v")).show() + ")"

                def mleaf(e):
                    n_ = _norm(e)
                    if n_ in ("%s.mean" % arg, "%s.loc" % arg):
                        return Mono.atom("m")
                    ts = _sum_terms(e)
                    if len(ts) > 1:
                        pl = Poly.const(0)
                        for t in ts:
                            if isinstance(t, ast.Constant) and isinstance(t.value, (int, float)) and float(t.value).is_integer():
                                pl = pl + Poly.const(int(t.value))
                            elif _norm(t) == "%s.variance" % arg:
                                pl = pl + Poly.sym("v")
                            else:
                                return None
                        return Mono.atom("(" + pl.show() + ")")
                    return None
                mm = evaluate(x, mleaf)
                want = Mono.atom("m") * Mono.atom(want_atom, Fraction(-1, 2))
                if mm is None or mm != want:
                    probs.append("the marginal link is `%s`%s, expected mean / sqrt(1 + variance) (probit identity)" % (_norm(x)[:60], "" if mm is None else " = " + mm.show()))
        if k == 0:
            probs.append("no returning path")
        rep.add("C13-3", "%s:BernoulliLikelihood.%s" % (B.module.name, mname), fi.where, not probs,
                ("Bernoulli(Phi(f))" if mname == "forward" else "Bernoulli(Phi(m / sqrt(1 + v)))") if not probs else "; ".join(sorted(set(probs))), {})
    # the overrides: log_marginal through the analytic marginal, expected_log_prob = Q[log Phi(f (2y - 1))]
    lm = idx.method(B, "log_marginal", own=True)
    sn, obs, dist = lm.params[0], lm.params[1], lm.params[2]
    n += 1
    rs = _returned(lm)
    ok = bool(rs) and all(isinstance(r, ast.Call) and isinstance(r.func, ast.Attribute) and r.func.attr == "log_prob" and len(r.args) == 1 and _norm(r.args[0]) == obs
                          and isinstance(r.func.value, ast.Call) and chain(r.func.value.func) == "%s.marginal" % sn and r.func.value.args and _norm(r.func.value.args[0]) == dist for r in rs)
    rep.add("C13-3", "%s:BernoulliLikelihood.log_marginal" % B.module.name, lm.where, ok, "self.marginal(function_dist).log_prob(observations)" if ok else "log_marginal is not the log-probability of the observations under the analytic marginal of the given distribution", {})
    el = idx.method(B, "expected_log_prob", own=True)
    sn, obs, dist = el.params[0], el.params[1], el.params[2]
    n += 1
    probs = []
    qcalls = [c for c in calls_in(el.node) if chain(c.func) == "%s.quadrature" % sn]
    if len(qcalls) != 1 or len(qcalls[0].args) != 2 or _norm(qcalls[0].args[1]) != dist:
        probs.append("expected one call self.quadrature(<integrand>, function_dist)")
    else:
        integ = qcalls[0].args[0]
        lam = integ if isinstance(integ, ast.Lambda) else (_lambda_of(el, integ.id) if isinstance(integ, ast.Name) else None)
        if lam is None or not lam.args.args:
            probs.append("the integrand is not a lambda of the function samples")
        else:
            fp = lam.args.args[0].arg
            b = lam.body
            if not (isinstance(b, ast.Call) and (chain(b.func) or "").split(".")[-1] == "log_normal_cdf" and len(b.args) == 1):
                probs.append("the integrand is `%s`, expected log_normal_cdf(f * y)" % _norm(b)[:60])
            else:
                fs = sorted(_norm(x) for x in _product_factors(b.args[0]))
                if fs != sorted([fp, obs]):
                    probs.append("the integrand is log Phi(%s), expected log Phi(f * y) with y in {-1, +1}" % _norm(b.args[0])[:40])
        # labels {0, 1} are mapped to {-1, +1} by 2 y - 1 before the integrand is built
        maps = [a for a in ast.walk(el.node) if isinstance(a, ast.Assign) and any(isinstance(t, ast.Name) and t.id == obs for t in a.targets)]
        from ..domains.symshape import Poly
        Y = Poly.sym("y")

        def ev(e):
            if isinstance(e, ast.Name) and e.id == obs:
                return Y
            if isinstance(e, ast.Constant) and isinstance(e.value, (int, float)) and float(e.value).is_integer():
                return Poly.const(int(e.value))
            if isinstance(e, ast.BinOp) and isinstance(e.op, (ast.Add, ast.Sub, ast.Mult)):
                a_, b_ = ev(e.left), ev(e.right)
                if a_ is None or b_ is None:
                    return None
                return a_ + b_ if isinstance(e.op, ast.Add) else (a_ - b_ if isinstance(e.op, ast.Sub) else a_ * b_)
            if isinstance(e, ast.Call) and isinstance(e.func, ast.Attribute) and e.func.attr in ("mul", "sub", "add") and len(e.args) == 1:
                a_, b_ = ev(e.func.value), ev(e.args[0])
                if a_ is None or b_ is None:
                    return None
                return a_ * b_ if e.func.attr == "mul" else (a_ - b_ if e.func.attr == "sub" else a_ + b_)
            return None
        if len(maps) != 1:
            probs.append("expected exactly one re-coding of the labels")
        else:
            v = ev(maps[0].value)
            if v != Y.scale(2) - Poly.const(1):
                probs.append("the labels are re-coded as `%s`, expected 2 y - 1" % _norm(maps[0].value)[:40])
        rs = [x.value for x in ast.walk(el.node) if isinstance(x, ast.Return) and x.value is not None]
        res_names = {t.id for a in ast.walk(el.node) if isinstance(a, ast.Assign) and a.value in qcalls for t in a.targets if isinstance(t, ast.Name)}
        if not rs or not all((isinstance(r, ast.Name) and r.id in res_names) or r in qcalls for r in rs):
            probs.append("the method does not return the quadrature result")
    rep.add("C13-3", "%s:BernoulliLikelihood.expected_log_prob" % B.module.name, el.where, not probs, "Q[log Phi(f (2 y - 1))] over the function distribution" if not probs else "; ".join(sorted(set(probs))), {})
    rep.floor("C13-3", "Bernoulli obligations", n, 4)


# ---- C13-4 ---------------------------------------------------------------------------------------------------------
def conditionals(idx: ProgramIndex, rep: Report):
    n = 0

    returned = _returned

    def kwargs_of(call, names):
        d = {k.arg: k.value for k in call.keywords}
        for i, a in enumerate(call.args):
            if i < len(names):
                d.setdefault(names[i], a)
        return d

    for cname, dist, names, want in (
        ("LaplaceLikelihood", "Laplace", ["loc", "scale"], {"loc": "F", "scale": "sqrt(self.noise)"}),
        ("StudentTLikelihood", "StudentT", ["df", "loc", "scale"], {"df": "self.deg_free", "loc": "F", "scale": "sqrt(self.noise)"}),
    ):
        C = idx.find_class(cname)
        fi = idx.method(C, "forward", own=True)
        f = fi.params[1]
        n += 1
        probs = []
        rs = returned(fi)
        for r in rs:
            if not (isinstance(r, ast.Call) and (chain(r.func) or "").split(".")[-1] == dist):
                probs.append("the conditional is not a %s distribution" % dist)
                continue
            kw = kwargs_of(r, names)
            for k_, w in want.items():
                v = kw.get(k_)
                if v is None:
                    probs.append("%s is not given" % k_)
                elif w == "F":
                    if not (isinstance(v, ast.Name) and v.id == f):
                        probs.append("%s is `%s`, expected the function samples" % (k_, _norm(v)[:40]))
                elif w.startswith("sqrt("):
                    inner = w[5:-1]
                    mv = evaluate(v, lambda x: Mono.atom("a") if _norm(x) == inner else None)
                    if mv is None or mv != Mono.atom("a", Fraction(1, 2)):
                        probs.append("%s is `%s`, expected %s" % (k_, _norm(v)[:40], w))
                elif _norm(v) != w:
                    probs.append("%s is `%s`, expected %s" % (k_, _norm(v)[:40], w))
        if not rs:
            probs.append("no returning path")
        rep.add("C13-4", "%s:%s.forward" % (C.module.name, cname), fi.where, not probs, "%s(%s)" % (dist, ", ".join("%s=%s" % kv for kv in want.items())) if not probs else "; ".join(sorted(set(probs))), {})
    # Beta: alpha = sigmoid(f) * s + 1, beta = s - alpha + 2  (= (1 - sigmoid(f)) * s + 1)
    C = idx.find_class("BetaLikelihood")
    fi = idx.method(C, "forward", own=True)
    f = fi.params[1]
    n += 1
    probs = []
    from ..domains.symshape import Poly
    S, M = Poly.sym("s"), Poly.sym("m")

    def ev(e):
        if isinstance(e, ast.Constant) and isinstance(e.value, (int, float)):
            return Poly.const(int(e.value)) if float(e.value).is_integer() else None
        if _norm(e) == "self.scale":
            return S
        if isinstance(e, ast.Call) and chain(e.func) in ("torch.sigmoid",) and len(e.args) == 1 and isinstance(e.args[0], ast.Name) and e.args[0].id == f:
            return M
        if isinstance(e, ast.Call) and isinstance(e.func, ast.Attribute) and e.func.attr == "sigmoid" and isinstance(e.func.value, ast.Name) and e.func.value.id == f:
            return M
        if isinstance(e, ast.BinOp) and isinstance(e.op, (ast.Add, ast.Sub, ast.Mult)):
            a, b = ev(e.left), ev(e.right)
            if a is None or b is None:
                return None
            return a + b if isinstance(e.op, ast.Add) else (a - b if isinstance(e.op, ast.Sub) else a * b)
        return None
    doc = _documented_beta(C)
    if doc is None:
        raise AnalysisError("C13-4: the docstring of BetaLikelihood no longer states p(y | f) = Beta(<a>, <b>) in a form the reader understands")
    want_a, want_b = doc
    rs = returned(fi)
    got = {"concentration1": set(), "concentration0": set()}
    for r in rs:
        if not (isinstance(r, ast.Call) and (chain(r.func) or "").split(".")[-1] == "Beta"):
            probs.append("the conditional is not a Beta distribution")
            continue
        kw = kwargs_of(r, ["concentration1", "concentration0"])
        for nm in ("concentration1", "concentration0"):
            v = ev(kw[nm]) if kw.get(nm) is not None else None
            if v is None:
                probs.append("%s is not a polynomial in sigmoid(f) and the scale that the evaluator understands" % nm)
            else:
                got[nm].add(v)
    if not rs:
        probs.append("no returning path")
    if probs:
        rep.add("C13-4", "%s:BetaLikelihood.forward" % C.module.name, fi.where, False, "; ".join(sorted(set(probs))), {})
        n += 1
    else:
        for nm, want in (("concentration1", want_a), ("concentration0", want_b)):
            bad = sorted((g for g in got[nm] if g != want), key=lambda g: g.show())
            n += 1
            # a wrong value is part of the key: another wrong value is another finding
            inst = "%s:BetaLikelihood.forward[%s%s]" % (C.module.name, nm, "".join(" = " + g.show() for g in bad))
            rep.add("C13-4", inst, fi.where, not bad,
                    "%s = %s (m = sigmoid(f), s = scale), as the class documentation states" % (nm, want.show()) if not bad else
                    "%s is %s, the class documentation states %s (m = sigmoid(f), s = scale): the conditional mean is not sigmoid(f)" % (nm, ", ".join(g.show() for g in bad), want.show()), {})
    rep.floor("C13-4", "conditional distributions", n, 3)  # Laplace, Student-t, Beta (one or two obligations)


# ---- C13-5 ---------------------------------------------------------------------------------------------------------
class _Masks:
    """Boolean masks over one real variable z, built from comparisons of z (or z ** 2, |z|) with constants and ~ | &.
    Such predicates are constant on the cells cut out by their thresholds, so evaluating them on one point per cell (and on every
    threshold) decides equivalence, disjointness and exhaustiveness exactly."""

    def __init__(self, fn: ast.AST, zname: str):
        self.z = zname
        self.assigned: Dict[str, List[ast.AST]] = {}
        for a in ast.walk(fn):
            if isinstance(a, ast.Assign):
                for t in a.targets:
                    if isinstance(t, ast.Name):
                        self.assigned.setdefault(t.id, []).append(a.value)
        self.thresholds: set = set()

    @staticmethod
    def _num(e: ast.AST) -> Optional[float]:
        if isinstance(e, ast.Constant) and isinstance(e.value, (int, float)) and not isinstance(e.value, bool):
            return float(e.value)
        if isinstance(e, ast.UnaryOp) and isinstance(e.op, ast.USub):
            v = _Masks._num(e.operand)
            return None if v is None else -v
        return None

    def _arg(self, e: ast.AST):
        """z -> 'id', z.pow(2) / z ** 2 / z * z -> 'sq', z.abs() -> 'abs'"""
        if isinstance(e, ast.Name) and e.id == self.z:
            return "id"
        if isinstance(e, ast.Call) and isinstance(e.func, ast.Attribute) and isinstance(e.func.value, ast.Name) and e.func.value.id == self.z:
            if e.func.attr in ("pow",) and len(e.args) == 1 and self._num(e.args[0]) == 2.0:
                return "sq"
            if e.func.attr in ("square",) and not e.args:
                return "sq"
            if e.func.attr == "abs" and not e.args:
                return "abs"
        if isinstance(e, ast.BinOp) and isinstance(e.op, ast.Pow) and isinstance(e.left, ast.Name) and e.left.id == self.z and self._num(e.right) == 2.0:
            return "sq"
        if isinstance(e, ast.Call) and chain(e.func) == "torch.abs" and len(e.args) == 1 and isinstance(e.args[0], ast.Name) and e.args[0].id == self.z:
            return "abs"
        return None

    def parse(self, e: ast.AST, depth=0):
        """-> predicate float -> bool, or None"""
        if depth > 10:
            return None
        if isinstance(e, ast.Name):
            vs = self.assigned.get(e.id, [])
            return self.parse(vs[0], depth + 1) if len(vs) == 1 else None
        if isinstance(e, ast.UnaryOp) and isinstance(e.op, ast.Invert):
            p = self.parse(e.operand, depth + 1)
            return None if p is None else (lambda x, p=p: not p(x))
        if isinstance(e, ast.BinOp) and isinstance(e.op, (ast.BitOr, ast.BitAnd)):
            a, b = self.parse(e.left, depth + 1), self.parse(e.right, depth + 1)
            if a is None or b is None:
                return None
            return (lambda x, a=a, b=b: a(x) or b(x)) if isinstance(e.op, ast.BitOr) else (lambda x, a=a, b=b: a(x) and b(x))
        op = arg = c = None
        if isinstance(e, ast.Call) and isinstance(e.func, ast.Attribute) and e.func.attr in ("lt", "le", "gt", "ge") and len(e.args) == 1:
            op, arg, c = e.func.attr, self._arg(e.func.value), self._num(e.args[0])
        elif isinstance(e, ast.Compare) and len(e.ops) == 1 and isinstance(e.ops[0], (ast.Lt, ast.LtE, ast.Gt, ast.GtE)):
            op = {ast.Lt: "lt", ast.LtE: "le", ast.Gt: "gt", ast.GtE: "ge"}[type(e.ops[0])]
            arg, c = self._arg(e.left), self._num(e.comparators[0])
        if op is None or arg is None or c is None:
            return None
        if arg == "sq":
            if c < 0:
                return None
            self.thresholds.update((-math.sqrt(c), math.sqrt(c)))
            f = lambda x: x * x
        elif arg == "abs":
            self.thresholds.update((-c, c))
            f = abs
        else:
            self.thresholds.add(c)
            f = lambda x: x
        import operator
        o = {"lt": operator.lt, "le": operator.le, "gt": operator.gt, "ge": operator.ge}[op]
        return lambda x, f=f, o=o, c=c: o(f(x), c)

    def points(self) -> List[float]:
        t = sorted(self.thresholds)
        if not t:
            return [0.0]
        pts = [t[0] - 1.0] + t + [(a + b) / 2 for a, b in zip(t, t[1:])] + [t[-1] + 1.0]
        return sorted(set(pts))


def _mask_deps(fn: ast.AST, zname: str, extra_tensors=()) -> Dict[str, List[ast.AST]]:
    """local name -> the masks its value was selected with (flow-insensitive, transitive)"""
    direct: Dict[str, List[ast.AST]] = {}
    uses: Dict[str, set] = {}
    tensors = {zname} | set(extra_tensors)

    def sel_masks(e: ast.AST) -> List[ast.AST]:
        out = []
        for x in ast.walk(e):
            if isinstance(x, ast.Call) and isinstance(x.func, ast.Attribute) and x.func.attr == "masked_select" and len(x.args) == 1 and isinstance(x.func.value, ast.Name) and x.func.value.id in tensors:
                out.append(x.args[0])
            if isinstance(x, ast.Subscript) and isinstance(x.value, ast.Name) and x.value.id in tensors and isinstance(x.ctx, ast.Load):
                out.append(x.slice)
        return out
    for a in ast.walk(fn):
        if isinstance(a, (ast.Assign, ast.AugAssign)):
            tg = a.targets if isinstance(a, ast.Assign) else [a.target]
            for t in tg:
                if isinstance(t, ast.Name):
                    direct.setdefault(t.id, []).extend(sel_masks(a.value))
                    uses.setdefault(t.id, set()).update(x.id for x in ast.walk(a.value) if isinstance(x, ast.Name))
        if isinstance(a, ast.For) and isinstance(a.target, ast.Name):
            uses.setdefault(a.target.id, set()).update(x.id for x in ast.walk(a.iter) if isinstance(x, ast.Name))
    changed = True
    while changed:
        changed = False
        for n, us in uses.items():
            for u in us:
                for m in direct.get(u, []):
                    if all(ast.dump(m) != ast.dump(k) for k in direct.setdefault(n, [])):
                        direct[n].append(m)
                        changed = True
    direct["__sel__"] = sel_masks  # type: ignore
    return direct


def log_normal_cdf(idx: ProgramIndex, rep: Report):
    L = idx.find_class("LogNormalCDF")
    fwd, bwd = idx.method(L, "forward", own=True), idx.method(L, "backward", own=True)
    n = 0
    ctx_masks: Dict[str, ast.AST] = {}
    fwd_masks: Optional[_Masks] = None
    for fi, kind in ((fwd, "forward"), (bwd, "backward")):
        ctxn = fi.params[0]
        if kind == "forward":
            zname = fi.params[1]
            saved = []
        else:
            # z is the first saved tensor
            zname, saved = None, []
            for a in ast.walk(fi.node):
                if isinstance(a, ast.Assign) and _norm(a.value) == "%s.saved_tensors" % ctxn and isinstance(a.targets[0], ast.Tuple):
                    names = [x.id for x in a.targets[0].elts if isinstance(x, ast.Name)]
                    zname, saved = names[0], names[1:]
            if zname is None:
                raise AnalysisError("C13-5: LogNormalCDF.backward does not unpack ctx.saved_tensors")
        M = _Masks(fi.node, zname)
        deps = _mask_deps(fi.node, zname, saved)
        sel = deps.pop("__sel__")
        # the buffer: what the function returns (through elementwise scaling by grad_output)
        rets = [x.value for x in ast.walk(fi.node) if isinstance(x, ast.Return) and x.value is not None]
        bufs = set()
        for r in rets:
            e = r
            while isinstance(e, ast.Call) and isinstance(e.func, ast.Attribute) and e.func.attr in ("mul", "mul_"):
                e = e.func.value
            if isinstance(e, ast.Name):
                bufs.add(e.id)
        writes: List[Tuple[ast.AST, ast.AST, ast.AST, Optional[ast.AST]]] = []   # (mask, value, node, guard)

        def visit(stmts, guard):
            for st in stmts:
                if isinstance(st, ast.If):
                    g = None
                    t = st.test
                    if isinstance(t, ast.Compare) and isinstance(t.left, ast.Call) and isinstance(t.left.func, ast.Attribute) and t.left.func.attr in ("sum", "any") and isinstance(t.ops[0], ast.Gt):
                        g = t.left.func.value
                    elif isinstance(t, ast.Call) and isinstance(t.func, ast.Attribute) and t.func.attr == "any":
                        g = t.func.value
                    visit(st.body, g if g is not None else guard)
                    visit(st.orelse, guard)
                    continue
                if isinstance(st, ast.Expr) and isinstance(st.value, ast.Call) and isinstance(st.value.func, ast.Attribute) and st.value.func.attr in ("masked_scatter_", "masked_fill_") \
                        and isinstance(st.value.func.value, ast.Name) and st.value.func.value.id in bufs and len(st.value.args) == 2:
                    writes.append((st.value.args[0], st.value.args[1], st, guard))
                if isinstance(st, ast.Assign) and isinstance(st.targets[0], ast.Subscript) and isinstance(st.targets[0].value, ast.Name) and st.targets[0].value.id in bufs:
                    writes.append((st.targets[0].slice, st.value, st, guard))
                if kind == "forward" and isinstance(st, ast.Assign):
                    for t in st.targets:
                        if isinstance(t, ast.Attribute) and isinstance(t.value, ast.Name) and t.value.id == ctxn and guard is not None:
                            ctx_masks[t.attr] = guard
                for f_ in ("body", "orelse", "finalbody"):
                    if not isinstance(st, ast.If) and isinstance(getattr(st, f_, None), list):
                        visit(getattr(st, f_), guard)
        visit(body_of(fi.node), None)
        probs: List[str] = []
        preds = []
        for m, v, st, g in writes:
            p = M.parse(m)
            if p is None:
                probs.append("line %d: the mask `%s` is not a comparison of %s with constants" % (st.lineno, _norm(m)[:40], zname))
            preds.append(p)
        if len(bufs) != 1 or not writes:
            probs.append("no masked writes into the returned buffer found")
        if not probs:
            pts = M.points()
            for x in pts:
                k = sum(1 for p in preds if p(x))
                if k != 1:
                    probs.append("%s = %g is written by %d of the %d cases (the cases must partition the real line)" % (zname, x, k, len(preds)))
                    break
            for (m, v, st, g), p in zip(writes, preds):
                if g is not None:
                    pg = M.parse(g)
                    if pg is None or any(pg(x) != p(x) for x in M.points()):
                        probs.append("line %d: the case `%s` is skipped under a test of a different mask `%s`" % (st.lineno, _norm(m)[:30], _norm(g)[:30]))
                used = list(sel(v))
                for nm in (x.id for x in ast.walk(v) if isinstance(x, ast.Name)):
                    used.extend(deps.get(nm, []))
                for um in used:
                    pu = M.parse(um)
                    if pu is None or any(pu(x) != p(x) for x in M.points()):
                        probs.append("line %d: the values written under `%s` were selected with a different mask `%s`" % (st.lineno, _norm(m)[:30], _norm(um)[:30]))
                # saved per-case intermediates (ctx.<attr>) must have been computed under the same case
                if kind == "backward" and fwd_masks is not None:
                    for x in ast.walk(v):
                        if isinstance(x, ast.Attribute) and isinstance(x.value, ast.Name) and x.value.id == ctxn and x.attr in ctx_masks:
                            pf = fwd_masks.parse(ctx_masks[x.attr])
                            allp = sorted(set(M.points()) | set(fwd_masks.points()))
                            if pf is None or any(pf(y) != p(y) for y in allp):
                                probs.append("line %d: ctx.%s was computed in forward for the case `%s` but is used for the case `%s`" % (st.lineno, x.attr, _norm(ctx_masks[x.attr])[:30], _norm(m)[:30]))
        n += 1
        rep.add("C13-5", "%s:LogNormalCDF.%s" % (L.module.name, kind), fi.where, not probs,
                "%d masked cases partition the real line (decided on %d cells / thresholds); each case's values are selected with its own mask" % (len(writes), len(M.points())) if not probs else "; ".join(sorted(set(probs))),
                {"cases": [_norm(m) for m, _, _, _ in writes]})
        if kind == "forward":
            fwd_masks = M
    # the public wrapper
    w = idx.function("gpytorch.functions", "log_normal_cdf")
    ok = any(isinstance(r, ast.Return) and isinstance(r.value, ast.Call) and chain(r.value.func) == "LogNormalCDF.apply" and len(r.value.args) == 1 and isinstance(r.value.args[0], ast.Name) and r.value.args[0].id == w.params[0]
             for r in ast.walk(w.node))
    n += 1
    rep.add("C13-5", "gpytorch.functions:log_normal_cdf", w.where, ok, "returns LogNormalCDF.apply(x)" if ok else "does not return LogNormalCDF.apply(x)", {})
    rep.floor("C13-5", "log_normal_cdf obligations", n, 3)


def body_of(fn):
    from ..index import body_without_docstring
    return body_without_docstring(fn)


def _documented_beta(C):
    """the two arguments of `\\text{Beta} \\left( A , B \\right)` in the class docstring as polynomials in m = \\sigma(f) and s"""
    import re
    from ..domains.symshape import Poly
    doc = ast.get_docstring(C.node, clean=False) or ""
    m = re.search(r"\\text\{Beta\}\s*\\left\s*\((.*?)\\right\s*\)", doc, re.S)
    if not m:
        return None
    body = m.group(1).replace("\\left", "").replace("\\right", "")
    # split at the top-level comma
    depth, parts, cur = 0, [], ""
    for ch in body:
        if ch == "(":
            depth += 1
        elif ch == ")":
            depth -= 1
        if ch == "," and depth == 0:
            parts.append(cur)
            cur = ""
        else:
            cur += ch
    parts.append(cur)
    if len(parts) != 2:
        return None

    def parse(txt: str):
        txt = txt.replace("\\sigma(f)", " M ").replace("\\cdot", " ")
        toks = re.findall(r"\d+|[A-Za-z]|[()+\-]", txt)
        pos = [0]

        def atom():
            if pos[0] >= len(toks):
                return None
            t = toks[pos[0]]
            if t == "(":
                pos[0] += 1
                v = expr()
                if pos[0] >= len(toks) or toks[pos[0]] != ")":
                    return None
                pos[0] += 1
                return v
            if t.isdigit():
                pos[0] += 1
                return Poly.const(int(t))
            if t == "M":
                pos[0] += 1
                return Poly.sym("m")
            if t == "s":
                pos[0] += 1
                return Poly.sym("s")
            return None

        def term():
            v = atom()
            if v is None:
                return None
            while pos[0] < len(toks) and toks[pos[0]] not in ("+", "-", ")"):
                w = atom()
                if w is None:
                    return None
                v = v * w
            return v

        def expr():
            v = term()
            if v is None:
                return None
            while pos[0] < len(toks) and toks[pos[0]] in ("+", "-"):
                op = toks[pos[0]]
                pos[0] += 1
                w = term()
                if w is None:
                    return None
                v = v + w if op == "+" else v - w
            return v
        v = expr()
        return v if v is not None and pos[0] == len(toks) else None
    a, b = parse(parts[0]), parse(parts[1])
    return (a, b) if a is not None and b is not None else None


# ---- C13-8 ---------------------------------------------------------------------------------------------------------
def inputs_intact(idx: ProgramIndex, rep: Report):
    """q(f) handed to a likelihood is used again by the caller (a second marginal, the ELBO's other terms): mean / variance of a lazily
    represented covariance are views of its storage, so an in-place update inside marginal / expected_log_prob changes the distribution
    for every later use."""
    from .common_alias import aliasing_obligations
    funcs = []
    for cn in ("_OneDimensionalLikelihood", "BernoulliLikelihood", "LaplaceLikelihood", "StudentTLikelihood", "BetaLikelihood", "GaussHermiteQuadrature1D"):
        c = idx.find_class(cn)
        for mn in ("forward", "marginal", "log_marginal", "expected_log_prob"):
            if mn in c.methods:
                funcs.append(c.methods[mn])
    aliasing_obligations(idx, rep, "C13-8", funcs, 10, "likelihood / quadrature methods", arg_attrs_alias=True)


# ---- C13-9 ---------------------------------------------------------------------------------------------------------
def legacy_layout_guard(idx: ProgramIndex, rep: Report):
    """SoftmaxLikelihood documents its input as num_data x num_features and still accepts the deprecated transposed layout, which it
    recognises from the sizes.  Re-interpreting (transposing) the input is sound only when the DOCUMENTED layout cannot be meant: the
    test has to look at the trailing size as well.  `num_data == self.num_features` alone also holds for a correctly laid out input with
    as many points as features, which is then transposed silently: class probabilities off by 0.28 for n = num_features = 4."""
    from .c10 import _tests_around
    rep.rule("C13-9", "the likelihood re-interprets the layout of its input (legacy transposed samples) only under a test that excludes the documented layout: the trailing size is compared too, not only the leading one")
    S = idx.find_class("SoftmaxLikelihood")
    fw = S.methods.get("forward")
    if fw is None:
        raise AnalysisError("C13-9: SoftmaxLikelihood.forward not found (anchor)")
    arg = fw.params[1]
    # names bound to the leading / trailing event sizes of the argument
    lead, trail = set(), set()
    for a in ast.walk(fw.node):
        if isinstance(a, ast.Assign) and len(a.targets) == 1 and isinstance(a.targets[0], ast.Tuple) and len(a.targets[0].elts) == 2 and "shape[-2:]" in src(a.value) and arg in src(a.value):
            lead.add(a.targets[0].elts[0].id)
            trail.add(a.targets[0].elts[1].id)
    n = 0
    for a in ast.walk(fw.node):
        if not (isinstance(a, ast.Assign) and isinstance(a.value, ast.Call) and isinstance(a.value.func, ast.Attribute) and a.value.func.attr in ("transpose", "mT", "permute")
                and isinstance(a.value.func.value, ast.Name) and a.value.func.value.id == arg):
            continue
        n += 1
        tests = _tests_around(fw.node, a)
        names = {x.id for t, pos in tests if pos for x in ast.walk(t) if isinstance(x, ast.Name)}
        texts = " and ".join(src(t) for t, pos in tests if pos)
        sees_trailing = bool(names & trail) or any("shape[-1]" in src(t) or "size(-1)" in src(t) for t, pos in tests if pos)
        rep.add("C13-9", "%s:SoftmaxLikelihood.forward[legacy layout]" % S.module.name, "%s:%d" % (fw.module.relpath, a.lineno), sees_trailing,
                "the transposition is decided with the trailing size as well" if sees_trailing else
                "the input is transposed whenever `%s`: a correctly laid out num_data x num_features input with num_data == num_features is re-interpreted as the deprecated layout (n = num_features = 4: class probabilities off by 0.28, expected_log_prob by 1.7 nats per point; n = 3, 5 are exact)" % texts, {})
    if n == 0:
        rep.add("C13-9", "%s:SoftmaxLikelihood.forward[legacy layout]" % S.module.name, fw.where, True, "no layout re-interpretation left", {}, trivial=True)
