"""C02 - exact marginal log likelihood and LOO objective: assembly of the objective (structural clause).

The returned scalar, evaluated in an affine-form domain on every path (loops taken once), must be
    ( +1*log_prob(target) of the likelihood marginal  +1*sum(added loss)  +1*sum(prior.log_prob(closure(module))) ) / num_data
with num_data derived from the event shape of the (possibly masked) marginal; LOO reuses the same other terms and divides by the
number of observations; Sum-MLL = sum of member MLLs / len(mlls) with member i <-> (output i, target i).
Does not decide log_prob itself or gradients.  (DESIGN.md section 4, C02.)
"""
from __future__ import annotations

import ast
from fractions import Fraction
from typing import Callable, Dict, List, Optional, Tuple

from ..cfg import enumerate_paths, RETURN, FALL
from ..domains.affine import Affine, AffineEval, Scalar
from ..index import (AnalysisError, ClassInfo, FuncInfo, ProgramIndex, body_without_docstring, call_name, calls_in, chain,
                     const_str, is_super_call, norm, src, walk_no_nested)
from ..report import Report


def affine_paths(fi: FuncInfo, classify: Callable[[ast.AST, Dict[str, object]], Optional[tuple]], inline: Optional[Dict[str, Tuple[FuncInfo, Callable]]] = None,
                 pre_env: Optional[Dict[str, object]] = None) -> List[Tuple[List[Tuple[str, bool]], object, AffineEval]]:
    """Evaluate every returning path of fi; returns (path condition, returned value (Affine | tuple | None), evaluator)."""
    out = []
    for p in enumerate_paths(body_without_docstring(fi.node)):
        if p.outcome != RETURN:
            continue
        aliases: Dict[str, object] = {}
        ae = AffineEval(lambda e: classify(e, aliases))
        if pre_env:
            ae.env.update(pre_env)
        ret = None
        consts: Dict[str, bool] = {}
        feasible = True
        for s in p.steps:
            if s.kind == "loop":
                continue
            if s.kind == "assume":
                t, neg = s.node, False
                while isinstance(t, ast.UnaryOp) and isinstance(t.op, ast.Not):
                    t, neg = t.operand, not neg
                if isinstance(t, ast.Name) and t.id in consts and (consts[t.id] != neg) != s.truth:
                    feasible = False
                    break
                continue
            if s.kind != "stmt":
                continue
            st = s.node
            if isinstance(st, ast.Assign) and len(st.targets) == 1 and isinstance(st.targets[0], ast.Name):
                if isinstance(st.value, ast.Constant) and isinstance(st.value.value, bool):
                    consts[st.targets[0].id] = st.value.value
                else:
                    consts.pop(st.targets[0].id, None)
            if isinstance(st, ast.Assign) and len(st.targets) == 1:
                t, v = st.targets[0], st.value
                if isinstance(t, ast.Name):
                    # iteration variable of a for loop: remember what it iterates over
                    if isinstance(v, ast.Call) and isinstance(v.func, ast.Name) and v.func.id == "__iter_item__":
                        aliases[t.id] = ("iter", v.args[0])
                        continue
                    val = _eval_with_inline(ae, v, inline, aliases)
                    if val is None:
                        aliases[t.id] = ("expr", v)
                        ae.env.pop(t.id, None)
                    else:
                        ae.env[t.id] = val
                elif isinstance(t, ast.Tuple):
                    if isinstance(v, ast.Call) and isinstance(v.func, ast.Name) and v.func.id == "__iter_item__":
                        for e in t.elts:
                            if isinstance(e, ast.Name):
                                aliases[e.id] = ("iter", v.args[0])
                        continue
                    if isinstance(v, ast.Tuple) and len(v.elts) == len(t.elts):
                        for e, x in zip(t.elts, v.elts):
                            if isinstance(e, ast.Name):
                                val = ae.ev(x)
                                if val is None:
                                    aliases[e.id] = ("expr", x)
                                else:
                                    ae.env[e.id] = val
            elif isinstance(st, ast.AugAssign) and isinstance(st.target, ast.Name):
                ae.env[st.target.id] = ae.binop(st.op, ae.env.get(st.target.id), ae.ev(st.value), st)
            elif isinstance(st, ast.Expr) and isinstance(st.value, ast.Call) and isinstance(st.value.func, ast.Attribute) and st.value.func.attr in ("add_", "sub_", "mul_", "div_") and isinstance(st.value.func.value, ast.Name):
                nm = st.value.func.value.id
                ae.env[nm] = ae.ev(st.value)
            elif isinstance(st, ast.Return) and st.value is not None:
                if isinstance(st.value, ast.Tuple):
                    ret = tuple(_eval_with_inline(ae, e, inline, aliases) for e in st.value.elts)
                else:
                    ret = _eval_with_inline(ae, st.value, inline, aliases)
        if not feasible:
            continue
        out.append((p.condition() + [("loop:" + src(s.node), bool(s.truth)) for s in p.steps if s.kind == "loop"], ret, ae))
    return out


def _eval_with_inline(ae: AffineEval, e: ast.AST, inline, aliases):
    if inline and isinstance(e, ast.Call) and isinstance(e.func, ast.Attribute) and chain(e.func.value) == "self" and e.func.attr in inline:
        helper, binder = inline[e.func.attr]
        return binder(ae, e)
    return ae.ev(e)


# ------------------------------------------------------------------------------------------------------------------
def other_terms_classifier(params_name: str, res_name: str):
    def classify(e: ast.AST, aliases: Dict[str, object]):
        # added_loss_term.loss(*params) inside iteration over added_loss_terms()
        if isinstance(e, ast.Call) and isinstance(e.func, ast.Attribute) and e.func.attr == "loss" and isinstance(e.func.value, ast.Name):
            a = aliases.get(e.func.value.id)
            if a and a[0] == "iter" and "added_loss_terms()" in src(a[1]):
                return ("source", "ADDED")
            return ("source", "OTHER_LOSS(%s)" % src(e)[:30])
        # prior.log_prob(closure(module))
        if isinstance(e, ast.Call) and isinstance(e.func, ast.Attribute) and e.func.attr == "log_prob" and isinstance(e.func.value, ast.Name):
            a = aliases.get(e.func.value.id)
            if a and a[0] == "iter" and "named_priors()" in src(a[1]):
                arg = e.args[0] if e.args else None
                if isinstance(arg, ast.Call) and isinstance(arg.func, ast.Name) and aliases.get(arg.func.id, (None,))[0] == "iter" and len(arg.args) == 1 and isinstance(arg.args[0], ast.Name) and aliases.get(arg.args[0].id, (None,))[0] == "iter":
                    return ("source", "PRIOR")
                return ("source", "PRIOR_OF_WRONG_ARGUMENT(%s)" % (src(arg)[:30] if arg is not None else ""))
        if isinstance(e, ast.Name) and e.id in aliases and aliases[e.id][0] == "expr":
            return ("alias", aliases[e.id][1])
        return None
    return classify


def run(idx: ProgramIndex, rep: Report, tier: str):
    rep.explanation = (
        "The forward methods of ExactMarginalLogLikelihood, LeaveOneOutPseudoLikelihood and SumMarginalLogLikelihood (and the shared "
        "_add_other_terms) are evaluated path by path in an affine-form domain: term sources are identified by provenance "
        "(log_prob(target) on the likelihood's marginal; added_loss_term.loss(...) inside the iteration over added_loss_terms(); "
        "prior.log_prob(closure(module)) inside the iteration over named_priors()), coefficients are signed monomials over the "
        "symbols of the function. The returned form must be (+LOGPROB +ADDED +PRIOR)/num_data with the stated provenance of num_data; "
        "the prior must be evaluated on closure(module), i.e. the constrained value. log_prob itself and gradients are not decided.")
    rep.rule("C02-1", "ExactMarginalLogLikelihood.forward = (+1 log_prob +1 sum(added) +1 sum(prior(closure(module)))) / num_data of the marginal")
    rep.rule("C02-2", "LeaveOneOutPseudoLikelihood.forward reuses the same other terms and divides by the number of observations")
    rep.rule("C02-3", "SumMarginalLogLikelihood.forward = sum of member MLLs (member i with output i, target i) / len(mlls)")
    rep.rule("C02-4", "no in-place aliasing hazard in the objective code (storage/version domain): accumulators excepted")
    exact(idx, rep)
    loo(idx, rep)
    summll(idx, rep)
    aliasing(idx, rep)
    rep.rule("C02-5", "the enumerators feeding the objective are total: every registered prior / added-loss term is yielded, with (module, prior, closure) of the same registration at the positions the objective unpacks")
    from .common_enum import enumeration_obligations
    enumeration_obligations(idx, rep, "C02-5", [idx.find_class("ExactMarginalLogLikelihood").lookup("_add_other_terms")], floor=9)
    grad_state(idx, rep)
    enumerators_once(idx, rep)
    likelihood_arguments_forwarded(idx, rep)


def _other_terms(idx: ProgramIndex, cls: ClassInfo) -> Tuple[FuncInfo, List[str], Affine]:
    fi = cls.lookup("_add_other_terms")
    if fi is None:
        raise AnalysisError("anchor vanished: _add_other_terms")
    resn, pn = fi.params[1], fi.params[2]

    def classify(e, aliases):
        if isinstance(e, ast.Name) and e.id == resn and resn not in aliases:
            return None
        return other_terms_classifier(pn, resn)(e, aliases)

    probs = []
    forms = []
    for cond, ret, ae in affine_paths(fi, classify, pre_env={resn: Affine.source("RES")}):
        if not isinstance(ret, Affine):
            probs.append("a path of _add_other_terms returns a non-affine value")
            continue
        forms.append((cond, ret))
        if ae.unknown:
            probs.append(ae.unknown[0])
    # the path with both loops taken once
    full = [r for c, r in forms if all(t for _, t in c)]
    if not full:
        probs.append("no path takes both loops")
        return fi, probs, Affine.zero()
    return fi, probs, full[0]


def exact(idx: ProgramIndex, rep: Report):
    M = idx.find_class("ExactMarginalLogLikelihood")
    helper, hprobs, hform = _other_terms(idx, M)
    want_h = {("RES", ()): Fraction(1), ("ADDED", ()): Fraction(1), ("PRIOR", ()): Fraction(1)}
    ok = not hprobs and hform.terms == want_h
    rep.add("C02-1", "%s:ExactMarginalLogLikelihood._add_other_terms" % M.module.name, helper.where, ok,
            "res + sum(added loss) + sum(prior.log_prob(closure(module)))" if ok else "other terms assemble to `%s`%s, expected +RES +ADDED +PRIOR" % (hform.show(), "; " + "; ".join(hprobs) if hprobs else ""), {"form": hform.show()})
    fi = idx.method(M, "forward", own=True)
    dist, target = fi.params[1], fi.params[2]

    def classify(e, aliases):
        if isinstance(e, ast.Call) and isinstance(e.func, ast.Attribute) and e.func.attr == "log_prob" and isinstance(e.func.value, ast.Name):
            recv = e.func.value.id
            a = aliases.get(recv)
            arg_ok = e.args and isinstance(e.args[0], ast.Name) and e.args[0].id == target
            if a and a[0] == "expr" and "self.likelihood(" in src(a[1]) and arg_ok:
                return ("source", "LOGPROB")
            if a and a[0] == "expr" and "MultivariateNormal(" in src(a[1]) and arg_ok:
                return ("source", "LOGPROB")  # the masked marginal (C16-2 checks its construction)
            return ("source", "LOGPROB_OF_%s(%s)" % ("PRIOR_NOT_MARGINAL" if recv == dist else recv, src(e.args[0]) if e.args else ""))
        # num_data
        if isinstance(e, ast.Name) and e.id in aliases and aliases[e.id][0] == "expr":
            t = src(aliases[e.id][1])
            if t.endswith(".event_shape.numel()"):
                owner = t.split(".")[0]
                o = aliases.get(owner)
                if owner == dist or (o and o[0] == "expr" and ("self.likelihood(" in src(o[1]) or "MultivariateNormal(" in src(o[1]))):
                    return ("symbol", "n")
                return ("symbol", "numel_of_%s" % owner)
            return ("alias", aliases[e.id][1])
        if isinstance(e, ast.Call) and src(e).endswith(".event_shape.numel()"):
            return ("symbol", "n")
        return None

    def bind_other(ae: AffineEval, call: ast.Call):
        v = ae.ev(call.args[0]) if call.args else None
        if not isinstance(v, Affine):
            return None
        out = Affine.zero()
        for (s, m), c in hform.terms.items():
            if s == "RES":
                out = out + v.scale(c, m)
            else:
                out = out + Affine({(s, m): c})
        return out

    probs = []
    npaths = 0
    for cond, ret, ae in affine_paths(fi, classify, inline={"_add_other_terms": (helper, bind_other)}):
        npaths += 1
        want = {("LOGPROB", (("n", -1),)): Fraction(1), ("ADDED", (("n", -1),)): Fraction(1), ("PRIOR", (("n", -1),)): Fraction(1)}
        if not isinstance(ret, Affine) or ret.terms != want:
            probs.append("returns `%s`" % (ret.show() if isinstance(ret, Affine) else "non-affine value"))
        if ae.unknown:
            probs.append(ae.unknown[0])
    rep.add("C02-1", "%s:ExactMarginalLogLikelihood.forward" % M.module.name, fi.where, not probs and npaths >= 2,
            "(+LOGPROB +ADDED +PRIOR)/n on all %d returning paths (n = event size of the marginal)" % npaths if not probs else "; ".join(sorted(set(probs))) + "; expected +LOGPROB/n +ADDED/n +PRIOR/n", {"paths": npaths})
    # the marginal, not the prior: likelihood applied before log_prob
    applies = any(isinstance(c.func, ast.Attribute) and chain(c.func) == "self.likelihood" and c.args and isinstance(c.args[0], ast.Name) and c.args[0].id == dist for c in calls_in(fi.node))
    rep.add("C02-1", "%s:ExactMarginalLogLikelihood.forward[marginal]" % M.module.name, fi.where, applies, "the likelihood is applied to the function distribution before log_prob" if applies else "the log probability is not taken of the likelihood's marginal", {})


def loo(idx: ProgramIndex, rep: Report):
    L = idx.find_class("LeaveOneOutPseudoLikelihood")
    fi = idx.method(L, "forward", own=True)
    target = fi.params[2]
    reuse = L.lookup("_add_other_terms")
    M = idx.find_class("ExactMarginalLogLikelihood")
    ok_reuse = reuse is not None and reuse.cls == M
    helper, hprobs, hform = _other_terms(idx, L)

    def classify(e, aliases):
        if isinstance(e, ast.Call) and isinstance(e.func, ast.Attribute) and e.func.attr == "sum" and isinstance(e.func.value, ast.BinOp):
            return ("source", "LOO_TERMS")
        if isinstance(e, ast.Name) and e.id in aliases and aliases[e.id][0] == "expr":
            t = src(aliases[e.id][1])
            if t == "%s.size(-1)" % target or t == "%s.shape[-1]" % target:
                return ("symbol", "n")
            return ("alias", aliases[e.id][1])
        if isinstance(e, ast.BinOp) and isinstance(e.op, ast.Mult) and "math.log(2 * math.pi)" in src(e) and not any(isinstance(x, ast.Name) for x in ast.walk(e) if isinstance(x, ast.Name) and x.id != "math"):
            return ("source", "CONST")
        return None

    def bind_other(ae, call):
        v = ae.ev(call.args[0]) if call.args else None
        if not isinstance(v, Affine):
            return None
        out = Affine.zero()
        for (s, m), c in hform.terms.items():
            out = out + (v.scale(c, m) if s == "RES" else Affine({(s, m): c}))
        return out

    probs = []
    if not ok_reuse:
        probs.append("LOO no longer reuses ExactMarginalLogLikelihood._add_other_terms")
    for cond, ret, ae in affine_paths(fi, classify, inline={"_add_other_terms": (helper, bind_other)}):
        if not isinstance(ret, Affine):
            probs.append("non-affine return")
            continue
        got = {k: v for k, v in ret.terms.items() if k[0] != "CONST"}
        want = {("LOO_TERMS", (("n", -1),)): Fraction(1), ("ADDED", (("n", -1),)): Fraction(1), ("PRIOR", (("n", -1),)): Fraction(1)}
        if got != want:
            probs.append("returns `%s`, expected (+LOO_TERMS +ADDED +PRIOR)/n (+ constant)" % ret.show())
    rep.add("C02-2", "%s:LeaveOneOutPseudoLikelihood.forward" % L.module.name, fi.where, not probs, "(+sum_i loo terms +ADDED +PRIOR)/n + const, other terms shared with the exact MLL" if not probs else "; ".join(sorted(set(probs))), {})


def summll(idx: ProgramIndex, rep: Report):
    S = idx.find_class("SumMarginalLogLikelihood")
    fi = idx.method(S, "forward", own=True)
    probs = []
    nsums = 0

    def member_comp(comp) -> List[str]:
        """problems of a comprehension `mll(output, target[, *iparams]) for mll, output, target[, iparams] in zip(self.mlls, outputs, targets[, params])`"""
        out = []
        g = comp.generators[0]
        it = g.iter
        if len(comp.generators) != 1 or g.ifs:
            out.append("the comprehension over the members filters or nests")
        if not (isinstance(it, ast.Call) and (chain(it.func) or "").split(".")[-1] in ("zip", "length_safe_zip") and it.args and chain(it.args[0]) == "self.mlls"):
            return out + ["the members are not zipped in order with outputs and targets"]
        names = [e.id for e in g.target.elts] if isinstance(g.target, ast.Tuple) else []
        elt = comp.elt
        if not (isinstance(elt, ast.Call) and isinstance(elt.func, ast.Name) and names and elt.func.id == names[0]):
            return out + ["the summand is not the member MLL"]
        pos = [a.id if isinstance(a, ast.Name) else (a.value.id if isinstance(a, ast.Starred) and isinstance(a.value, ast.Name) else None) for a in elt.args]
        if pos != names[1:]:
            out.append("member MLL is called with %s, expected its own zipped %s" % (pos, names[1:]))
        zip_args = [src(a) for a in it.args[1:]]
        if zip_args[:2] != [fi.params[1], fi.params[2]]:
            out.append("zip operands %s are not (outputs, targets)" % zip_args)
        return out

    def is_len_members(e, env) -> bool:
        if isinstance(e, ast.Call) and isinstance(e.func, ast.Name) and e.func.id == "len" and len(e.args) == 1:
            a = e.args[0]
            if chain(a) == "self.mlls":
                return True
            if isinstance(a, ast.Name) and isinstance(env.get(a.id), (ast.ListComp,)):
                return True
        return False

    def dim0(call: ast.Call) -> Optional[bool]:
        """True: reduces over axis 0 only; False: reduces over everything (no dim); None: something else"""
        d = None
        if call.args:
            d = call.args[0]
        for k in call.keywords:
            if k.arg in ("dim", "axis"):
                d = k.value
        if d is None:
            return False
        return True if isinstance(d, ast.Constant) and d.value == 0 else None

    def agg(e, env, depth=0):
        """-> (comprehension, divided_by_len: bool, problems) or None when e is not an aggregate over the members"""
        if depth > 6:
            return None
        if isinstance(e, ast.Name) and e.id in env:
            return agg(env[e.id], env, depth + 1)
        if isinstance(e, (ast.ListComp, ast.GeneratorExp)):
            return ("list", e, False, [])
        if isinstance(e, ast.Call) and isinstance(e.func, ast.Name) and e.func.id == "sum" and len(e.args) == 1:
            a = agg(e.args[0], env, depth + 1)
            if a and a[0] == "list":
                return ("value", a[1], False, a[3])
            return None
        if isinstance(e, ast.Call) and chain(e.func) == "torch.stack" and e.args:
            a = agg(e.args[0], env, depth + 1)
            axis_ok = len(e.args) == 1 and not e.keywords or (len(e.args) == 2 and isinstance(e.args[1], ast.Constant) and e.args[1].value == 0) or any(k.arg == "dim" and isinstance(k.value, ast.Constant) and k.value.value == 0 for k in e.keywords)
            if a and a[0] == "list":
                return ("stack", a[1], False, a[3] + ([] if axis_ok else ["members are stacked along an axis other than 0"]))
            return None
        if isinstance(e, ast.Call) and isinstance(e.func, ast.Attribute) and e.func.attr in ("sum", "mean"):
            a = agg(e.func.value, env, depth + 1)
            if a and a[0] == "stack":
                d = dim0(e)
                pr = list(a[3])
                if d is False:
                    pr.append("`%s` reduces over every axis of the stacked member MLLs, i.e. over the members *and* their batch dimensions: batch element b of the result is no longer the mean of the members' b-th values" % src(e)[:60])
                elif d is None:
                    pr.append("`%s` does not reduce over the member axis 0" % src(e)[:60])
                return ("value", a[1], e.func.attr == "mean", pr)
            return None
        if isinstance(e, ast.Call) and isinstance(e.func, ast.Attribute) and e.func.attr in ("div", "div_", "true_divide") and len(e.args) == 1:
            a = agg(e.func.value, env, depth + 1)
            if a and a[0] == "value":
                if is_len_members(e.args[0], env):
                    return ("value", a[1], True, a[3] + (["divided by the number of members twice"] if a[2] else []))
                return ("value", a[1], a[2], a[3] + ["divided by `%s`, not by the number of members" % src(e.args[0])[:40]])
            return None
        if isinstance(e, ast.BinOp) and isinstance(e.op, ast.Div):
            a = agg(e.left, env, depth + 1)
            if a and a[0] == "value":
                if is_len_members(e.right, env):
                    return ("value", a[1], True, a[3] + (["divided by the number of members twice"] if a[2] else []))
                return ("value", a[1], a[2], a[3] + ["divided by `%s`, not by the number of members" % src(e.right)[:40]])
            return None
        return None

    nret = 0
    for p in enumerate_paths(body_without_docstring(fi.node)):
        if p.outcome != RETURN:
            continue
        env: Dict[str, ast.AST] = {}
        ret = None
        for st in p.steps:
            if st.kind != "stmt":
                continue
            n = st.node
            if isinstance(n, ast.Assign) and len(n.targets) == 1 and isinstance(n.targets[0], ast.Name):
                env[n.targets[0].id] = n.value
            elif isinstance(n, ast.AugAssign) and isinstance(n.target, ast.Name) and isinstance(n.op, ast.Div):
                env[n.target.id] = ast.BinOp(left=env.get(n.target.id, n.target), op=ast.Div(), right=n.value)
            elif isinstance(n, ast.Return):
                ret = n.value
        if ret is None:
            continue
        nret += 1
        a = agg(ret, env)
        if a is None or a[0] != "value":
            probs.append("the returned value `%s` is not an aggregate over the member MLLs" % src(ret)[:60])
            continue
        nsums += 1
        probs += a[3]
        probs += member_comp(a[1])
        if not a[2]:
            probs.append("the sum is not divided by len(self.mlls): `%s`" % src(ret)[:60])
    if nret == 0:
        probs.append("no returning path")
    rep.add("C02-3", "%s:SumMarginalLogLikelihood.forward" % S.module.name, fi.where, not probs, "on every returning path: sum_i mll_i(output_i, target_i[, *params_i]) over the member axis only, / len(mlls)" if not probs else "; ".join(sorted(set(probs))), {"sums": nsums})


def aliasing(idx: ProgramIndex, rep: Report):
    from .common_alias import aliasing_obligations
    funcs = []
    for cn in ("ExactMarginalLogLikelihood", "LeaveOneOutPseudoLikelihood", "SumMarginalLogLikelihood", "MarginalLogLikelihood"):
        funcs += list(idx.find_class(cn).methods.values())
    aliasing_obligations(idx, rep, "C02-4", funcs, 5, "objective methods interpreted")


# ---- C02-6: the kernel matrix the MLL differentiates is evaluated in the grad state of its creation ------------------------
def grad_state(idx: ProgramIndex, rep: Report):
    """The MLL reuses the kernel evaluation cached on the model output's lazy kernel tensor.  Its gradient w.r.t. the kernel
    hyperparameters is the dense gradient only if that evaluation happens with autograd recording whenever the tensor was created
    with autograd recording - whatever the grad mode at the moment some consumer (a sample under no_grad, a logging call) first
    touches it.  Structure: __init__ records torch.is_grad_enabled(); the decorator runs the method inside
    torch.set_grad_enabled(<recorded flag>) on every path; every method that evaluates the kernel carries the decorator."""
    rep.rule("C02-6", "lazy kernel tensors evaluate their kernel in the grad state recorded at construction (both directions), in every kernel-evaluating method")
    mod = idx.module(idx.package + ".lazy.lazy_evaluated_kernel_tensor")
    L = mod.classes["LazyEvaluatedKernelTensor"]
    dec = mod.functions.get("recall_grad_state")
    if dec is None:
        raise AnalysisError("anchor vanished: recall_grad_state")
    # (a) the flag
    init = idx.method(L, "__init__", own=True)
    flags = [n.targets[0].attr for n in ast.walk(init.node) if isinstance(n, ast.Assign) and len(n.targets) == 1 and isinstance(n.targets[0], ast.Attribute) and chain(n.targets[0].value) == init.params[0]
             and isinstance(n.value, ast.Call) and chain(n.value.func) == "torch.is_grad_enabled"]
    rep.add("C02-6", "%s:LazyEvaluatedKernelTensor.__init__[flag]" % mod.name, init.where, len(flags) == 1, "records torch.is_grad_enabled() as self.%s" % flags[0] if len(flags) == 1 else "the grad state at construction is not recorded", {})
    flag = flags[0] if flags else "_is_grad_enabled"
    # (b) the decorator: every call of the wrapped method sits inside `with torch.set_grad_enabled(self.<flag>)`
    wrapped = [n for n in ast.walk(dec.node) if isinstance(n, ast.FunctionDef) and n is not dec.node]
    probs = []
    ncalls = 0
    meth = dec.params[0]
    for w in wrapped:
        self_p = w.args.args[0].arg if w.args.args else "self"

        def scan(stmts, in_scope):
            nonlocal ncalls
            for st in stmts:
                if isinstance(st, (ast.With, ast.AsyncWith)):
                    ok = any(isinstance(it.context_expr, ast.Call) and chain(it.context_expr.func) == "torch.set_grad_enabled" and it.context_expr.args
                             and chain(it.context_expr.args[0]) == "%s.%s" % (self_p, flag) for it in st.items)
                    scan(st.body, in_scope or ok)
                    continue
                for fld in ("body", "orelse", "finalbody"):
                    sub = getattr(st, fld, None)
                    if isinstance(sub, list) and sub and isinstance(sub[0], ast.stmt):
                        scan(sub, in_scope)
                for h in getattr(st, "handlers", []) or []:
                    scan(h.body, in_scope)
                own = [st] if not any(isinstance(getattr(st, f, None), list) and getattr(st, f) and isinstance(getattr(st, f)[0], ast.stmt) for f in ("body", "orelse", "finalbody")) else [getattr(st, "test", None), getattr(st, "iter", None)]
                for part in own:
                    if part is None:
                        continue
                    for c in ast.walk(part):
                        if isinstance(c, ast.Call) and isinstance(c.func, ast.Name) and c.func.id == meth:
                            ncalls += 1
                            if not in_scope:
                                probs.append("the wrapped method is called (line %d) outside `with torch.set_grad_enabled(%s.%s)`: a tensor created with autograd recording evaluates its kernel in whatever grad mode its first consumer happens to run (e.g. under no_grad), and the MLL loses the kernel gradient" % (c.lineno, self_p, flag))
        scan(w.body, False)
    rep.add("C02-6", "%s:recall_grad_state" % mod.name, dec.where, ncalls >= 1 and not probs, "the method runs inside torch.set_grad_enabled(self.%s) on every path (%d call site(s))" % (flag, ncalls) if ncalls >= 1 and not probs else "; ".join(sorted(set(probs))) or "the decorator does not call the wrapped method", {})
    # (c) coverage: methods that evaluate the kernel are decorated
    n = 0
    for name, fi in sorted(L.methods.items()):
        evaluates = any(isinstance(c, ast.Call) and (chain(c.func) in ("self.kernel", "self.kernel.forward") or (isinstance(c.func, ast.Attribute) and c.func.attr == "__call__" and "kernel" in src(c.func.value))) for c in ast.walk(fi.node))
        if not evaluates:
            continue
        n += 1
        decorated = any(d.split(".")[-1] == "recall_grad_state" for d in fi.decorators)
        # methods that fix the grad mode themselves (the chunked checkpointing paths) are explicit, not caller dependent
        explicit = False
        for w in ast.walk(fi.node):
            if isinstance(w, (ast.With, ast.AsyncWith)) and any(isinstance(it.context_expr, ast.Call) and chain(it.context_expr.func) in ("torch.enable_grad", "torch.no_grad", "torch.set_grad_enabled") for it in w.items):
                if any(isinstance(c, ast.Call) and chain(c.func) in ("self.kernel", "self.kernel.forward") for b in w.body for c in ast.walk(b)):
                    explicit = True
        ok = decorated or explicit
        rep.add("C02-6", "%s:LazyEvaluatedKernelTensor.%s[grad state]" % (mod.name, name), fi.where, ok, ("evaluates the kernel under recall_grad_state" if decorated else "fixes the grad mode itself around the kernel call") if ok else "evaluates the kernel without recall_grad_state: its result depends on the grad mode of the caller", {})
    rep.floor("C02-6", "kernel-evaluating methods of the lazy kernel tensor", n, 3)


# ---- C02-7 ---------------------------------------------------------------------------------------------------------
def enumerators_once(idx: ProgramIndex, rep: Report):
    """'+ the log prior density of every parameter that has a registered prior': every parameter once.  The registries are enumerated by
    recursive walks over named_children(); a module object that is reachable on two paths (one base kernel inside two scale kernels)
    is visited twice unless the walk threads a memo through the recursion.  Sibling rule: every recursive enumerator in
    gpytorch/module.py takes a memo, tests membership before yielding / descending, and passes the same memo down."""
    rep.rule("C02-7", "the recursive registry enumerators (priors, constraints, added loss terms, pyro samplers) thread a memo through the recursion: an entry reachable on several module paths is yielded once")
    mod = idx.modules[idx.package + ".module"]
    n = 0
    for fi in sorted(idx.all_functions(), key=lambda f: f.qualname):
        if fi.module is not mod or fi.cls is not None:
            continue
        rec = [c for c in calls_in(fi.node) if chain(c.func) == fi.name]
        walks = any(isinstance(c.func, ast.Attribute) and c.func.attr == "named_children" for c in calls_in(fi.node))
        if not rec or not walks:
            continue
        # only walks whose result depends on how often a module is visited: generators (one entry per visit) and the pyro samplers (one
        # sample statement per visit); idempotent setters such as _set_strict may visit a shared module twice
        is_gen = any(isinstance(x, (ast.Yield, ast.YieldFrom)) for x in ast.walk(fi.node))
        if not is_gen and "pyro" not in fi.name:
            continue
        n += 1
        params = [a.arg for a in fi.node.args.args + fi.node.args.kwonlyargs]
        memo = next((p for p in params if "memo" in p or "seen" in p or "visited" in p), None)
        probs = []
        if memo is None:
            probs.append("no memo parameter: the walk cannot know what it has already visited")
        else:
            tested = any(isinstance(x, ast.Compare) and any(isinstance(o, (ast.In, ast.NotIn)) for o in x.ops) and any(isinstance(c_, ast.Name) and c_.id == memo for c_ in x.comparators) for x in ast.walk(fi.node))
            delegated = any(isinstance(c.func, ast.Attribute) and any((isinstance(a, ast.Name) and a.id == memo) or False for a in list(c.args) + [k.value for k in c.keywords]) and chain(c.func) != fi.name for c in calls_in(fi.node))
            passed = all(any((isinstance(a, ast.Name) and a.id == memo) for a in list(c.args) + [k.value for k in c.keywords]) for c in rec)
            if not tested and not delegated:
                probs.append("the memo `%s` is never consulted (`x in %s`)" % (memo, memo))
            if not passed:
                probs.append("the recursive call does not pass `%s` on: every subtree starts with an empty memo" % memo)
        rep.add("C02-7", "%s:%s" % (fi.module.name, fi.qualname), fi.where, not probs,
                "memo threaded through the recursion and consulted" if not probs else
                "; ".join(probs) + ": an entry of a module that two parents share is enumerated once per path (a shared kernel's prior is added twice to the objective)", {})
    rep.floor("C02-7", "recursive registry enumerators", n, 4)


# ---- C02-8 ---------------------------------------------------------------------------------------------------------
def likelihood_arguments_forwarded(idx: ProgramIndex, rep: Report):
    """The objectives evaluate the likelihood's marginal with whatever the caller adds: extra positional parameters (train inputs for
    input-dependent noise) and keywords (noise= of a fixed-noise likelihood).  An objective of the exact family that overrides forward
    accepts what the base objective accepts and hands both on to the likelihood - otherwise the same call that works for the exact MLL
    raises TypeError (or silently uses another noise) for its sibling."""
    rep.rule("C02-8", "every exact objective evaluates the likelihood with the caller's extra parameters and keywords: forward accepts *params and **kwargs and hands both to self.likelihood(...)")
    E = idx.find_class("ExactMarginalLogLikelihood")
    n = 0
    for cls in sorted(idx.subclasses(E), key=lambda c: c.qualname):
        fi = cls.methods.get("forward")
        if fi is None:
            continue
        n += 1
        a = fi.node.args
        sn = fi.params[0]
        probs = []
        if a.vararg is None:
            probs.append("forward takes no *params")
        if a.kwarg is None:
            probs.append("forward takes no **kwargs (the exact MLL forwards them: objective(output, y, noise=...) raises TypeError here)")
        calls = [c for c in calls_in(fi.node) if chain(c.func) == "%s.likelihood" % sn]
        if not calls:
            sup = [c for c in calls_in(fi.node) if isinstance(c.func, ast.Attribute) and c.func.attr == "forward" and isinstance(c.func.value, ast.Call) and chain(c.func.value.func) == "super"]
            if not sup:
                probs.append("forward neither evaluates self.likelihood(...) nor delegates to super().forward")
            calls = sup
        for c in calls:
            if a.vararg is not None and not any(isinstance(x, ast.Starred) and isinstance(x.value, ast.Name) and x.value.id == a.vararg.arg for x in c.args):
                probs.append("`%s` drops *%s" % (src(c)[:50], a.vararg.arg))
            if a.kwarg is not None and not any(k.arg is None and isinstance(k.value, ast.Name) and k.value.id == a.kwarg.arg for k in c.keywords):
                probs.append("`%s` drops **%s" % (src(c)[:50], a.kwarg.arg))
        rep.add("C02-8", "%s:%s.forward[likelihood arguments]" % (cls.module.name, cls.qualname), fi.where, not probs,
                "*params and **kwargs reach the likelihood" if not probs else "; ".join(probs), {})
    rep.floor("C02-8", "forward methods of the exact objective family", n, 2)
