"""C03 - evaluation-mode outputs are history independent (no stale prediction caches).

Decides the cache-invalidation *discipline*: inventory of persistent cache stores and their invalidation
path, must-pass-through at the invalidation entry points, override chaining, keyed-or-validated memo
entries w.r.t. settings and ignored arguments, restore of temporarily mutated shared state, integrity of
the memo primitives.  (DESIGN.md section 4, C03-1 ... C03-7.)
"""
from __future__ import annotations

import ast
from typing import Dict, Iterable, List, Optional, Set, Tuple

from ..callgraph import concrete_classes_using, reachable_self_functions, self_members_used
from ..cfg import (all_normal_exits_pass, enumerate_paths, executes_under, outcomes, Path, FALL, RETURN)
from ..index import (AnalysisError, ClassInfo, External, FuncInfo, ProgramIndex, body_without_docstring, call_name, calls_in,
                     chain, const_str, get_arg, is_super_call, norm, src, walk_no_nested)
from ..report import Report

SETTING_READS = {"on", "off", "value", "num_probe_vectors", "is_default"}

# ---- frozen tables (one reason per line) ---------------------------------------------------------------------------
TRANSIENT_OWNERS = {
    # class -> reason why its memo entries cannot influence a *later* call
    "MultivariateNormal": "a distribution object is immutable after construction: a lazily computed factor is a function of its own "
                          "covariance and dies with the object",
    "LazyEvaluatedKernelTensor": "per-call object: created by Kernel.__call__ for one (x1, x2) pair and dropped with the output; "
                                 "the only long-lived instance is held by a prediction strategy (class O)",
}
OBJECT_OWNERS = {
    # plain objects that live only inside a slot that an owning Module's _clear_cache rebinds
    "DefaultPredictionStrategy": ("ExactGP", "prediction_strategy"),
}
VALUE_NEUTRAL = {
    # (setting, cache name or '*') -> reason: the setting does not change the *value* of the cached entry
    ("detach_test_caches", "*"): "autograd attachment only; the cached numbers are identical",
    ("fast_pred_var.num_probe_vectors", "covar_cache"): "number of Lanczos start vectors; the decomposition is run to the same rank",
    ("fast_pred_var", "fantasy_covar_cache"): "two exact algorithms (root_inv_decomposition vs solve) for the same matrix",
    ("use_toeplitz", "_cached_kernel_mat"): "two operator representations (Toeplitz vs dense Kronecker factor) of the same matrix",
}
STRUCTURAL_ATTR_CACHES = {
    # (class, attribute) -> reason: not a value cache
    ("_DeepGPVariationalStrategy", "_sub_variational_strategies_memo"): "list of references to the live sub-module strategies (no computed values); changes only with the architecture",
}
REGULARISER = {
    # settings whose change between two eval calls is excluded by a stated assumption
    "variational_cholesky_jitter": "jitter added before a Cholesky factorisation that gpytorch caches by design",
    "cholesky_jitter": "jitter added before a Cholesky factorisation that gpytorch caches by design",
    "_linalg_dtype_cholesky": "precision in which the cached Cholesky factor is computed",
}

CONTROL = '''
from .module import Module
from .utils.memoize import cached
from . import settings
class ControlKernel(Module):
    @cached(name="ctl_cache")
    def expensive(self):
        return 1
class ControlValidated(Module):
    def _clear_cache(self):
        self._memoize_cache = {}
    @property
    @cached(name="ctl2")
    def thing(self):
        if settings.fast_pred_samples.on():
            return (1, None)
        return (None, 1)
    def use(self):
        t = self.thing
        return t[0]
'''


def setting_name(idx: ProgramIndex, fi: FuncInfo, call: ast.Call) -> Optional[str]:
    """`settings.X.on()` / `X.value()` -> 'X' (with '.num_probe_vectors' suffix for that accessor)."""
    f = call.func
    if not (isinstance(f, ast.Attribute) and f.attr in SETTING_READS):
        return None
    c = chain(f.value)
    if c is None:
        return None
    r = idx.resolve_expr(fi.module, f.value)
    is_setting = False
    if isinstance(r, ClassInfo) and r.module.name.endswith("settings"):
        is_setting = True
    elif isinstance(r, External) and ".settings." in "." + r.dotted + ".":
        is_setting = True
    elif isinstance(r, ClassInfo) and r.module.name.endswith("beta_features"):
        is_setting = True
    if not is_setting:
        return None
    name = c.split(".")[-1]
    if f.attr == "num_probe_vectors":
        name += ".num_probe_vectors"
    return name


def setting_reads(idx: ProgramIndex, fi: FuncInfo) -> Set[str]:
    out = set()
    for n in walk_no_nested(fi.node):
        if isinstance(n, ast.Call):
            s = setting_name(idx, fi, n)
            if s:
                out.add(s)
    return out


def cache_name_of(fi: FuncInfo) -> Tuple[Optional[str], bool]:
    d = fi.cached_decorator()
    if d is None:
        return None, False
    if isinstance(d, ast.Call):
        nm = get_arg(d, None, "name")
        ig = get_arg(d, None, "ignore_args")
        return (const_str(nm) if nm is not None else fi.name), bool(isinstance(ig, ast.Constant) and ig.value)
    return fi.name, False


def gp_module(idx: ProgramIndex) -> ClassInfo:
    return idx.cls("gpytorch.module", "Module")


def clears_memo(idx: ProgramIndex, concrete: ClassInfo, fi: Optional[FuncInfo], depth=0) -> bool:
    """Does the effective `_clear_cache` (fi) reset `_memoize_cache` on every normal path?"""
    if fi is None or depth > 5:
        return False

    def pred(node):
        for c in ast.walk(node):
            if isinstance(c, ast.Call):
                n = call_name(c)
                if n and n.split(".")[-1] == "clear_cache_hook" and c.args and src(c.args[0]) == "self":
                    return True
                if is_super_call(c, "_clear_cache"):
                    t = concrete.lookup("_clear_cache", after=fi.cls)
                    if clears_memo(idx, concrete, t, depth + 1):
                        return True
            if isinstance(c, ast.Assign):
                for t in c.targets:
                    if src(t) == "self._memoize_cache" and isinstance(c.value, (ast.Dict, ast.Call)):
                        if isinstance(c.value, ast.Dict) and not c.value.keys:
                            return True
                        if isinstance(c.value, ast.Call) and call_name(c.value) == "dict" and not c.value.args:
                            return True
        return False

    return all_normal_exits_pass(body_without_docstring(fi.node), pred)


def clears_attr(idx: ProgramIndex, concrete: ClassInfo, fi: Optional[FuncInfo], attr: str, depth=0) -> bool:
    if fi is None or depth > 5:
        return False
    # `if hasattr(self, A): del self.A` or rebind
    for n in ast.walk(fi.node):
        if isinstance(n, ast.Delete) and any(src(t) == "self." + attr for t in n.targets):
            # must be at top level or guarded only by hasattr(self, attr)
            return _guarded_only_by_hasattr(fi.node, n, attr)
        if isinstance(n, ast.Assign) and any(src(t) == "self." + attr for t in n.targets):
            return _guarded_only_by_hasattr(fi.node, n, attr)
        if isinstance(n, ast.Call) and is_super_call(n, "_clear_cache"):
            if clears_attr(idx, concrete, concrete.lookup("_clear_cache", after=fi.cls), attr, depth + 1):
                return True
    return False


def _guarded_only_by_hasattr(fn: ast.AST, stmt: ast.AST, attr: str) -> bool:
    def find(body, guards):
        for st in body:
            if st is stmt:
                return guards
            for fld in ("body", "orelse", "finalbody"):
                sub = getattr(st, fld, None)
                if isinstance(sub, list) and sub and isinstance(sub[0], ast.stmt):
                    g = guards + [(st, fld)] if isinstance(st, ast.If) else guards
                    r = find(sub, g)
                    if r is not None:
                        return r
        return None

    guards = find(fn.body, [])
    if guards is None:
        return False
    for st, fld in guards:
        if fld != "body" or src(st.test) != 'hasattr(self, "%s")' % attr and src(st.test) != "hasattr(self, '%s')" % attr:
            return False
    return True


# ------------------------------------------------------------------------------------------------------------------
def run(idx: ProgramIndex, rep: Report, tier: str):
    rep.explanation = (
        "Static analysis of the cache-invalidation discipline behind history independence: (1) inventory of every persistent "
        "cache store (@cached methods, add_to_cache sites, direct _memoize_cache writes, hasattr-guarded attribute caches, the "
        "ExactGP.prediction_strategy slot) and proof that each has an invalidation path; (2) must-pass-through of the clearing "
        "statement at every invalidation entry point (train/eval switch evaluated over the truth assignments of its guard, "
        "_load_from_state_dict, set_train_data, training-mode __call__ of every variational strategy, update_grid); (3) override "
        "chaining; (4) every memo entry whose value depends on a gpytorch setting is keyed by it, validated by every reachable "
        "consumer (pop-and-recompute idiom; reachability of inherited consumers decided with the setting atoms on the path to the "
        "super() call), value-neutral by table, or a regulariser under a stated assumption; (5) ignore_args memo entries are "
        "validated by every consumer; (6) temporarily mutated shared state is restored on every normal path; (7) integrity of the "
        "memo primitives. Quantifies over all histories through these constructs; does not decide numerical equality.")
    rules = {
        "C03-1": "every persistent cache store has an invalidation path (cache inventory is a subset of the cleared set)",
        "C03-2": "every invalidation entry point passes through its clearing statement on every (feasible) path",
        "C03-3": "overrides of train/eval/_load_from_state_dict/load_state_dict/_clear_cache/set_train_data chain to super() or satisfy C03-1/2 themselves",
        "C03-4": "memo entries whose value depends on a setting are keyed by it or validated by every reachable consumer",
        "C03-5": "argument-ignoring memo entries that use their argument are validated against the current argument by every consumer",
        "C03-6": "temporary mutation of shared module state is restored on every normal path",
        "C03-8": "no method overwrites a tensor owned by the object (cache entry, parameter, buffer, training data) in place, except the `.data` initialisation idiom and flag fill_()",
        "C03-9": "branches on the value-neutral setting detach_test_caches differ by .detach() only (what justifies leaving it out of every cache key)",
        "C03-7": "memo primitives: the three key builders agree, args/kwargs enter the key, clear_cache_hook rebinds to an empty dict",
        "C03-12": "a value planted into an object's memo (add_to_cache) is stored under the key its reader uses: as many key arguments as the @cached reader takes",
        "C03-11": "evaluation-mode caches read by the prediction path do not keep an autograd graph under the default settings.detach_test_caches(True) (or clear themselves when back-propagated through): a backward pass through one prediction leaves the next one differentiable",
        "C03-13": "no object stores the value of a gpytorch setting in its constructor: settings are read at the call they govern (a value frozen at construction ignores every later with-block, and keeps the value of a block that has ended)",
        "C03-14": "no memo entry that a gradient-carrying reader uses (kl_divergence, the prediction path) is filled under torch.no_grad(): a graph-free value left in the memo makes every later evaluation-mode reader return a result without gradient, until a training-mode call clears the memo",
        "C03-10": "a value-changing setting read while the model's own modules (kernels, means, likelihoods) are evaluated reaches every prediction cache: the strategy keys or re-validates its caches by it",
    }
    for k, v in rules.items():
        rep.rule(k, v)
    positive_control(idx, rep)
    inventory(idx, rep)
    entry_points(idx, rep)
    override_chaining(idx, rep)
    settings_dependence(idx, rep)
    ignore_args(idx, rep)
    temp_mutation(idx, rep, tier)
    memo_primitives(idx, rep)
    detach_neutral(idx, rep)
    per_call_state(idx, rep)
    state_not_overwritten(idx, rep)
    module_settings_reach_caches(idx, rep)
    caches_survive_backward(idx, rep)
    settings_read_at_call_time(idx, rep)
    memo_keys_agree(idx, rep)
    memos_filled_without_graph(idx, rep)
    rep.assume("regulariser/precision settings (variational_cholesky_jitter, cholesky_jitter, _linalg_dtype_cholesky) are not changed between two evaluation-mode calls on the same model: gpytorch caches Cholesky factors computed with them by design")
    rep.assume("settings read only inside linear_operator (CG vs Cholesky, Lanczos rank) select between algorithms for the same quantity (the 'iterative paths at tight tolerance' caveat of C01)")
    rep.assume("direct parameter edits while staying in eval mode are outside the documented invalidation points (excluded by the property)")


# ---- C03-1 ---------------------------------------------------------------------------------------------------------
def cached_methods(idx: ProgramIndex) -> List[Tuple[ClassInfo, FuncInfo, str, bool]]:
    out = []
    for c in sorted(idx.package_classes(), key=lambda c: (c.module.name, c.qualname)):
        for m in c.methods.values():
            nm, ig = cache_name_of(m)
            if nm is not None:
                out.append((c, m, nm, ig))
    return out


def _presence_atoms(test: ast.AST, sn: str, aliases: Optional[Dict[str, str]] = None) -> List[Tuple[str, ast.AST, bool]]:
    """(attribute, atom, value of the atom when the attribute is ABSENT/None) for every presence test of a self attribute:
    hasattr(self, "A"), getattr(self, "A", None) is [not] None, self.A is [not] None, "A" in self.__dict__ / vars(self)"""
    out = []
    for n in ast.walk(test):
        if isinstance(n, ast.Call) and call_name(n) == "hasattr" and len(n.args) == 2 and src(n.args[0]) == sn:
            a = const_str(n.args[1])
            if a:
                out.append((a, n, False))
        elif isinstance(n, ast.Compare) and len(n.ops) == 1 and isinstance(n.comparators[0], ast.Constant) and n.comparators[0].value is None and isinstance(n.ops[0], (ast.Is, ast.IsNot)):
            l = n.left
            a = None
            if isinstance(l, ast.Call) and call_name(l) == "getattr" and len(l.args) >= 2 and src(l.args[0]) == sn:
                a = const_str(l.args[1])
            elif isinstance(l, ast.Attribute) and isinstance(l.value, ast.Name) and l.value.id == sn:
                a = l.attr
            elif isinstance(l, ast.Name) and aliases and l.id in aliases:
                a = aliases[l.id]  # a local that was read from the attribute: `c = getattr(self, "A", None)` ... `if c is None`
            if a:
                out.append((a, n, isinstance(n.ops[0], ast.Is)))
        elif isinstance(n, ast.Compare) and len(n.ops) == 1 and isinstance(n.ops[0], (ast.In, ast.NotIn)) and const_str(n.left) and src(n.comparators[0]) in ("%s.__dict__" % sn, "vars(%s)" % sn):
            out.append((const_str(n.left), n, isinstance(n.ops[0], ast.NotIn)))
    return out


def attribute_caches(idx: ProgramIndex) -> List[Tuple[ClassInfo, str, List[FuncInfo]]]:
    """Fill-if-absent attributes: `self.A = <value>` (outside __init__) on a branch that is reachable when a presence test of the
    same attribute (hasattr / getattr(..., None) is None / self.A is None / "A" in self.__dict__) says *absent*.  A store on the
    present branch (`if self.A is not None: self.A = f(self.A)`) is an update, not a cache fill."""
    from ..cfg import eval_guard
    out = []
    for c in sorted(idx.package_classes(), key=lambda c: (c.module.name, c.qualname)):
        found: Dict[str, List[FuncInfo]] = {}
        for m in c.methods.values():
            if m.name == "__init__" or not m.params or m.kind in ("staticmethod", "classmethod"):
                continue
            sn = m.params[0]
            aliases: Dict[str, str] = {}
            for x in ast.walk(m.node):
                if isinstance(x, ast.Assign) and len(x.targets) == 1 and isinstance(x.targets[0], ast.Name):
                    v = x.value
                    if isinstance(v, ast.Call) and call_name(v) == "getattr" and len(v.args) >= 2 and src(v.args[0]) == sn and const_str(v.args[1]):
                        aliases[x.targets[0].id] = const_str(v.args[1])
                    elif isinstance(v, ast.Attribute) and isinstance(v.value, ast.Name) and v.value.id == sn and v.attr.startswith("_"):
                        aliases[x.targets[0].id] = v.attr
            for n in ast.walk(m.node):
                if not isinstance(n, ast.If):
                    continue
                for a, atom, absent_value in _presence_atoms(n.test, sn, aliases):
                    if a == "_memoize_cache" or a == "prediction_strategy":
                        continue  # the memo dict itself (C03-7) and the strategy slot (checked below) have their own rules
                    v = eval_guard(n.test, {src(atom): absent_value})
                    branches = ([n.body] if v is not False else []) + ([n.orelse] if v is not True else [])
                    for br in branches:
                        for st in br:
                            for x in ast.walk(st):
                                if isinstance(x, ast.Assign) and any(isinstance(t, ast.Attribute) and isinstance(t.value, ast.Name) and t.value.id == sn and t.attr == a for t in x.targets):
                                    if isinstance(x.value, ast.Constant) and x.value.value is None:
                                        continue
                                    if m not in found.setdefault(a, []):
                                        found[a].append(m)
        for a in sorted(found):
            out.append((c, a, found[a]))
    return out


def classify_owner(idx: ProgramIndex, c: ClassInfo) -> Tuple[str, str]:
    gm = gp_module(idx)
    if c.is_subclass_of(gm):
        return "M", "gpytorch Module subclass"
    for base, (holder, slot) in OBJECT_OWNERS.items():
        if c.is_subclass_of(base):
            return "O", "held only in %s.%s" % (holder, slot)
    for t, why in TRANSIENT_OWNERS.items():
        if c.is_subclass_of(t):
            return "T", why
    return "?", "no invalidation path known"


def inventory(idx: ProgramIndex, rep: Report):
    cm = cached_methods(idx)
    n_memo = 0
    owners: Set[str] = set()
    for c, m, nm, ig in cm:
        kind, why = classify_owner(idx, c)
        owners.add(c.qualname)
        n_memo += 1
        inst = "%s:%s.%s[%s]" % (c.module.name, c.qualname, m.name, nm)
        if kind == "M":
            bad = []
            for cc in concrete_classes_using(idx, c, m.name):
                if not clears_memo(idx, cc, cc.lookup("_clear_cache")):
                    bad.append(cc.qualname)
            rep.add("C03-1", inst, m.where, not bad,
                    "effective _clear_cache of every concrete class resets _memoize_cache" if not bad else
                    "memo store on a Module whose effective _clear_cache does not reset _memoize_cache: %s" % ", ".join(bad),
                    {"owner_kind": kind, "concrete_classes": [cc.qualname for cc in concrete_classes_using(idx, c, m.name)]})
        elif kind in ("O", "T"):
            rep.add("C03-1", inst, m.where, True, "owner class %s: %s" % (kind, why), {"owner_kind": kind})
        else:
            rep.add("C03-1", inst, m.where, False, "cache store with no invalidation path: owner %s is neither a gpytorch Module, nor held in a cleared slot, nor a per-call transient" % c.qualname, {})
    # add_to_cache / direct stores
    n_add = 0
    for fi in idx.all_functions():
        for call in calls_in(fi.node):
            nmc = call_name(call)
            if nmc and nmc.split(".")[-1] == "add_to_cache" and len(call.args) >= 2:
                n_add += 1
                obj = src(call.args[0])
                cname = const_str(call.args[1]) or src(call.args[1])
                ok, why = _store_target_ok(idx, fi, call.args[0])
                rep.add("C03-1", "%s:%s:add_to_cache(%s,%s)" % (fi.module.name, fi.qualname, obj, cname), "%s:%d" % (fi.module.relpath, call.lineno), ok, why, {"target": obj})
        for n in ast.walk(fi.node):
            if isinstance(n, ast.Assign) and fi.module.name != "gpytorch.utils.memoize":  # the primitives themselves: C03-7
                for t in n.targets:
                    if isinstance(t, ast.Subscript) and src(t.value).endswith("._memoize_cache"):
                        n_add += 1
                        base = t.value.value
                        ok, why = _store_target_ok(idx, fi, base)
                        rep.add("C03-1", "%s:%s:%s" % (fi.module.name, fi.qualname, norm(t)), "%s:%d" % (fi.module.relpath, n.lineno), ok, why, {})
    # attribute caches
    ac = attribute_caches(idx)
    for c, a, writers in ac:
        owners.add(c.qualname)
        kind, why = classify_owner(idx, c)
        inst = "%s:%s.%s" % (c.module.name, c.qualname, a)
        if (c.name, a) in STRUCTURAL_ATTR_CACHES:
            rep.add("C03-1", inst, c.where, True, "structural memo by table: %s" % STRUCTURAL_ATTR_CACHES[(c.name, a)], {}, trivial=True)
            continue
        if kind in ("O", "T"):
            rep.add("C03-1", inst, writers[0].where, True, "owner class %s: %s" % (kind, why), {"owner_kind": kind})
            continue
        if kind != "M":
            rep.add("C03-1", inst, c.where, False, "attribute cache on a class without invalidation path", {})
            continue
        bad = []
        for cc in idx.subclasses(c):
            if not clears_attr(idx, cc, cc.lookup("_clear_cache"), a):
                bad.append(cc.qualname)
        rep.add("C03-1", inst, writers[0].where, not bad,
                "effective _clear_cache deletes/rebinds self.%s (written in %s)" % (a, ", ".join(w.name for w in writers)) if not bad else
                "attribute cache self.%s is written in %s but not cleared by the effective _clear_cache of %s" % (a, ", ".join(w.name for w in writers), ", ".join(bad)),
                {"writers": [w.qualname for w in writers]})
    # the prediction-strategy slot
    exact = idx.find_class("ExactGP")
    cc_fi = idx.method(exact, "_clear_cache", own=True)

    def resets_slot(node):
        return isinstance(node, ast.Assign) and any(src(t) == "self.prediction_strategy" for t in node.targets) and isinstance(node.value, ast.Constant) and node.value.value is None

    ok = all_normal_exits_pass(body_without_docstring(cc_fi.node), resets_slot)
    rep.add("C03-1", "gpytorch.models.exact_gp:ExactGP.prediction_strategy", cc_fi.where, ok,
            "ExactGP._clear_cache rebinds the prediction_strategy slot to None (kills every class-O cache)" if ok else "ExactGP._clear_cache does not reset self.prediction_strategy on every path", {})
    for sub in idx.subclasses(exact, strict=True):
        if "_clear_cache" in sub.methods:
            f = sub.methods["_clear_cache"]
            ok2 = all_normal_exits_pass(body_without_docstring(f.node), lambda n: resets_slot(n) or any(isinstance(c, ast.Call) and is_super_call(c, "_clear_cache") for c in ast.walk(n)))
            rep.add("C03-1", "%s:%s._clear_cache" % (sub.module.name, sub.qualname), f.where, ok2, "override keeps resetting the prediction_strategy slot" if ok2 else "override of ExactGP._clear_cache no longer resets the prediction_strategy slot", {})
    rep.floor("C03-1", "memo stores (@cached)", n_memo, 26)
    rep.floor("C03-1", "add_to_cache/direct stores", n_add, 10)
    rep.floor("C03-1", "attribute caches", len(ac), 3)
    rep.analysed["C03-1 cache owner classes"] = len(owners)


def _store_target_ok(idx: ProgramIndex, fi: FuncInfo, target: ast.AST) -> Tuple[bool, str]:
    t = src(target)
    cls = fi.cls
    if t == "self" and cls is not None:
        kind, why = classify_owner(idx, cls)
        if kind == "M":
            bad = [cc.qualname for cc in idx.subclasses(cls) if not clears_memo(idx, cc, cc.lookup("_clear_cache"))]
            return (not bad, "store on self (Module): effective _clear_cache resets the memo" if not bad else "store on a Module whose _clear_cache does not reset the memo: %s" % bad)
        return (kind in ("O", "T"), "store on self, owner class %s: %s" % (kind, why))
    if t.startswith("self.") and cls is not None:
        kind, why = classify_owner(idx, cls)
        if kind in ("O", "T"):
            return True, "store on an attribute of a class-%s owner (%s): dies with the owner" % (kind, why)
        return False, "store on attribute %s of a long-lived object" % t
    if isinstance(target, ast.Name):
        # local: must be an object created in this function or a prediction strategy taken from a fresh/own model
        for n in ast.walk(fi.node):
            if isinstance(n, ast.Assign) and any(isinstance(x, ast.Name) and x.id == target.id for x in n.targets):
                v = n.value
                if isinstance(v, ast.Call):
                    fn = src(v.func)
                    if fn == "self.__class__" or fn.endswith("PredictionStrategy"):
                        return True, "store on a prediction strategy constructed in this function (class O, fresh object)"
                if src(v).endswith(".prediction_strategy"):
                    return True, "store on a prediction strategy taken from a model slot that _clear_cache rebinds (class O)"
        return False, "store on local %s of unknown provenance" % t
    return False, "store on %s: unknown owner" % t


# ---- C03-2 ---------------------------------------------------------------------------------------------------------
def _is_clear_call(node: ast.AST) -> bool:
    for c in ast.walk(node):
        if isinstance(c, ast.Call):
            n = call_name(c)
            if n == "self._clear_cache":
                return True
            if n and n.split(".")[-1] == "clear_cache_hook" and c.args and src(c.args[0]) == "self":
                return True
    return False


def entry_points(idx: ProgramIndex, rep: Report):
    gm = gp_module(idx)
    # Module.train
    tr = idx.method(gm, "train", own=True)
    body = body_without_docstring(tr.node)
    mode_param = tr.params[1] if len(tr.params) > 1 else "mode"
    res = executes_under(body, _is_clear_call, {"self.training": True, mode_param: False})
    rep.add("C03-2", "gpytorch.module:Module.train[train->eval]", tr.where, res is True,
            "self._clear_cache() executes when the module leaves training mode (training=True, mode=False)" if res is True else
            "Module.train does not clear caches on the train->eval switch (guard evaluates to %s for training=True, mode=False): memo entries computed during the last training forward survive into evaluation" % res,
            {"guard_assignment": {"self.training": True, mode_param: False}})
    res2 = executes_under(body, _is_clear_call, {"self.training": False, mode_param: True})
    if res2 is not True:
        rep.observe("C03-2", "gpytorch.module:Module.train[eval->train]", tr.where, "no clear on eval->train (the train->eval clear is the necessary one)")
    sup = all_normal_exits_pass(body, lambda n: any(isinstance(c, ast.Call) and is_super_call(c, "train") for c in ast.walk(n)))
    rep.add("C03-2", "gpytorch.module:Module.train[delegates]", tr.where, sup, "super().train reached on every path" if sup else "Module.train does not reach super().train on every path", {})
    # clear precedes delegate
    # _load_from_state_dict
    ld = idx.method(gm, "_load_from_state_dict", own=True)
    ok = all_normal_exits_pass(body_without_docstring(ld.node), _is_clear_call)
    rep.add("C03-2", "gpytorch.module:Module._load_from_state_dict", ld.where, ok,
            "self._clear_cache() on every normal path" if ok else "loading a state dict does not clear caches on every path", {})
    # set_train_data
    exact = idx.find_class("ExactGP")
    st = idx.method(exact, "set_train_data", own=True)

    def resets_slot(node):
        return isinstance(node, ast.Assign) and any(src(t) == "self.prediction_strategy" for t in node.targets) and isinstance(node.value, ast.Constant) and node.value.value is None

    def resets(node):
        return resets_slot(node) or _is_clear_call(node)

    ok = all_normal_exits_pass(body_without_docstring(st.node), resets)
    rep.add("C03-2", "gpytorch.models.exact_gp:ExactGP.set_train_data", st.where, ok,
            "prediction_strategy reset on every normal exit" if ok else "set_train_data has a normal exit that keeps the old prediction strategy", {})
    # GridKernel.update_grid
    gk = idx.find_class("GridKernel")
    ug = idx.method(gk, "update_grid", own=True)
    ok = all_normal_exits_pass(body_without_docstring(ug.node), _is_clear_call)
    rep.add("C03-2", "gpytorch.kernels.grid_kernel:GridKernel.update_grid", ug.where, ok, "clears on every normal exit" if ok else "update_grid keeps the cached kernel matrix on some path", {})
    # variational __call__
    vs = idx.find_class("_VariationalStrategy")
    n = 0
    for cc in idx.subclasses(vs):
        call_fi = cc.lookup("__call__")
        if call_fi is None or call_fi.cls != cc:
            continue
        n += 1
        ok, why, facts = training_call_clears(idx, cc, call_fi)
        rep.add("C03-2", "%s:%s.__call__" % (cc.module.name, cc.qualname), call_fi.where, ok, why, facts)
    rep.floor("C03-2", "variational __call__ definitions", n, 4)


def _cached_member_names(concrete: ClassInfo) -> Set[str]:
    out = set()
    for name, m in concrete.all_methods().items():
        if cache_name_of(m)[0] is not None:
            out.add(name)
    return out


def training_call_clears(idx: ProgramIndex, cc: ClassInfo, fi: FuncInfo) -> Tuple[bool, str, dict]:
    cached = _cached_member_names(cc)
    sn = fi.params[0]
    # super().__call__ counts as "clears and then reads" only if it resolves to another strategy __call__ (itself checked)
    target = cc.lookup("__call__", after=fi.cls)
    delegate_clears = target is not None and target.cls is not None and target.cls.is_subclass_of("_VariationalStrategy")
    paths = enumerate_paths(body_without_docstring(fi.node))
    problems = []
    npaths = 0
    for p in paths:
        if p.outcome not in (FALL, RETURN):
            continue
        env_training = None
        dirty = None
        cleared = False
        skip = False
        for s in p.steps:
            node = s.node
            if s.kind == "assume":
                if src(node) == "%s.training" % sn:
                    if s.truth is False:
                        skip = True
                        break
                if src(node) == "not %s.training" % sn and s.truth is True:
                    skip = True
                    break
            if s.kind in ("endwith",):
                continue
            exprs = [node] if s.kind != "with" else [it.context_expr for it in node.items]
            for e in exprs:
                events = _events(e, sn, cached)
                for ev, what in events:
                    if ev == "CLEAR":
                        cleared = True
                        dirty = None
                    elif ev == "DELEGATE" and delegate_clears:
                        cleared = True
                        dirty = None
                    elif ev == "READ" and not cleared and dirty is None:
                        dirty = what
        if skip:
            continue
        npaths += 1
        if dirty is not None:
            problems.append("cached member %s is read in training mode with no cache reset before it or after it on the path" % dirty)
    ok = not problems
    return ok, ("training-mode cache reset precedes (or follows, before delegating) every read of a cached member on all %d training paths" % npaths) if ok else "; ".join(sorted(set(problems))), {"training_paths": npaths, "cached_members": sorted(cached)}


def _events(node: ast.AST, sn: str, cached: Set[str]) -> List[Tuple[str, str]]:
    """Events in source order inside one statement/expression."""
    evs: List[Tuple[int, int, str, str]] = []
    for n in ast.walk(node):
        if isinstance(n, (ast.FunctionDef, ast.Lambda)):
            continue
        if isinstance(n, ast.Call):
            cn = call_name(n)
            if cn == "%s._clear_cache" % sn or (cn and cn.split(".")[-1] == "clear_cache_hook" and n.args and src(n.args[0]) == sn):
                evs.append((n.lineno, n.col_offset, "CLEAR", cn))
            elif is_super_call(n, "__call__"):
                evs.append((n.end_lineno, n.end_col_offset, "DELEGATE", "super().__call__"))
        if isinstance(n, ast.Attribute) and isinstance(n.value, ast.Name) and n.value.id == sn and n.attr in cached and isinstance(n.ctx, ast.Load):
            evs.append((n.lineno, n.col_offset, "READ", n.attr))
    evs.sort()
    return [(e[2], e[3]) for e in evs]


# ---- C03-3 ---------------------------------------------------------------------------------------------------------
CHAINED = ("train", "eval", "_load_from_state_dict", "load_state_dict", "_clear_cache", "set_train_data")


def override_chaining(idx: ProgramIndex, rep: Report):
    gm = gp_module(idx)
    n = 0
    for c in sorted(idx.subclasses(gm, strict=True), key=lambda c: (c.module.name, c.qualname)):
        for name in CHAINED:
            fi = c.methods.get(name)
            if fi is None:
                continue
            base = c.lookup(name, after=c)
            n += 1
            inst = "%s:%s.%s" % (c.module.name, c.qualname, name)
            if name == "_clear_cache":
                # must chain only if the base implementation is non-trivial
                trivial = base is None or all(isinstance(s, ast.Pass) for s in body_without_docstring(base.node))
                if trivial:
                    rep.add("C03-3", inst, fi.where, True, "base _clear_cache is empty; own stores checked by C03-1", {"base": base.qualname if base else None}, trivial=True)
                    continue
            if base is None and name in ("train", "eval", "_load_from_state_dict", "load_state_dict"):
                # torch.nn.Module provides it
                pass
            if base is None and name == "set_train_data":
                continue
            ok = all_normal_exits_pass(body_without_docstring(fi.node), lambda nd, name=name: any(isinstance(cl, ast.Call) and is_super_call(cl, name) for cl in ast.walk(nd)))
            if not ok and name == "load_state_dict":
                # accepted: explicit delegation `Module.load_state_dict(self, ...)`
                ok = all_normal_exits_pass(body_without_docstring(fi.node), lambda nd: any(isinstance(cl, ast.Call) and (call_name(cl) or "").endswith(".load_state_dict") and cl.args and src(cl.args[0]) == "self" for cl in ast.walk(nd)))
            rep.add("C03-3", inst, fi.where, ok, "calls super().%s on every normal path" % name if ok else
                    "override of %s does not chain to super().%s on every normal path: the base class' cache clearing is lost" % (name, name), {"base": base.qualname if base else "torch.nn.Module.%s" % name})
    rep.floor("C03-3", "overrides of invalidation methods", n, 5)


# ---- C03-4 ---------------------------------------------------------------------------------------------------------
def _atoms_from_assume(idx: ProgramIndex, fi: FuncInfo, test: ast.AST, truth: bool, env: Dict[str, bool]):
    """Record setting atoms implied by assuming `test` == truth."""
    if isinstance(test, ast.BoolOp):
        if isinstance(test.op, ast.And) and truth:
            for v in test.values:
                _atoms_from_assume(idx, fi, v, True, env)
        elif isinstance(test.op, ast.Or) and not truth:
            for v in test.values:
                _atoms_from_assume(idx, fi, v, False, env)
        return
    if isinstance(test, ast.UnaryOp) and isinstance(test.op, ast.Not):
        _atoms_from_assume(idx, fi, test.operand, not truth, env)
        return
    if isinstance(test, ast.Call):
        s = setting_name(idx, fi, test)
        if s and test.func.attr in ("on", "off"):
            env[s] = truth if test.func.attr == "on" else (not truth)


def _setting_truth(idx: ProgramIndex, fi: FuncInfo, test: ast.AST, env: Dict[str, bool]) -> Optional[bool]:
    if isinstance(test, ast.BoolOp):
        vals = [_setting_truth(idx, fi, v, env) for v in test.values]
        if isinstance(test.op, ast.And):
            if any(v is False for v in vals):
                return False
            return True if all(v is True for v in vals) else None
        if any(v is True for v in vals):
            return True
        return False if all(v is False for v in vals) else None
    if isinstance(test, ast.UnaryOp) and isinstance(test.op, ast.Not):
        v = _setting_truth(idx, fi, test.operand, env)
        return None if v is None else (not v)
    if isinstance(test, ast.Call):
        s = setting_name(idx, fi, test)
        if s and test.func.attr in ("on", "off") and s in env:
            return env[s] if test.func.attr == "on" else (not env[s])
    return None


def feasible_paths(idx: ProgramIndex, fi: FuncInfo, env: Dict[str, bool]) -> List[Path]:
    out = []
    for p in enumerate_paths(body_without_docstring(fi.node)):
        ok = True
        e = dict(env)
        for s in p.steps:
            if s.kind == "assume":
                v = _setting_truth(idx, fi, s.node, e)
                if v is not None and v != s.truth:
                    ok = False
                    break
                _atoms_from_assume(idx, fi, s.node, s.truth, e)
        if ok:
            out.append(p)
    return out


def consumer_sites(idx: ProgramIndex, cc: ClassInfo, member: str) -> List[Tuple[FuncInfo, ast.AST, Dict[str, bool]]]:
    """(function, read node, setting env under which the function is entered) for reads of self.<member> that are
    reachable for concrete class cc."""
    out = []
    effective = cc.all_methods()
    # functions that are effective for cc are entered with an empty env; overridden base functions only via super() calls
    entered: List[Tuple[FuncInfo, Dict[str, bool]]] = [(f, {}) for f in effective.values()]
    seen = set()
    work = list(entered)
    while work:
        f, env = work.pop()
        key = (id(f.node), tuple(sorted(env.items())))
        if key in seen:
            continue
        seen.add(key)
        try:
            paths = feasible_paths(idx, f, env)
        except AnalysisError:
            paths = None
        sn = f.params[0] if f.params else "self"
        if paths is None:
            # too many paths: treat every read as reachable
            for n in walk_no_nested(f.node):
                if isinstance(n, ast.Attribute) and isinstance(n.value, ast.Name) and n.value.id == sn and n.attr == member and isinstance(n.ctx, ast.Load):
                    out.append((f, n, env))
            continue
        reach_nodes = set()
        for p in paths:
            e = dict(env)
            for s in p.steps:
                if s.kind == "assume":
                    _atoms_from_assume(idx, f, s.node, s.truth, e)
                nodes = [s.node] if s.kind != "with" else [it.context_expr for it in s.node.items]
                if s.kind == "endwith":
                    continue
                for nd in nodes:
                    for n in ast.walk(nd):
                        if isinstance(n, ast.Attribute) and isinstance(n.value, ast.Name) and n.value.id == sn and n.attr == member and isinstance(n.ctx, ast.Load):
                            if id(n) not in reach_nodes:
                                reach_nodes.add(id(n))
                                out.append((f, n, dict(e)))
                        if isinstance(n, ast.Call) and is_super_call(n):
                            t = cc.lookup(n.func.attr, after=f.cls)
                            if t is not None:
                                work.append((t, {k: v for k, v in e.items()}))
    # de-duplicate by node
    uniq = {}
    for f, n, e in out:
        uniq.setdefault(id(n), (f, n, e))
    return list(uniq.values())


def _innermost(f: FuncInfo, node: ast.AST):
    """(block, index) of the innermost statement list whose element contains `node`."""
    best = None
    for blk in _blocks(f.node):
        for i, st in enumerate(blk):
            if any(n is node for n in ast.walk(st)):
                size = sum(1 for _ in ast.walk(st))
                if best is None or size < best[2]:
                    best = (blk, i, size)
    return (best[0], best[1]) if best else (None, None)


def _fresh_after_pop(f: FuncInfo, read_node: ast.AST, cache_name: str) -> bool:
    """The read is directly preceded, in its block, by a pop of the same cache entry (recompute branch of the idiom)."""
    blk, i = _innermost(f, read_node)
    if blk is None or i == 0:
        return False
    prev = blk[i - 1]
    return any(isinstance(c, ast.Call) and (call_name(c) or "").split(".")[-1] in ("pop_from_cache", "pop_from_cache_ignore_args")
               and len(c.args) >= 2 and const_str(c.args[1]) == cache_name for c in ast.walk(prev))


def _validated(idx: ProgramIndex, f: FuncInfo, read: ast.AST, member: str, cache_name: str, setting: str) -> bool:
    """pop-and-recompute idiom guarded by a test of the cached value that involves the setting."""
    if _fresh_after_pop(f, read, cache_name):
        return True
    # locate the assignment `v = self.member`
    parent_assign = None
    for n in ast.walk(f.node):
        if isinstance(n, ast.Assign) and n.value is read and len(n.targets) == 1 and isinstance(n.targets[0], ast.Name):
            parent_assign = n
    if parent_assign is None:
        return False
    v = parent_assign.targets[0].id
    # aliases of the setting: locals assigned from settings.X.on()
    aliases = set()
    for n in ast.walk(f.node):
        if isinstance(n, ast.Assign) and isinstance(n.value, ast.Call) and setting_name(idx, f, n.value) == setting and len(n.targets) == 1 and isinstance(n.targets[0], ast.Name):
            aliases.add(n.targets[0].id)
    # find the block containing the assignment
    for blk in _blocks(f.node):
        if parent_assign in blk:
            i = blk.index(parent_assign)
            for st in blk[i + 1:]:
                if isinstance(st, ast.If):
                    names = {x.id for x in ast.walk(st.test) if isinstance(x, ast.Name)}
                    mentions_setting = bool(names & aliases) or any(isinstance(c, ast.Call) and setting_name(idx, f, c) == setting for c in ast.walk(st.test))
                    if v in names and mentions_setting:
                        pops = any(isinstance(c, ast.Call) and (call_name(c) or "").split(".")[-1] in ("pop_from_cache", "pop_from_cache_ignore_args") and len(c.args) >= 2 and const_str(c.args[1]) == cache_name for s2 in st.body for c in ast.walk(s2))
                        reread = any(isinstance(s2, ast.Assign) and any(isinstance(t, ast.Name) and t.id == v for t in s2.targets) and src(s2.value) == src(read) for s2 in st.body)
                        if pops and reread:
                            return True
                    if v in names:
                        return False
                # the value may not be used before it is validated
                if any(isinstance(x, ast.Name) and x.id == v and isinstance(x.ctx, ast.Load) for x in ast.walk(st)):
                    return False
    return False


def _blocks(fn: ast.AST):
    for n in ast.walk(fn):
        for fld in ("body", "orelse", "finalbody"):
            b = getattr(n, fld, None)
            if isinstance(b, list) and b and isinstance(b[0], ast.stmt):
                yield b


def settings_dependence(idx: ProgramIndex, rep: Report):
    used_tables = set()
    n = 0
    for c, m, cname, ig in cached_methods(idx):
        kind, _ = classify_owner(idx, c)
        if kind == "T":
            continue
        for cc in concrete_classes_using(idx, c, m.name):
            fs = reachable_self_functions(idx, cc, [m])
            S: Dict[str, List[str]] = {}
            for f in fs:
                # cached sub-members are their own entries
                if f is not m and cache_name_of(f)[0] is not None:
                    continue
                for s in setting_reads(idx, f):
                    S.setdefault(s, []).append(f.qualname)
            for s in sorted(S):
                n += 1
                inst = "%s:%s.%s[%s]<-%s" % (cc.module.name, cc.qualname, m.name, cname, s)
                base = s.split(".")[0]
                if (s, cname) in VALUE_NEUTRAL or (s, "*") in VALUE_NEUTRAL:
                    k = (s, cname) if (s, cname) in VALUE_NEUTRAL else (s, "*")
                    used_tables.add(k)
                    rep.add("C03-4", inst, m.where, True, "value-neutral by table: %s" % VALUE_NEUTRAL[k], {"read_in": S[s]}, trivial=True)
                    continue
                if base in REGULARISER:
                    rep.add("C03-4", inst, m.where, True, "regulariser/precision setting under stated assumption: %s" % REGULARISER[base], {"read_in": S[s]}, trivial=True)
                    continue
                # keyed?
                if s in _key_settings(idx, cc, m):
                    rep.add("C03-4", inst, m.where, True, "the setting is part of the memo key", {})
                    continue
                sites = consumer_sites(idx, cc, m.name)
                bad = []
                for f, read, env in sites:
                    if f is m:
                        continue
                    if not _validated(idx, f, read, m.name, cname, s):
                        bad.append("%s (%s:%d)" % (f.qualname, f.module.relpath, read.lineno))
                rep.add("C03-4", inst, m.where, not bad,
                        "every reachable consumer (%d) validates the hit against %s with the pop-and-recompute idiom" % (len(sites), s) if not bad else
                        "memo entry '%s' depends on settings.%s (read in %s) but is neither keyed by it nor validated by consumer(s): %s" % (cname, s, ", ".join(sorted(set(S[s]))), ", ".join(bad)),
                        {"consumers": ["%s:%d" % (f.qualname, r.lineno) for f, r, _ in sites], "setting_read_in": S[s]})
    # attribute caches
    for c, a, writers in attribute_caches(idx):
        for w in writers:
            for s in sorted(setting_reads(idx, w)):
                n += 1
                inst = "%s:%s.%s<-%s" % (c.module.name, c.qualname, a, s)
                if (s, a) in VALUE_NEUTRAL or (s, "*") in VALUE_NEUTRAL:
                    used_tables.add((s, a) if (s, a) in VALUE_NEUTRAL else (s, "*"))
                    rep.add("C03-4", inst, w.where, True, "value-neutral by table: %s" % VALUE_NEUTRAL.get((s, a), VALUE_NEUTRAL.get((s, "*"))), {}, trivial=True)
                elif s.split(".")[0] in REGULARISER:
                    rep.add("C03-4", inst, w.where, True, "regulariser under stated assumption", {}, trivial=True)
                else:
                    # the setting must only steer code that is outside the cached value: accept when the store is not
                    # control dependent on the setting and the stored value does not flow from a branch of it
                    dep = _store_depends_on_setting(idx, w, a, s)
                    rep.add("C03-4", inst, w.where, not dep, "the stored attribute cache is not computed under a branch of settings.%s" % s if not dep else
                            "attribute cache self.%s is computed under a branch of settings.%s and never re-validated" % (a, s), {})
    for k in VALUE_NEUTRAL:
        if k not in used_tables:
            rep.note("C03-4 value-neutral table entry %s matched nothing on this tree (stale entry)" % (k,))
    rep.floor("C03-4", "(memo entry, setting) pairs", n, 20)


def _key_settings(idx: ProgramIndex, cc: ClassInfo, m: FuncInfo) -> Set[str]:
    """Settings whose value is passed as an argument (= part of the memo key) at every call of the cached method."""
    params = m.params[1:]
    if not params:
        return set()
    out: Optional[Set[str]] = None
    for f in cc.all_methods().values():
        for node, name, t, how in self_members_used(idx, cc, f):
            if t is m and how == "call":
                here = set()
                for a in list(node.args) + [k.value for k in node.keywords]:
                    if isinstance(a, ast.Call):
                        s = setting_name(idx, f, a)
                        if s:
                            here.add(s)
                out = here if out is None else (out & here)
    return out or set()


def _store_depends_on_setting(idx: ProgramIndex, w: FuncInfo, attr: str, s: str) -> bool:
    # the store statement itself nested under an `if settings.s...`
    def rec(body, under):
        for st in body:
            if isinstance(st, ast.If):
                dep = any(isinstance(c, ast.Call) and setting_name(idx, w, c) == s for c in ast.walk(st.test))
                if rec(st.body, under or dep) or rec(st.orelse, under or dep):
                    return True
            elif isinstance(st, (ast.With, ast.For, ast.While, ast.Try)):
                for fld in ("body", "orelse", "finalbody"):
                    if rec(getattr(st, fld, []) or [], under):
                        return True
            elif isinstance(st, ast.Assign) and any(src(t) == "self." + attr for t in st.targets):
                if under:
                    return True
        return False

    return rec(w.node.body, False)


# ---- C03-5 ---------------------------------------------------------------------------------------------------------
def ignore_args(idx: ProgramIndex, rep: Report):
    n = 0
    for c, m, cname, ig in cached_methods(idx):
        if not ig:
            continue
        params = m.params[1:]
        used = [p for p in params if any(isinstance(x, ast.Name) and x.id == p for x in ast.walk(m.node) if not isinstance(x, ast.arg))]
        if not used:
            continue
        for cc in concrete_classes_using(idx, c, m.name):
            for f in cc.all_methods().values():
                for node, name, t, how in self_members_used(idx, cc, f):
                    if t is not m or how != "call":
                        continue
                    n += 1
                    ok, why = _ignore_args_validated(f, node, cname)
                    rep.add("C03-5", "%s:%s.%s->%s[%s]" % (cc.module.name, cc.qualname, f.name, m.name, cname), "%s:%d" % (f.module.relpath, node.lineno), ok, why, {"argument": src(node.args[0]) if node.args else ""})
                    # the VALUE of the ignored argument may depend on a setting (read through a property of the object): a validation by shape
                    # does not see that, and the memo is not cleared in evaluation mode
                    dep = _argument_setting(idx, cc, f, node)
                    if dep is not None:
                        key = "%s:%s.%s->%s[%s <- settings.%s]" % (cc.module.name, cc.qualname, f.name, m.name, cname, dep[0])
                        if not any(o.rule == "C03-5" and o.instance == key for o in rep.obligations):
                            n += 1
                            compares_value = any(dep[1] in src(t) for t in ast.walk(f.node) if isinstance(t, ast.Compare))
                            rep.add("C03-5", key, "%s:%d" % (f.module.relpath, node.lineno), compares_value,
                                    "the consumer compares self.%s with the value the entry was computed for" % dep[1] if compares_value else
                                    "the argument `%s` of the argument-ignoring memo '%s' contains self.%s, which reads settings.%s on every call; the entry is validated by shape only and never cleared in evaluation mode: a prediction under settings.%s(v) leaves its factor behind for every later prediction under other values (a fresh model differs)" % (
                                        " ".join(src(node.args[0]).split())[:40] if node.args else "", cname, dep[1], dep[0], dep[0]), {})
    rep.floor("C03-5", "consumers of argument-ignoring memo entries", n, 4)


def _argument_setting(idx: ProgramIndex, cc: ClassInfo, f: FuncInfo, call: ast.Call) -> Optional[Tuple[str, str]]:
    """(setting, property) if the first argument of `call` is computed in f from a property of self that reads a setting"""
    if not call.args:
        return None
    exprs = [call.args[0]]
    seen = set()
    k = 0
    while k < len(exprs) and k < 20:
        e = exprs[k]
        k += 1
        for x in ast.walk(e):
            if isinstance(x, ast.Attribute) and isinstance(x.value, ast.Name) and x.value.id == f.params[0]:
                prop = cc.lookup(x.attr)
                if prop is not None and prop.kind == "property":
                    for c in calls_in(prop.node):
                        sname = setting_name(idx, prop, c)
                        if sname:
                            return sname, x.attr
            if isinstance(x, ast.Name) and x.id not in seen:
                seen.add(x.id)
                for a in ast.walk(f.node):
                    if isinstance(a, ast.Assign) and a.lineno < call.lineno and any(isinstance(t, ast.Name) and t.id == x.id for t in a.targets):
                        exprs.append(a.value)
    return None


def _ignore_args_validated(f: FuncInfo, call: ast.Call, cname: str) -> Tuple[bool, str]:
    if _fresh_after_pop(f, call, cname):
        return True, "recompute branch: directly preceded by pop_from_cache_ignore_args of the same entry"
    # (a) the function clears the whole memo after the use on every path to exit
    assign = None
    for n in ast.walk(f.node):
        if isinstance(n, ast.Assign) and n.value is call and len(n.targets) == 1 and isinstance(n.targets[0], ast.Name):
            assign = n
    if assign is not None:
        v = assign.targets[0].id
        arg = src(call.args[0]) if call.args else None
        for blk in _blocks(f.node):
            if assign in blk:
                i = blk.index(assign)
                for st in blk[i + 1:]:
                    if isinstance(st, ast.If):
                        names = {x.id for x in ast.walk(st.test) if isinstance(x, ast.Name)}
                        if v in names:
                            pops = any(isinstance(c, ast.Call) and (call_name(c) or "").split(".")[-1] == "pop_from_cache_ignore_args" and len(c.args) >= 2 and const_str(c.args[1]) == cname for s2 in st.body for c in ast.walk(s2))
                            reread = any(isinstance(s2, ast.Assign) and any(isinstance(t, ast.Name) and t.id == v for t in s2.targets) and isinstance(s2.value, ast.Call) and src(s2.value.func) == src(call.func) for s2 in st.body)
                            arg_in_test = arg is not None and any(src(x) == arg for x in ast.walk(st.test))
                            if pops and reread and arg_in_test:
                                return True, "hit validated against the current argument (shape test, pop_from_cache_ignore_args, recompute)"
                            return False, "the test following the cached call does not pop '%s' and recompute against the current argument" % cname
                    if any(isinstance(x, ast.Name) and x.id == v and isinstance(x.ctx, ast.Load) for x in ast.walk(st)):
                        break
    # (b) the enclosing code resets the memo afterwards on every path (legacy-update branch of VariationalStrategy.__call__)
    for blk in _blocks(f.node):
        for i, st in enumerate(blk):
            if any(n is call for n in ast.walk(st)):
                if any(_is_clear_call(s2) for s2 in blk[i + 1:]):
                    return True, "the memo is reset (clear_cache_hook/_clear_cache) after this use in the same block"
    return False, "cached value computed from an ignored argument is used without validating it against the current argument"


# ---- C03-6 ---------------------------------------------------------------------------------------------------------
def temp_mutation(idx: ProgramIndex, rep: Report, tier: str):
    """save / mutate / restore of attributes of objects that outlive the call."""
    n = 0
    for fi in idx.all_functions():
        if fi.name == "__init__":
            continue
        saves: Dict[str, Tuple[str, ast.AST]] = {}
        for st in walk_no_nested(fi.node):
            if isinstance(st, ast.Assign) and len(st.targets) == 1 and isinstance(st.targets[0], ast.Name):
                c = chain(st.value)
                if c and c.startswith("self.") and c.count(".") >= 2:
                    saves[st.targets[0].id] = (c, st)
                elif c and c.startswith("self.") and c.count(".") == 1:
                    # own attribute: only the save / None / restore idiom (the object is detached for the duration of a call)
                    nulled = any(isinstance(s2, ast.Assign) and any(src(t) == c for t in s2.targets) and isinstance(s2.value, ast.Constant) and s2.value.value is None for s2 in walk_no_nested(fi.node))
                    restored = any(isinstance(s2, ast.Assign) and any(src(t) == c for t in s2.targets) and src(s2.value) == st.targets[0].id for s2 in walk_no_nested(fi.node))
                    if nulled and restored:
                        saves[st.targets[0].id] = (c, st)
        for local, (attr_chain, save_st) in saves.items():
            # a later store to the same chain of a value that is not the saved local = temporary mutation
            mut = [s for s in walk_no_nested(fi.node) if isinstance(s, ast.Assign) and any(src(t) == attr_chain for t in s.targets) and src(s.value) != local]
            rest = [s for s in walk_no_nested(fi.node) if isinstance(s, ast.Assign) and any(src(t) == attr_chain for t in s.targets) and src(s.value) == local]
            if not mut:
                continue
            n += 1
            inst = "%s:%s:%s" % (fi.module.name, fi.qualname, attr_chain)
            if not rest:
                rep.add("C03-6", inst, "%s:%d" % (fi.module.relpath, mut[0].lineno), False, "%s is overwritten after being saved in `%s` but never restored" % (attr_chain, local), {})
                continue
            ok = _restored_on_all_normal_paths(fi, mut, rest)
            rep.add("C03-6", inst, "%s:%d" % (fi.module.relpath, mut[0].lineno), ok,
                    "temporarily mutated %s is restored from `%s` on every normal path" % (attr_chain, local) if ok else
                    "%s is temporarily overwritten but a normal path leaves the function without restoring it from `%s`" % (attr_chain, local), {})
            # cleared to None around a call: the object is unusable (and gives no error) if the call raises before the restore, so the
            # restore has to sit in a finally block
            cleared = any(isinstance(m_.value, ast.Constant) and m_.value.value is None for m_ in mut)
            if cleared and ok:
                in_finally = all(_in_finally(fi.node, r) for r in rest)
                rep.add("C03-6", inst + "[exceptional]", "%s:%d" % (fi.module.relpath, mut[0].lineno), in_finally,
                        "%s is cleared to None around a call and restored in a finally block" % attr_chain if in_finally else
                        "%s is set to None around a call and restored afterwards, but not in a finally block: when the call raises, the object is left without %s (a model without training data silently predicts its prior, a kernel without active_dims uses all input columns)" % (attr_chain, attr_chain.split(".")[-1]), {})
            elif tier == "thorough":
                in_finally = any(_in_finally(fi.node, r) for r in rest)
                if not in_finally:
                    rep.observe("C03-6", inst + "[exceptional]", "%s:%d" % (fi.module.relpath, mut[0].lineno), "restore is not in a finally block: an exception between mutation and restore leaves %s modified (exceptions thrown by user code are not among the operations the property lists)" % attr_chain)
    rep.floor("C03-6", "save/mutate/restore sites", n, 6)


def _restored_on_all_normal_paths(fi: FuncInfo, mut: List[ast.AST], rest: List[ast.AST]) -> bool:
    mids = {id(m) for m in mut}
    rids = {id(r) for r in rest}
    for p in enumerate_paths(body_without_docstring(fi.node)):
        if p.outcome not in (FALL, RETURN):
            continue
        state = "clean"
        for s in p.steps:
            if s.kind == "stmt":
                if id(s.node) in mids:
                    state = "dirty"
                elif id(s.node) in rids:
                    state = "clean"
        if state == "dirty":
            return False
    return True


def _in_finally(fn: ast.AST, stmt: ast.AST) -> bool:
    for n in ast.walk(fn):
        if isinstance(n, ast.Try):
            for s in n.finalbody:
                if any(x is stmt for x in ast.walk(s)):
                    return True
    return False


# ---- C03-7 ---------------------------------------------------------------------------------------------------------
def memo_primitives(idx: ProgramIndex, rep: Report):
    mod = "gpytorch.utils.memoize"
    mi = idx.module(mod)

    def fn(name):
        return idx.function(mod, name)

    def roles(f: FuncInfo) -> Dict[str, str]:
        """parameter name -> role, by position/kind: (obj, name, [val], *args, kwargs_pkl)"""
        a_ = f.node.args
        pos = [x.arg for x in a_.posonlyargs + a_.args]
        out = {}
        if len(pos) >= 2:
            out[pos[0]], out[pos[1]] = "obj", "name"
        if a_.vararg:
            out[a_.vararg.arg] = "args"
        for x in list(a_.kwonlyargs) + [y for y in a_.posonlyargs + a_.args if y.arg not in out]:
            if "kwargs" in x.arg or "pkl" in x.arg:
                out[x.arg] = "kwargs_pkl"
        if a_.kwarg:
            out[a_.kwarg.arg] = "kwargs"
        return out

    def show_key(e: ast.AST, r: Dict[str, str]) -> str:
        """key expression with parameter names replaced by their roles"""
        if isinstance(e, ast.Name):
            return r.get(e.id, "?" + e.id)
        if isinstance(e, ast.Tuple):
            return "(" + ", ".join(show_key(x, r) for x in e.elts) + ")"
        if isinstance(e, ast.Call) and chain(e.func) == "pickle.dumps" and len(e.args) == 1:
            return "pickle(%s)" % show_key(e.args[0], r)
        return "?" + src(e)

    def key_exprs(f: FuncInfo) -> List[str]:
        out = []
        r = roles(f)
        for n in ast.walk(f.node):
            if isinstance(n, ast.Subscript) and src(n.value).endswith("_memoize_cache"):
                out.append(show_key(n.slice, r))
            if isinstance(n, ast.Compare) and len(n.ops) == 1 and isinstance(n.ops[0], ast.In) and src(n.comparators[0]).endswith("_memoize_cache"):
                out.append(show_key(n.left, r))
        return out

    trip = {n: key_exprs(fn(n)) for n in ("_add_to_cache", "_get_from_cache", "_is_in_cache")}
    want = "(name, args, kwargs_pkl)"
    ok = all(v == [want] for v in trip.values())
    rep.add("C03-7", mod + ":key(args)", fn("_add_to_cache").where, ok, "the three arg-honouring primitives use the identical key %s" % want if ok else "key builders disagree or drop a component: %s" % trip, {"keys": trip})
    trip2 = {n: key_exprs(fn(n)) for n in ("_add_to_cache_ignore_args", "_get_from_cache_ignore_args", "_is_in_cache_ignore_args")}
    ok2 = all(v == ["name"] for v in trip2.values())
    rep.add("C03-7", mod + ":key(ignore_args)", fn("_add_to_cache_ignore_args").where, ok2, "identical key `name`" if ok2 else "ignore-args key builders disagree: %s" % trip2, {"keys": trip2})
    # pop_from_cache pops the same key shape
    pf = fn("pop_from_cache")
    pk = [show_key(c.args[0], roles(pf)) for c in calls_in(pf.node) if (call_name(c) or "").endswith("_memoize_cache.pop") and c.args]
    ok3 = pk == ["(name, args, pickle(kwargs))"]
    rep.add("C03-7", mod + ":pop_from_cache", pf.where, ok3, "pops (name, args, pickled kwargs)" if ok3 else "pop_from_cache key is %s" % pk, {})
    # _cached.g feeds *args and pickled kwargs into all three (decided on inlined definitions)
    from ..symbolic import inline, walk_paths
    g = None
    for n in ast.walk(fn("_cached").node):
        if isinstance(n, ast.FunctionDef) and n is not fn("_cached").node and n.args.vararg and n.args.kwarg:
            g = n
    if g is None:
        raise AnalysisError("anchor vanished: the wrapper function inside _cached")
    gfi = FuncInfo(mi, None, g.name, g)
    va, kw = g.args.vararg.arg, g.args.kwarg.arg
    outer_method = fn("_cached").params[0]
    seen_calls: Dict[str, List[bool]] = {}
    computes = False
    for path, seq in walk_paths(gfi):
        for st, env in seq:
            node = st if isinstance(st, ast.stmt) else st.node  # assume steps carry the test expression
            for c in (x for x in ast.walk(node) if isinstance(x, ast.Call)):
                nm = call_name(c) or ""
                if nm in ("_is_in_cache", "_add_to_cache", "_get_from_cache"):
                    star = any(isinstance(a_, ast.Starred) and src(inline(a_.value, env)) == va for a_ in c.args)
                    pkl = any(k.arg is not None and "pkl" in k.arg and show_key(inline(k.value, env), {kw: "kwargs"}) == "pickle(kwargs)" for k in c.keywords)
                    seen_calls.setdefault(nm, []).append(star and pkl)
                if isinstance(c.func, ast.Name) and c.func.id == outer_method and any(isinstance(a_, ast.Starred) and src(a_.value) == va for a_ in c.args) and any(k.arg is None and src(k.value) == kw for k in c.keywords):
                    computes = True
    okg = all(seen_calls.get(nm) and all(seen_calls[nm]) for nm in ("_is_in_cache", "_add_to_cache", "_get_from_cache"))
    rep.add("C03-7", mod + ":_cached.g", "%s:%d" % (mi.relpath, g.lineno), okg and computes, "args and pickled kwargs enter the key of lookup, store and fetch; the method is evaluated with the same arguments" if okg and computes else "_cached.g does not feed *args/pickled kwargs into lookup, store and fetch (%s)" % {k: v for k, v in seen_calls.items()}, {})
    # clear_cache_hook
    cch = fn("clear_cache_hook")
    first = cch.params[0]
    okc = all_normal_exits_pass(body_without_docstring(cch.node), lambda n: isinstance(n, ast.Assign) and src(n.targets[0]) == "%s._memoize_cache" % first and ((isinstance(n.value, ast.Dict) and not n.value.keys) or (isinstance(n.value, ast.Call) and src(n.value) == "dict()")))
    rep.add("C03-7", mod + ":clear_cache_hook", cch.where, okc, "rebinds the store to an empty dict" if okc else "clear_cache_hook no longer resets the memo store on every path", {})
    # add_to_cache/get_from_cache wrappers forward name,args and pickled kwargs
    for nm, inner in (("add_to_cache", "_add_to_cache"), ("get_from_cache", "_get_from_cache")):
        f = fn(nm)
        c = [c for c in calls_in(f.node) if call_name(c) == inner]
        okw = len(c) == 1 and f.node.args.vararg is not None and f.node.args.kwarg is not None and any(isinstance(a, ast.Starred) and src(a.value) == f.node.args.vararg.arg for a in c[0].args) \
            and any(k.arg is not None and "pkl" in k.arg and show_key(k.value, {f.node.args.kwarg.arg: "kwargs"}) == "pickle(kwargs)" for k in c[0].keywords)
        rep.add("C03-7", mod + ":" + nm, f.where, okw, "forwards *args and pickled kwargs" if okw else "%s does not forward *args and pickled kwargs to %s" % (nm, inner), {})


# ---- positive control ------------------------------------------------------------------------------------------------
def positive_control(idx: ProgramIndex, rep: Report):
    ctl = idx.load_source("gpytorch._verif_control_c03", CONTROL)
    try:
        ck = ctl.classes["ControlKernel"]
        bad = not clears_memo(idx, ck, ck.lookup("_clear_cache"))
        cv = ctl.classes["ControlValidated"]
        m = cv.methods["thing"]
        sites = consumer_sites(idx, cv, "thing")
        unvalidated = [1 for f, r, e in sites if not _validated(idx, f, r, "thing", "ctl2", "fast_pred_samples")]
        if not bad or not unvalidated or "fast_pred_samples" not in setting_reads(idx, m):
            raise AnalysisError("C03: positive control not matched (uncleared memo owner=%s, unvalidated consumers=%d)" % (bad, len(unvalidated)))
        rep.add("C03-1", "positive-control", "<control fragment>", True, "an uncleared @cached on a Module and an unvalidated settings-dependent consumer are both detected in the control fragment", trivial=True)
    finally:
        for k in [k for k in idx.classes if k[0] == "gpytorch._verif_control_c03"]:
            ci = idx.classes.pop(k)
            idx.by_name[ci.name].remove(ci)
        del idx.modules["gpytorch._verif_control_c03"]


# ---- C03-8 ---------------------------------------------------------------------------------------------------------
def state_not_overwritten(idx: ProgramIndex, rep: Report):
    """A cached value (or any tensor the object owns) that is updated in place by a later call makes the next output depend on
    the call history.  Storage/version domain with `self.<attr>` reads typed as object-owned storage, over every method of every
    gpytorch Module, prediction strategy and lazy tensor."""
    from .common_alias import aliasing_obligations
    funcs = []
    gm = gp_module(idx)
    classes = list(idx.subclasses(gm)) + list(idx.subclasses(idx.find_class("DefaultPredictionStrategy"))) + [idx.find_class("LazyEvaluatedKernelTensor")]
    for c in classes:
        if "keops" in c.module.name:
            continue
        for name, m in c.methods.items():
            if name in ("__init__", "initialize", "_apply", "local_load_samples", "__setstate__", "__getstate__") or name.startswith("initialize"):
                continue
            funcs.append(m)
    aliasing_obligations(idx, rep, "C03-8", funcs, 400, "methods interpreted for in-place updates of object-owned tensors", only_state=True)


# ---- C03-9: value-neutral settings are value neutral --------------------------------------------------------------------
def detach_neutral(idx: ProgramIndex, rep: Report, rule: str = "C03-9", only_functions: Optional[Set[str]] = None, floor: int = 8):
    """`detach_test_caches` is listed as value neutral (it is not part of any cache key): that is sound only if every branch on it
    changes nothing but autograd attachment.  For every `if settings.detach_test_caches.on()/off()`: a one-armed branch may only
    re-bind names to their own `.detach()` (or return `x.detach()`); the two arms of a two-armed branch must be equal after
    removing `.detach()` calls."""
    import copy

    class Strip(ast.NodeTransformer):
        def visit_Call(self, n: ast.Call):
            self.generic_visit(n)
            if isinstance(n.func, ast.Attribute) and n.func.attr in ("detach", "detach_") and not n.args and not n.keywords:
                return n.func.value
            return n

    def strip(stmts) -> List[str]:
        out = []
        for st in stmts:
            t = Strip().visit(copy.deepcopy(st))
            # `x = x` left over from `x = x.detach()` is a no-op
            if isinstance(t, ast.Assign) and len(t.targets) == 1 and ast.dump(t.targets[0]).replace("Store()", "Load()") == ast.dump(t.value):
                continue
            out.append(ast.dump(t))
        return out

    n = 0
    for fi in sorted(idx.all_functions(), key=lambda f: (f.module.name, f.qualname)):
        if only_functions is not None and fi.name not in only_functions:
            continue
        k = 0
        for node in ast.walk(fi.node):
            if isinstance(node, ast.IfExp):
                t = node.test
                while isinstance(t, ast.UnaryOp) and isinstance(t.op, ast.Not):
                    t = t.operand
                if isinstance(t, ast.Call) and isinstance(t.func, ast.Attribute) and t.func.attr in ("on", "off") and (chain(t.func.value) or "").endswith("detach_test_caches"):
                    n += 1
                    k += 1
                    a, b = ast.dump(Strip().visit(copy.deepcopy(node.body))), ast.dump(Strip().visit(copy.deepcopy(node.orelse)))
                    ok = a == b
                    rep.add(rule, "%s:%s[detach_test_caches branch %d]" % (fi.module.name, fi.qualname, k), "%s:%d" % (fi.module.relpath, node.lineno), ok,
                            "both arms compute the same values (they differ by .detach() only)" if ok else
                            "the arms of the conditional on detach_test_caches differ by more than .detach(): `%s` vs `%s`" % (" ".join(src(node.body).split())[:60], " ".join(src(node.orelse).split())[:60]), {})
                continue
            if not isinstance(node, ast.If):
                continue
            t = node.test
            while isinstance(t, ast.UnaryOp) and isinstance(t.op, ast.Not):
                t = t.operand
            if not (isinstance(t, ast.Call) and isinstance(t.func, ast.Attribute) and t.func.attr in ("on", "off") and (chain(t.func.value) or "").endswith("detach_test_caches")):
                continue
            n += 1
            k += 1
            a, b = strip(node.body), strip(node.orelse)
            ok = a == b
            rep.add(rule, "%s:%s[detach_test_caches branch %d]" % (fi.module.name, fi.qualname, k), "%s:%d" % (fi.module.relpath, node.lineno), ok,
                    "both arms compute the same values (they differ by .detach() only)" if ok else
                    "the arms of the branch on detach_test_caches differ by more than .detach(): `%s` vs `%s` - the setting is treated as value neutral (no cache is keyed by it), so the cached numbers must not depend on it" % (
                        "; ".join(" ".join(src(s_).split()) for s_ in node.body)[:70], "; ".join(" ".join(src(s_).split()) for s_ in node.orelse)[:70] or "<nothing>"), {})
    rep.floor(rule, "branches on detach_test_caches", n, floor)


# ---- C03-5 (extension): memo entries computed from per-call state recorded on the object ---------------------------------
def per_call_state(idx: ProgramIndex, rep: Report):
    """`self.A = <argument of the call>` in an un-memoised method records per-call state (e.g. `_last_test_train_covar`).  A memo
    entry that is not keyed by that argument may read `self.A` only to pass it on to a method that ignores it; if the resolved
    callee of some concrete class *uses* it, the cached value bakes in properties (values, batch shape) of the call that happened
    to fill the cache."""
    D = idx.find_class("DefaultPredictionStrategy")
    percall: Dict[str, str] = {}
    for cls in idx.subclasses(D):
        for m in cls.methods.values():
            if m.cached_decorator() is not None or m.name == "__init__":
                continue
            for n in ast.walk(m.node):
                if isinstance(n, ast.Assign) and len(n.targets) == 1 and isinstance(n.targets[0], ast.Attribute) and chain(n.targets[0].value) == m.params[0] \
                        and isinstance(n.value, ast.Name) and n.value.id in m.params[1:]:
                    percall[n.targets[0].attr] = "%s.%s" % (cls.qualname, m.name)
    n_sites = 0
    for cls in idx.subclasses(D):
        for name, m in cls.all_methods().items():
            if m.cached_decorator() is None:
                continue
            sn = m.params[0]
            for c in calls_in(m.node):
                for i, a in enumerate(c.args):
                    if not (isinstance(a, ast.Attribute) and chain(a.value) == sn and a.attr in percall):
                        continue
                    n_sites += 1
                    inst = "%s:%s.%s[%s -> %s]" % (cls.module.name, cls.qualname, name, a.attr, src(c.func))
                    if any(o.instance == inst for o in rep.obligations if o.rule == "C03-5"):
                        continue
                    callee = cls.lookup(c.func.attr) if isinstance(c.func, ast.Attribute) and chain(c.func.value) == sn else None
                    if callee is None:
                        rep.add("C03-5", inst, "%s:%d" % (m.module.relpath, c.lineno), False, "per-call state self.%s (recorded by %s) flows into `%s`, which is not a method of the strategy" % (a.attr, percall[a.attr], src(c.func)), {})
                        continue
                    pname = callee.params[1 + i] if 1 + i < len(callee.params) else None
                    used = pname is not None and any(isinstance(x, ast.Name) and x.id == pname and isinstance(x.ctx, ast.Load) for x in ast.walk(callee.node))
                    rep.add("C03-5", inst, "%s:%d" % (m.module.relpath, c.lineno), not used,
                            "per-call state self.%s is passed to %s, which ignores it" % (a.attr, callee.qualname) if not used else
                            "memo entry `%s` of %s is computed from per-call state self.%s (recorded by %s) through %s, which uses it: the cached value keeps properties of the call that filled the cache (e.g. its batch shape)" % (
                                name, cls.qualname, a.attr, percall[a.attr], callee.qualname), {"callee": callee.qualname})
    rep.floor("C03-5", "per-call state reads in memoised methods", n_sites, 2)


# ---- C03-10 --------------------------------------------------------------------------------------------------------
MODULE_SETTING_NEUTRAL = {
    # setting read in kernel / mean / likelihood code -> why it does not change the value of what the prediction caches hold
    "use_toeplitz": "operator representation of the same grid covariance",
    "lazily_evaluate_kernels": "when the kernel is evaluated, not what it evaluates to (the strategy *class* chosen from the representation is an observation below)",
    "checkpoint_kernel": "chunking of the same products (deprecated beta feature)",
    "num_likelihood_samples": "number of Monte-Carlo samples of non-Gaussian likelihoods: not part of any exact prediction cache",
    "observation_nan_policy": "keyed into the mean cache / handled by C16-3 and C16-6",
    "detach_test_caches": "autograd attachment only; that the two branches differ by .detach() alone is C03-9's obligation",
    "debug": "argument checks only",
    "trace_mode": "tracing only",
    "memory_efficient": "storage only",
}


def module_settings_reach_caches(idx: ProgramIndex, rep: Report):
    """The prediction strategies memoise quantities computed from one evaluation of the model's modules (the train/train covariance inside
    train_prior_dist, mean_cache, covar_cache).  A setting that changes what a kernel / mean / noise model *returns* therefore changes
    what those caches should hold: the next prediction under another value of the setting equals that of a fresh model only if the
    owning strategy keys its caches by the setting or re-validates them.  C03-4 follows self-calls from the cached method; this rule
    closes the other route - through the modules the strategy was built from."""
    from . import c16  # policy readers are handled there
    n = 0
    fams = []
    for base in ("Kernel", "Mean", "Likelihood", "Noise"):
        try:
            b = idx.find_class(base)
        except AnalysisError:
            continue
        fams += [b] + list(idx.subclasses(b))
    seen = set()
    strategies = [c for c in idx.package_classes() if c.name.endswith("PredictionStrategy")]
    for cls in fams:
        for mname, fi in sorted(cls.methods.items()):
            if mname.startswith("__") and mname not in ("__call__",):
                continue
            for sname in sorted(setting_reads(idx, fi)):
                base = sname.split(".")[0]
                key = (cls.qualname, mname, sname)
                if key in seen:
                    continue
                seen.add(key)
                n += 1
                inst = "%s:%s.%s<-%s" % (cls.module.name, cls.qualname, mname, sname)
                if base in MODULE_SETTING_NEUTRAL:
                    rep.add("C03-10", inst, fi.where, True, "value-neutral by table: %s" % MODULE_SETTING_NEUTRAL[base], {}, trivial=True)
                    continue
                if base in REGULARISER:
                    rep.add("C03-10", inst, fi.where, True, "regulariser under stated assumption", {}, trivial=True)
                    continue
                # value-changing: which strategy serves this module, and does any of its cached members key / validate by the setting?
                owner = None
                ps = cls.lookup("prediction_strategy")
                if ps is not None:
                    for c in calls_in(ps.node):
                        nm = (chain(c.func) or "").split(".")[-1]
                        owner = next((k for k in strategies if k.name == nm), owner)
                owners = [owner] if owner else [k for k in strategies if k.name == "DefaultPredictionStrategy"]
                handled = False
                for k in owners:
                    for m in k.all_methods().values():
                        keyed = bool(cache_name_of(m)[0]) and sname in _key_settings(idx, k, m)
                        revalidates = sname in setting_reads(idx, m) and any((chain(c.func) or "").split(".")[-1] in ("clear_cache_hook", "_clear_cache", "pop_from_cache", "pop_from_cache_ignore_args") for c in calls_in(m.node))
                        if keyed or revalidates:
                            handled = True
                rep.add("C03-10", inst, fi.where, handled,
                        "the serving strategy keys a cache by settings.%s or re-validates its memo against it" % sname if handled else
                        "settings.%s changes what %s.%s returns, and the result is memoised by %s (train/train covariance inside train_prior_dist, mean_cache, covar_cache) without the setting in any key: after a first evaluation-mode call, calls under the other value of the setting keep the posterior of the first" % (
                            sname, cls.qualname, mname, ", ".join(k.name for k in owners)), {})
    # the strategy object is itself a cache (ExactGP.prediction_strategy, filled at the first evaluation-mode call): the *class* it gets
    # must not depend on a setting either.  The factory dispatches on the representation of the train/train covariance, and whether that
    # is a LazyEvaluatedKernelTensor is decided by settings.lazily_evaluate_kernels inside Kernel.__call__.
    try:
        fac = idx.function(idx.package + ".models.exact_prediction_strategies", "prediction_strategy")
    except AnalysisError:
        fac = None
    if fac is not None:
        n += 1
        by_repr = [c for c in calls_in(fac.node) if chain(c.func) == "isinstance" and len(c.args) == 2 and "LazyEvaluatedKernelTensor" in src(c.args[1])]
        kcall = idx.method(idx.find_class("Kernel"), "__call__", own=True)
        lazy_by_setting = "lazily_evaluate_kernels" in setting_reads(idx, kcall)
        alt = sorted({(chain(a.value) or src(a.value)) for a in ast.walk(fac.node) if isinstance(a, ast.Assign) and len(a.targets) == 1 and isinstance(a.targets[0], ast.Name) and a.targets[0].id == "cls"})
        bad = bool(by_repr) and lazy_by_setting and len(alt) > 1
        rep.add("C03-10", "%s:prediction_strategy[class chosen from the representation]<-lazily_evaluate_kernels" % fac.module.name, fac.where, not bad,
                "the strategy class does not depend on how the covariance happens to be represented" if not bad else
                "the strategy class is chosen by isinstance(train_train_covar, LazyEvaluatedKernelTensor) (%s), and whether the covariance is lazy is decided by settings.lazily_evaluate_kernels at the first evaluation-mode call: the model keeps the strategy of that call (a kernel-specific strategy vs. the default one) for all later calls under the other value of the setting" % " | ".join(alt), {})
    rep.floor("C03-10", "(module method, setting) pairs", n, 6)


# ---- C03-11 --------------------------------------------------------------------------------------------------------
def caches_survive_backward(idx: ProgramIndex, rep: Report):
    """'...and backward passes through non-detached predictions': a cache that keeps the autograd graph of its computation is freed by the
    first backward pass that runs through it; every later prediction that reads the cache then fails to differentiate ('Trying to
    backward through the graph a second time') although a fresh model would.  The library's convention (DefaultPredictionStrategy): a
    cache is stored detached when settings.detach_test_caches is on (the default), otherwise a hook on its grad_fn clears the memo.
    Judged: (a) @cached members of the prediction strategies that the prediction path reads, (b) attribute caches that kernels fill in
    evaluation mode."""
    n = 0

    def honours(fn_node) -> Tuple[bool, str]:
        det_branch = False
        for st in ast.walk(fn_node):
            if isinstance(st, (ast.If, ast.IfExp)) and "detach_test_caches" in src(st.test):
                body = st.body if isinstance(st.body, list) else [st.body]
                if any(isinstance(c, ast.Call) and isinstance(c.func, ast.Attribute) and c.func.attr == "detach" for b in body for c in ast.walk(b)):
                    det_branch = True
        if det_branch:
            return True, "stored detached when settings.detach_test_caches is on"
        if any(isinstance(c, ast.Call) and isinstance(c.func, ast.Attribute) and c.func.attr == "register_hook" for c in ast.walk(fn_node)):
            return True, "a grad_fn hook clears the memo"
        if any(isinstance(w, ast.With) and any("no_grad" in src(i.context_expr) for i in w.items) for w in ast.walk(fn_node)):
            return True, "computed under torch.no_grad()"
        return False, ""

    strategies = [c for c in idx.package_classes() if c.name.endswith("PredictionStrategy")]
    for cls in sorted(strategies, key=lambda c: c.qualname):
        for mname, m in sorted(cls.methods.items()):
            cname, _ig = cache_name_of(m)
            if cname is None:
                continue
            # terminal: read by a method of the hierarchy that is neither cached itself nor builds another strategy
            readers = []
            for k in cls.repo_mro() + [c for c in strategies if c.is_subclass_of(cls)]:
                for f in k.methods.values():
                    if cache_name_of(f)[0] is not None or f.name in ("get_fantasy_strategy", "__init__", "__deepcopy__"):
                        continue
                    if any(isinstance(x, ast.Attribute) and x.attr == mname and chain(x.value) == "self" for x in ast.walk(f.node)):
                        readers.append(f.qualname)
            if not readers:
                continue
            n += 1
            ok, why = honours(m.node)
            if not ok:
                # delegation: the value comes out of another method of self that honours the convention
                for c in calls_in(m.node):
                    if isinstance(c.func, ast.Attribute) and chain(c.func.value) == "self":
                        t = cls.lookup(c.func.attr)
                        if t is not None and t is not m and honours(t.node)[0]:
                            ok, why = True, "value produced by self.%s, which honours the convention" % t.name
            rep.add("C03-11", "%s:%s.%s[%s]" % (cls.module.name, cls.qualname, mname, cname), m.where, ok, why if ok else
                    "the cache '%s' is read by %s and stored with its autograd graph whatever settings.detach_test_caches says: after one backward pass through a prediction, the next prediction that needs a gradient through this cache raises 'Trying to backward through the graph a second time' (a fresh model does not)" % (cname, ", ".join(sorted(set(readers))[:3])), {})
    K = idx.find_class("Kernel")
    for cls in sorted([K] + list(idx.subclasses(K)), key=lambda c: c.qualname):
        for mname, m in sorted(cls.methods.items()):
            for a in ast.walk(m.node):
                if not (isinstance(a, ast.Assign) and len(a.targets) == 1 and isinstance(a.targets[0], ast.Attribute) and chain(a.targets[0].value) == "self" and "cache" in a.targets[0].attr):
                    continue
                guards = [g for g in _enclosing_ifs(m.node, a) if "training" in src(g)]
                if not guards:
                    continue
                n += 1
                v = a.value
                det = (isinstance(v, ast.IfExp) and "detach_test_caches" in src(v.test) and "detach" in src(v.body)) or (isinstance(v, ast.Call) and isinstance(v.func, ast.Attribute) and v.func.attr == "detach") or honours(m.node)[0]
                rep.add("C03-11", "%s:%s.%s[self.%s]" % (cls.module.name, cls.qualname, mname, a.targets[0].attr), "%s:%d" % (m.module.relpath, a.lineno), det,
                        "stored detached when settings.detach_test_caches is on" if det else
                        "the evaluation-mode cache self.%s keeps the autograd graph of `%s`: after one backward pass through a prediction the next differentiated prediction raises 'Trying to backward through the graph a second time'" % (a.targets[0].attr, " ".join(src(v).split())[:40]), {})
    # (c) values PLANTED into those memo entries by other code (fantasy strategies): the entry then never goes through the @cached member
    #     that honours the convention, so the planter has to: graph-free value, or a clear_cache_hook on its grad_fn; for names whose member
    #     only detaches under the setting, a value that is detached under the setting.
    judged = {}
    for cls in strategies:
        for mname, m in cls.methods.items():
            cname, _ig = cache_name_of(m)
            if cname is not None:
                ok_, why_ = honours(m.node)
                if not ok_:
                    for c in calls_in(m.node):
                        if isinstance(c.func, ast.Attribute) and chain(c.func.value) == "self":
                            t = cls.lookup(c.func.attr)
                            if t is not None and t is not m and honours(t.node)[0]:
                                ok_, why_ = True, honours(t.node)[1]
                if ok_:
                    judged.setdefault(cname, set()).add(why_)
    hookers = {f.name for f in idx.all_functions() if f.cls is None and any(isinstance(c, ast.Call) and isinstance(c.func, ast.Attribute) and c.func.attr == "register_hook" for c in ast.walk(f.node))}
    np_ = 0
    for fi in idx.all_functions():
        for c in calls_in(fi.node):
            if not (isinstance(c.func, ast.Name) and c.func.id == "add_to_cache" and len(c.args) >= 3):
                continue
            cname = const_str(c.args[1])
            if cname not in judged:
                continue
            np_ += 1
            v = c.args[2]
            verdict = _planted_value_honours(fi, c, v, hookers)
            needs_hook = any("hook" in w for w in judged[cname])
            ok = verdict in ("hooked", "graph-free") or (verdict == "detached under the setting" and not needs_hook)
            rep.add("C03-11", "%s:%s[plants %s]" % (fi.module.name, fi.qualname, cname), "%s:%d" % (fi.module.relpath, c.lineno), ok,
                    "the planted value is %s" % verdict if ok else
                    "`%s` is planted into the memo entry '%s' %s and without a clear_cache_hook on its grad_fn: the @cached reader registers one, so a model that got this entry planted (a fantasy model) can be back-propagated through once only - the second pass raises 'Trying to backward through the graph a second time', a model built from scratch does not"
                    % (" ".join(src(v).split())[:40], cname, "with its autograd graph" if verdict == "with graph" else "(%s)" % verdict), {})
    rep.floor("C03-11", "planted prediction caches", np_, 4)
    # (d) the memo of the variational strategies is cleared by every training-mode call, but not in evaluation mode: what the evaluation-mode
    #     prediction path (__call__ -> forward) reads from it has to honour the same convention
    VS = idx.find_class("_VariationalStrategy")
    nv = 0
    seen_members = set()
    for cls in sorted([VS] + list(idx.subclasses(VS)), key=lambda c: c.qualname):
        entry = [m for m in (cls.lookup("__call__"), cls.lookup("forward")) if m is not None]
        reach = _reach_outside_init_guards(cls, entry)
        for m in reach:
            cname, _ig = cache_name_of(m)
            if cname is None or m.name in ("amortized_exact_gp", "pseudo_points"):
                continue  # (the fantasy machinery is not on the prediction path)
            key = (m.module.name, m.qualname)
            if key in seen_members:
                continue
            seen_members.add(key)
            nv += 1
            ok, why = honours(m.node)
            if not ok and _built_from_constants(m.node):
                ok, why = True, "built from constant tensors (zeros / ones): there is no autograd graph to keep"
            rep.add("C03-11", "%s:%s[%s, evaluation mode]" % (m.module.name, m.qualname, cname), m.where, ok, why if ok else
                    "the memo entry '%s' is read by the evaluation-mode prediction path and kept with its autograd graph (no detach under settings.detach_test_caches, no clear_cache_hook); the memo is only cleared by training-mode calls: eval() -> predict -> backward -> predict -> backward raises 'Trying to backward through the graph a second time' under the default settings (a fresh model does not)" % cname, {})
    rep.floor("C03-11", "memo entries of the variational strategies on the prediction path", nv, 3)
    rep.floor("C03-11", "evaluation-mode caches on the prediction path", n, 8)


CREATION = {"torch.zeros", "torch.ones", "torch.zeros_like", "torch.ones_like", "torch.eye", "torch.arange", "torch.full", "torch.empty", "torch.tensor"}


def _built_from_constants(fn: ast.AST) -> bool:
    """every returned value is assembled (through constructors) from torch creation functions only"""
    assigns: Dict[str, List[ast.AST]] = {}
    for a in ast.walk(fn):
        if isinstance(a, ast.Assign):
            for t in a.targets:
                if isinstance(t, ast.Name):
                    assigns.setdefault(t.id, []).append(a.value)

    def const(e, depth=0) -> bool:
        if depth > 8:
            return False
        if isinstance(e, ast.Name):
            vs = assigns.get(e.id)
            return bool(vs) and all(const(v, depth + 1) for v in vs)
        if isinstance(e, ast.Call):
            fn_ = chain(e.func) or ""
            if fn_ in CREATION:
                return True
            if fn_ and fn_.split(".")[-1][:1].isupper():
                return all(const(a, depth + 1) for a in e.args) and all(const(k.value, depth + 1) for k in e.keywords)
        return False
    rets = [r.value for r in ast.walk(fn) if isinstance(r, ast.Return) and r.value is not None]
    return bool(rets) and all(const(r) for r in rets)


ONE_TIME_GUARDS = ("variational_params_initialized", "updated_strategy")  # flag buffers: the guarded code runs once per object, not per prediction


def _reach_outside_init_guards(cls: ClassInfo, entry: List[FuncInfo]) -> List[FuncInfo]:
    """methods / properties of self used by the entry points, transitively, not counting uses under a one-time initialisation guard"""
    out: List[FuncInfo] = []
    seen = set()
    work = list(entry)

    def uses(fn_node, me):
        found = []

        def rec(node):
            if isinstance(node, ast.If) and any(g in src(node.test) for g in ONE_TIME_GUARDS):
                for st in node.orelse:
                    rec(st)
                return
            if isinstance(node, ast.Attribute) and isinstance(node.value, ast.Name) and node.value.id == me:
                found.append(node.attr)
            for ch in ast.iter_child_nodes(node):
                rec(ch)
        rec(fn_node)
        return found
    while work:
        f = work.pop()
        if id(f.node) in seen or not f.params:
            continue
        seen.add(id(f.node))
        out.append(f)
        for name in uses(f.node, f.params[0]):
            t = cls.lookup(name)
            if t is not None and id(t.node) not in seen:
                work.append(t)
    return out


def _planted_value_honours(fi: FuncInfo, site: ast.Call, v: ast.AST, hookers: Set[str], depth: int = 0) -> str:
    """'hooked' | 'graph-free' | 'detached under the setting' | 'with graph'"""
    # under torch.no_grad()
    for w in ast.walk(fi.node):
        if isinstance(w, ast.With) and any("no_grad" in src(i.context_expr) for i in w.items) and any(x is site for x in ast.walk(w)):
            return "graph-free"
    while isinstance(v, ast.Call) and isinstance(v.func, ast.Attribute) and v.func.attr in ("to_dense", "squeeze", "unsqueeze", "contiguous", "clone", "view", "reshape", "expand"):
        v = v.func.value
    if isinstance(v, ast.Call) and isinstance(v.func, ast.Attribute) and v.func.attr == "detach":
        return "graph-free"
    if isinstance(v, ast.Call) and isinstance(v.func, ast.Name) and v.func.id in hookers:
        return "hooked"
    if not isinstance(v, ast.Name) or depth > 4:
        return "with graph"
    name = v.id
    # a hook registered on the name
    for c in calls_in(fi.node):
        if isinstance(c.func, ast.Attribute) and c.func.attr == "register_hook" and chain(c.func.value) == "%s.grad_fn" % name:
            return "hooked"
    assigns = [a for a in ast.walk(fi.node) if isinstance(a, ast.Assign) and any(isinstance(t, ast.Name) and t.id == name for t in a.targets) and a.lineno <= site.lineno]
    if not assigns:
        return "with graph"
    verdicts = []
    for a in assigns:
        if isinstance(a.value, ast.Call) and isinstance(a.value.func, ast.Name) and a.value.func.id in hookers:
            return "hooked"
        sub = _planted_value_honours(fi, site, a.value, hookers, depth + 1) if not (isinstance(a.value, ast.Name) and a.value.id == name) else "with graph"
        guards = [g for g in _enclosing_ifs(fi.node, a) if "detach_test_caches" in src(g)]
        verdicts.append((sub, bool(guards)))
    if all(sv == "graph-free" for sv, _g in verdicts):
        return "graph-free"
    if any(sv == "hooked" for sv, _g in verdicts):
        return "hooked"
    if any(sv == "graph-free" and g for sv, g in verdicts):
        return "detached under the setting"
    return "with graph"


def _enclosing_ifs(fn: ast.AST, target: ast.AST) -> List[ast.AST]:
    out: List[ast.AST] = []

    def rec(stmts, acc) -> bool:
        for st in stmts:
            if st is target or any(x is target for x in ast.walk(st)):
                if isinstance(st, ast.If):
                    if rec(st.body, acc + [st.test]) or rec(st.orelse, acc + [st.test]):
                        return True
                for blk in ("body", "orelse", "finalbody"):
                    if not isinstance(st, ast.If) and isinstance(getattr(st, blk, None), list) and rec(getattr(st, blk), acc):
                        return True
                if st is target:
                    out.extend(acc)
                    return True
        return False
    rec(fn.body, [])
    return out


# ---- C03-12 --------------------------------------------------------------------------------------------------------
def memo_keys_agree(idx: ProgramIndex, rep: Report):
    """`add_to_cache(obj, name, value, *args)` plants a value in obj's memo under (name, args, kwargs); a `@cached(name=name)` method
    `m(self, a1, .., ak)` reads (name, (a1, .., ak), kwargs).  A writer that passes fewer (or more) key arguments than the reader takes
    stores an entry that is never read: the carefully updated cache is dropped silently and the reader recomputes from its own
    ingredients - which is precisely what the writer meant to override (fantasy models: incrementally updated mean caches, pseudo-noise
    of the variational fantasy model).  Readers that ignore their arguments (ignore_args=True) are keyed by name only."""
    readers: Dict[str, List[Tuple[ClassInfo, FuncInfo, int, bool]]] = {}
    for c, m, cname, ig in cached_methods(idx):
        readers.setdefault(cname, []).append((c, m, len(m.params) - 1, ig))
    n = 0
    for fi in sorted(idx.all_functions(), key=lambda f: (f.module.name, f.qualname)):
        for c in calls_in(fi.node):
            if (chain(c.func) or "").split(".")[-1] != "add_to_cache" or len(c.args) < 3:
                continue
            nm = const_str(c.args[1])
            if nm is None:
                continue
            nargs = len(c.args) - 3
            if nm not in readers:
                # entries of third-party objects (linear operators' own caches) have no reader in this package
                continue
            n += 1
            # which classes can the object be?  `obj = self.__class__(...)` / `obj = Cls(...)` in this function pins it down (the enclosing
            # class and the sub-classes that inherit this method); otherwise every class that has a reader of this name is a candidate
            cands = []
            o = c.args[0]
            if isinstance(o, ast.Name) and o.id == "self" and fi.cls is not None:
                cands = [fi.cls] + [k for k in idx.subclasses(fi.cls) if k.lookup(fi.name) is fi]
            elif isinstance(o, ast.Name):
                for a in ast.walk(fi.node):
                    if isinstance(a, ast.Assign) and any(isinstance(t, ast.Name) and t.id == o.id for t in a.targets) and isinstance(a.value, ast.Call):
                        f_ = src(a.value.func)
                        if f_ in ("self.__class__", "type(self)") and fi.cls is not None:
                            cands = [fi.cls] + [k for k in idx.subclasses(fi.cls) if k.lookup(fi.name) is fi]
                        else:
                            try:
                                k0 = idx.find_class(f_.split(".")[-1])
                                cands = [k0] + list(idx.subclasses(k0))
                            except AnalysisError:
                                pass
            if not cands:
                # unknown object (e.g. `model.prediction_strategy`, produced by a factory): judged against the base-most classes that
                # have a reader of this name - what the factory returns unless a kernel asks for a specialised sub-class
                allc = sorted({c_ for c_, _m, _k, _ig in readers[nm]}, key=lambda k: k.qualname)
                cands = [k for k in allc if not any(k is not k2 and k.is_subclass_of(k2) for k2 in allc)]
            resolved = []
            for k_ in cands:
                for c_, m_, ar, ig in readers[nm]:
                    if k_ is c_ or (k_.is_subclass_of(c_) and k_.lookup(m_.name) is m_):
                        resolved.append((k_, m_, ar, ig))
            bad = [(k_, m_, ar) for k_, m_, ar, ig in resolved if not ig and ar != nargs]
            ok = bool(resolved) and not bad
            who = ", ".join(sorted({"%s.%s(%d key argument(s))" % (k_.name, m_.name, ar) for k_, m_, ar, ig in resolved}))[:200] if resolved else "no reader"
            if bad:
                who = ", ".join(sorted({"%s.%s(%d key argument(s))" % (k_.name, m_.name, ar) for k_, m_, ar in bad}))[:200]
            import copy as _copy
            anon = _copy.deepcopy(c.args[0])
            for x in ast.walk(anon):
                if isinstance(x, ast.Name) and x.id != "self":
                    x.id = "_"
            rep.add("C03-12", "%s:%s[add_to_cache(%s, '%s', .. %d key args)]" % (fi.module.name, fi.qualname, src(anon), nm, nargs), "%s:%d" % (fi.module.relpath, c.lineno), ok,
                    "stored under the key of its reader (%s)" % who if ok else
                    "the entry '%s' is stored with %d key argument(s) but the reader of an object this can be takes another number (%s): the planted value is never read and the reader recomputes it from its own ingredients" % (nm, nargs, who), {})
    rep.floor("C03-12", "add_to_cache sites with a reader in the package", n, 4)


# ---- C03-13 --------------------------------------------------------------------------------------------------------
def settings_read_at_call_time(idx: ProgramIndex, rep: Report):
    """'...depends only on its current parameters, training data and the settings active at the call': a module that copies the value of a
    setting into an attribute when it is constructed uses that copy for its whole life - a later `with settings.x(v):` around a call has no
    effect on it, and a module built inside a block keeps the block's value after the block has ended."""
    n = 0
    ctl_hit = False
    ctl = idx.load_source("gpytorch._verif_control_c03", "from .module import Module\nfrom . import settings\nclass ControlFrozenSetting(Module):\n    def __init__(self):\n        super().__init__()\n        self.frozen = settings.variational_cholesky_jitter.value(None)\n")
    classes = sorted(set(idx.package_classes()) | set(ctl.classes.values()), key=lambda c: (c.module.name, c.qualname))
    for k in [k for k in idx.classes if k[0] == "gpytorch._verif_control_c03"]:
        ci = idx.classes.pop(k)
        idx.by_name[ci.name].remove(ci)
    del idx.modules["gpytorch._verif_control_c03"]
    for cls in classes:
        init = cls.methods.get("__init__")
        if init is None:
            continue
        n += 1
        for a in ast.walk(init.node):
            if not (isinstance(a, ast.Assign) and any(isinstance(t, ast.Attribute) and chain(t.value) == init.params[0] for t in a.targets)):
                continue
            reads = [c for c in calls_in(a.value) if setting_name(idx, init, c)]
            if not reads:
                continue
            attr = [t.attr for t in a.targets if isinstance(t, ast.Attribute)][0]
            if cls.module.name.endswith("_verif_control_c03"):
                ctl_hit = True
                continue
            sname = setting_name(idx, init, reads[0])
            rep.add("C03-13", "%s:%s.__init__[self.%s <- settings.%s]" % (cls.module.name, cls.qualname, attr, sname), "%s:%d" % (init.module.relpath, a.lineno), False,
                    "the constructor stores the value of settings.%s in self.%s; every sibling reads the setting at call time: a model built inside `with settings.%s(v):` keeps v after the block has ended, and a block around a later call is ignored by this module while the other modules in the same call obey it" % (sname, attr, sname), {})
    if not ctl_hit:
        raise AnalysisError("C03-13: positive control not matched (a constructor that stores a setting value)")
    rep.add("C03-13", "gpytorch:<constructors that store a setting value>", "gpytorch/", True, "%d constructors inspected" % n, {"constructors": n}, trivial=True)
    rep.floor("C03-13", "constructors inspected", n, 100)


# ---- C03-14 --------------------------------------------------------------------------------------------------------
def _no_grad_bodies(fn: ast.AST) -> List[ast.With]:
    return [w for w in ast.walk(fn) if isinstance(w, ast.With) and any(isinstance(i.context_expr, ast.Call) and (chain(i.context_expr.func) or "").endswith("no_grad") for i in w.items)]


def memos_filled_without_graph(idx: ProgramIndex, rep: Report):
    """A `with torch.no_grad():` block in a method of a class with memoised members: every `self.X` read inside the block, followed
    through the members of the concrete class it resolves to (3 levels), that lands on a @cached member fills that member's memo
    entry with a graph-free value if the entry is empty.  That is harmless when the only readers of the member sit inside such
    blocks themselves; it is a history dependence when another method of the class reads the same member outside of no_grad
    (kl_divergence, forward): in evaluation mode nothing clears the memo, so that reader gets the graph-free value from then on."""
    n = 0
    owners = 0
    for base in sorted(idx.package_classes(), key=lambda c: (c.module.name, c.qualname)):
        for mname, m in sorted(base.methods.items()):
            blocks = _no_grad_bodies(m.node)
            if not blocks or not m.params:
                continue
            concretes = [c for c in [base] + list(idx.subclasses(base)) if c.lookup(mname) is m]
            if not any(_cached_member_names(c) for c in concretes):
                continue
            owners += 1
            for cc in sorted(concretes, key=lambda c: (c.module.name, c.qualname)):
                cached_members = _cached_member_names(cc)
                if not cached_members:
                    continue
                # a block that ends by clearing the memo leaves nothing behind
                def cleared_after(w: ast.With) -> bool:
                    clears = [x.lineno for st in w.body for x in ast.walk(st) if _is_clear_call(x)]
                    reads = [x.lineno for st in w.body for x in ast.walk(st) if isinstance(x, ast.Attribute) and chain(x.value) == m.params[0] and isinstance(x.ctx, ast.Load) and x.attr in cached_members]
                    direct = [st for st in w.body if any(_is_clear_call(x) for x in ast.walk(st)) and not isinstance(st, (ast.If, ast.For, ast.While, ast.Try))]
                    return bool(direct) and bool(clears) and max(clears) > max(reads or [0])
                live = [w for w in blocks if not cleared_after(w)]
                in_block = {id(x) for w in live for st in w.body for x in ast.walk(st)}
                # members entered from inside the block
                filled: Dict[str, List[str]] = {}
                seen: Set[str] = set()
                work = []
                for x in ast.walk(m.node):
                    if id(x) in in_block and isinstance(x, ast.Attribute) and chain(x.value) == m.params[0] and isinstance(x.ctx, ast.Load):
                        work.append((x.attr, [mname], 0))
                while work:
                    attr, via, depth = work.pop()
                    f = cc.lookup(attr)
                    if f is None or attr in seen:
                        continue
                    seen.add(attr)
                    if attr in cached_members:
                        filled[attr] = via
                    if depth >= 3 or not f.params:
                        continue
                    for x in ast.walk(f.node):
                        if isinstance(x, ast.Attribute) and chain(x.value) == f.params[0] and isinstance(x.ctx, ast.Load):
                            work.append((x.attr, via + [attr], depth + 1))
                # readers outside of every no_grad block and outside the members entered from one
                for attr, via in sorted(filled.items()):
                    readers = []
                    for oname, om in sorted(cc.all_methods().items()):
                        if not om.params or (oname in seen and oname != mname):
                            continue
                        ng = {id(x) for w in _no_grad_bodies(om.node) for st in w.body for x in ast.walk(st)}
                        if any(isinstance(x, ast.Attribute) and x.attr == attr and chain(x.value) == om.params[0] and isinstance(x.ctx, ast.Load) and id(x) not in ng for x in ast.walk(om.node)):
                            readers.append(oname)
                    n += 1
                    f = cc.lookup(attr)
                    cname, _ig = cache_name_of(f)
                    rep.add("C03-14", "%s:%s.%s[fills '%s' under no_grad]" % (cc.module.name, cc.qualname, mname, cname), m.where, not readers,
                            "the memoised member `%s` (entered through %s) is read by no method outside of no_grad blocks" % (attr, " -> ".join(via)) if not readers else
                            "inside `with torch.no_grad()` %s reads self.%s through %s: if the memo entry '%s' is empty it is filled with a graph-free value, and %s read%s the same entry outside of no_grad - in evaluation mode nothing clears it, so after this call their results carry no gradient w.r.t. what the entry was computed from (until a training-mode call)" % (mname, attr, " -> ".join(via), cname, ", ".join(readers[:4]), "s" if len(readers) == 1 else ""), {"readers": readers, "via": via})
    rep.floor("C03-14", "methods with a no_grad block in classes with memoised members", owners, 1)
    rep.floor("C03-14", "memo entries reachable from a no_grad block", n, 2)
