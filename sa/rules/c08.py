"""C08 - batch mode equals independent replicas (structural clauses).

C08-1  every parameter registered by a Kernel, Mean or noise model is batch-leading (*batch_shape prefix)
C08-2  reductions in the forward code of kernels / means / noise models address axes from the right (negative dims), so a
       leading batch axis can never be reduced
C08-3  list containers route member i <-> argument i (IndependentModelList) and average by len (SumMarginalLogLikelihood)
Does not decide value equality with replicas or torch's broadcasting rules.  (DESIGN.md section 4, C08.)
"""
from __future__ import annotations

import ast
from typing import Dict, List, Optional, Set, Tuple

from ..domains.shapeprefix import registrations
from ..index import (AnalysisError, ClassInfo, FuncInfo, ProgramIndex, body_without_docstring, call_name, calls_in, chain, norm, src, walk_no_nested)
from ..report import Report
from .c12 import list_routing

REDUCTIONS = {"sum", "mean", "prod", "max", "min", "norm", "logsumexp", "std", "var", "amax", "amin", "all", "any", "cumsum", "cumprod", "softmax", "log_softmax", "argmax", "argmin"}
NEEDS_DIM_ALWAYS = {"logsumexp", "cumsum", "cumprod", "softmax", "log_softmax"}

NON_BATCH_PARAMETERS = {
    # (class, parameter) -> reason (parameters that are deliberately not batched)
    ("InducingPointKernel", "inducing_points"): "user supplied m x d (or already batched) tensor; shape unknown statically (C06 known finding K2d covers the indexing consequence)",
}
FULL_REDUCTION_OK = {
    # (function qualname, normalised call) -> reason
}


def run(idx: ProgramIndex, rep: Report, tier: str):
    rep.explanation = (
        "Shape-prefix abstract domain over every parameter registration of Kernel, Mean and noise-model classes (the tensor handed "
        "to register_parameter / torch.nn.Parameter must start with *batch_shape, through locals such as ms_shape); a reduction-axis "
        "lint over the forward code (and module-level helpers) of the same classes: every reduction must name negative dims, so that "
        "a leading batch axis is never reduced, whatever the batch rank; routing analysis of IndependentModelList comprehensions "
        "(member i with argument tuple i) and of SumMarginalLogLikelihood (checked in C02-3). Element-wise equality with replicas "
        "is numerical and not decided.")
    rep.rule("C08-1", "parameters of kernels, means and noise models are registered batch-leading")
    rep.rule("C08-2", "reductions in forward code address axes from the right (negative dims only)")
    rep.rule("C08-3", "IndependentModelList pairs member i with argument i; SumMarginalLogLikelihood averages member MLLs (see C02-3)")
    batch_leading(idx, rep)
    reductions(idx, rep)
    list_routing(idx, rep, "IndependentModelList", "models", "C08-3", 3)
    param_expansion(idx, rep)
    objective_reductions(idx, rep)
    prior_alignment(idx, rep)
    right_alignment(idx, rep)
    no_absolute_rank(idx, rep)
    two_d_primitives_guarded(idx, rep)
    own_leading_shape(idx, rep)
    result_buffers_broadcast(idx, rep)
    sizes_from_the_right(idx, rep)
    event_ranks_agree(idx, rep)
    prior_event_dims(idx, rep)
    prior_matrices(idx, rep)


def _families(idx: ProgramIndex) -> List[ClassInfo]:
    out = []
    for base in ("Kernel", "Mean", "Noise"):
        out += idx.subclasses(idx.find_class(base))
    fg = idx.find_class("FixedGaussianNoise")
    if fg not in out:
        out.append(fg)
    seen, res = set(), []
    for c in out:
        if c.key not in seen and "keops" not in c.module.name:
            seen.add(c.key)
            res.append(c)
    return res


def batch_leading(idx: ProgramIndex, rep: Report):
    n = 0
    for cls in _families(idx):
        for kind, name, m, node, verdict in registrations(idx, cls):
            if kind != "parameter":
                continue
            n += 1
            inst = "%s:%s.%s" % (cls.module.name, cls.qualname, name)
            where = "%s:%d" % (m.module.relpath, node.lineno)
            if verdict == "batch":
                rep.add("C08-1", inst, where, True, "shape starts with *batch_shape", {"verdict": verdict})
            elif (cls.name, name) in NON_BATCH_PARAMETERS or verdict == "unknown":
                rep.observe("C08-1", inst, where, "shape undetermined statically%s" % (": " + NON_BATCH_PARAMETERS[(cls.name, name)] if (cls.name, name) in NON_BATCH_PARAMETERS else ""))
            else:
                rep.add("C08-1", inst, where, False, "parameter `%s` is registered without a *batch_shape prefix: a batch of kernels shares one value (or broadcasting mixes batch elements)" % name, {"verdict": verdict})
    rep.floor("C08-1", "parameter registrations of kernels/means/noise models", n, 28)


def _neg_dim(e: ast.AST, fn: ast.AST) -> Optional[bool]:
    """True: provably negative dims; False: provably non-negative; None: unknown"""
    if isinstance(e, ast.UnaryOp) and isinstance(e.op, ast.USub) and isinstance(e.operand, ast.Constant) and isinstance(e.operand.value, int):
        return True
    if isinstance(e, ast.Constant) and isinstance(e.value, int):
        return e.value < 0
    if isinstance(e, (ast.Tuple, ast.List)):
        vs = [_neg_dim(x, fn) for x in e.elts]
        if all(v is True for v in vs):
            return True
        if any(v is False for v in vs):
            return False
        return None
    if isinstance(e, ast.IfExp):
        a, b = _neg_dim(e.body, fn), _neg_dim(e.orelse, fn)
        if a is True and b is True:
            return True
        if a is False or b is False:
            return False
        return None
    if isinstance(e, ast.Name):
        vals = [n.value for n in ast.walk(fn) if isinstance(n, ast.Assign) and any(isinstance(t, ast.Name) and t.id == e.id for t in n.targets)]
        if vals:
            vs = [_neg_dim(v, fn) for v in vals]
            if all(v is True for v in vs):
                return True
            if any(v is False for v in vs):
                return False
        return None
    if isinstance(e, ast.Call) and chain(e.func) == "list" and e.args and isinstance(e.args[0], ast.Call) and chain(e.args[0].func) == "range":
        r = e.args[0].args
        if len(r) == 3 and _neg_dim(r[0], fn) is True and _neg_dim(r[2], fn) is True:
            return True  # range(-1, -k, -1): negative dims only
    if isinstance(e, ast.BinOp) and isinstance(e.op, ast.Sub) and _neg_dim(e.left, fn) is True and isinstance(e.right, ast.Constant) and isinstance(e.right.value, int) and e.right.value >= 0:
        return True
    return None


def _flattened_2d(recv: ast.AST, fn: ast.AST) -> bool:
    """receiver is (a local bound to) `x.reshape(-1, k)` / `.view(-1, k)` or a cat of such: explicitly 2-D, no batch axis"""
    def is2d(e):
        if isinstance(e, ast.Call) and isinstance(e.func, ast.Attribute) and e.func.attr in ("reshape", "view") and len(e.args) == 2 and src(e.args[0]) == "-1":
            return True
        if isinstance(e, ast.Call) and chain(e.func) == "torch.cat" and e.args and isinstance(e.args[0], (ast.List, ast.Tuple)):
            return all(is2d(x) for x in e.args[0].elts)
        return False
    if is2d(recv):
        return True
    if isinstance(recv, ast.Name):
        vals = [n.value for n in ast.walk(fn) if isinstance(n, ast.Assign) and any(isinstance(t, ast.Name) and t.id == recv.id for t in n.targets)]
        return bool(vals) and all(is2d(v) for v in vals)
    return False


def reductions(idx: ProgramIndex, rep: Report):
    funcs: List[FuncInfo] = []
    mods = set()
    for cls in _families(idx):
        mods.add(cls.module.name)
        for name, m in cls.methods.items():
            if name in ("forward", "_create_input_grid", "_eval_covar_matrix", "_eval_corr_matrix") or name.startswith("_postprocess") or name in ("covar_dist", "embedding", "kappa", "b_k", "cylindrical"):
                funcs.append(m)
    # module-level helpers of the kernel modules (sq_dist, dist, postprocess_*, default_postprocess_script ...)
    for mn in sorted(mods):
        mi = idx.module(mn)
        for f in mi.functions.values():
            funcs.append(f)
    n = 0
    seen = set()
    for f in funcs:
        if id(f.node) in seen:
            continue
        seen.add(id(f.node))
        for c in ast.walk(f.node):
            if not isinstance(c, ast.Call):
                continue
            meth, recv, args = None, None, None
            if isinstance(c.func, ast.Attribute) and c.func.attr in REDUCTIONS:
                base = chain(c.func.value)
                if base in ("torch", "torch.linalg", "math", "np", "numpy"):
                    meth, recv, args = c.func.attr, (c.args[0] if c.args else None), list(c.args[1:])
                    if base in ("math", "np", "numpy"):
                        continue
                    if meth in ("max", "min") and len(c.args) == 2 and not any(k.arg == "dim" for k in c.keywords):
                        continue  # elementwise torch.max(a, b)
                else:
                    meth, recv, args = c.func.attr, c.func.value, list(c.args)
            if meth is None:
                continue
            # python builtins on lists / generator (sum(...), any(...)) are Name calls: not matched here
            n += 1
            dim = None
            for k in c.keywords:
                if k.arg in ("dim", "axis", "dims"):
                    dim = k.value
            if dim is None and args:
                # first positional is dim for sum/mean/prod/...; for norm it is p
                if meth == "norm" and len(args) >= 2:
                    dim = args[1]
                elif meth != "norm":
                    dim = args[0]
            inst = "%s:%s:%s" % (f.module.name, f.qualname, norm(c)[:80])
            where = "%s:%d" % (f.module.relpath, c.lineno)
            if dim is None:
                if recv is not None and _flattened_2d(recv, f.node):
                    rep.add("C08-2", inst, where, True, "full reduction of an explicitly flattened 2-D tensor (no batch axis)", {})
                elif meth in ("all", "any") or isinstance(recv, ast.Compare):
                    rep.add("C08-2", inst, where, True, "boolean test over all elements (validation, not a value)", {}, trivial=True)
                elif (f.qualname, norm(c)) in FULL_REDUCTION_OK:
                    rep.add("C08-2", inst, where, True, "by table: " + FULL_REDUCTION_OK[(f.qualname, norm(c))], {}, trivial=True)
                else:
                    rep.add("C08-2", inst, where, False, "`%s` reduces over *all* axes, including any batch axis: batch elements are mixed" % norm(c)[:70], {})
                continue
            v = _neg_dim(dim, f.node)
            if v is True:
                rep.add("C08-2", inst, where, True, "reduces over dim %s (counted from the right)" % src(dim), {"dim": src(dim)})
            elif v is False:
                if recv is not None and _flattened_2d(recv, f.node):
                    rep.add("C08-2", inst, where, True, "dim %s of an explicitly flattened 2-D tensor" % src(dim), {})
                else:
                    rep.add("C08-2", inst, where, False, "`%s` reduces over the non-negative dim %s: with a batch shape this is a batch axis" % (norm(c)[:70], src(dim)), {})
            else:
                rep.observe("C08-2", inst, where, "dim `%s` is not a literal: undetermined" % src(dim))
    rep.floor("C08-2", "reductions inspected", n, 25)


# ---- C08-4: a batched parameter is broadcast against the data, never expanded to the data's shape alone -------------------
def param_expansion(idx: ProgramIndex, rep: Report):
    """"including when data or parameters are broadcast against each other": `P.expand(S)` with P derived from a parameter and S
    derived from the data only fixes the output batch shape to the data's - it raises (or, with size-1 parameter batches, silently
    drops the parameter batch) when the parameter batch is larger.  S must be built from both batch shapes: torch.broadcast_shapes,
    the shape of a value that already is the broadcast result, self.batch_shape, or P's own shape.  Decided on inlined expressions
    in the forward methods of means, kernels and noise models."""
    from ..symbolic import inline, walk_paths
    rep.rule("C08-4", "in forward code a parameter is expanded to a shape built from the parameter's and the data's batch shapes (broadcast), never from the data's shape alone")
    n = 0
    targets = []
    for cls in _families(idx):
        if cls.methods.get("forward") is not None:
            targets.append((cls, cls.methods["forward"]))
    # likelihoods shape their noise in _shaped_noise_covar(base_shape, ...): the shape argument plays the role of the data
    for cls in idx.subclasses(idx.find_class("_GaussianLikelihoodBase")) + idx.subclasses(idx.find_class("_MultitaskGaussianLikelihoodBase")):
        m = cls.methods.get("_shaped_noise_covar")
        if m is not None and (cls, m) not in targets:
            targets.append((cls, m))
    for cls, fi in targets:
        if not fi.params:
            continue
        sn = fi.params[0]
        data_params = set(fi.params[1:])
        # batch-leading registrations of the class, its bases and its subclasses (a base-class method may read what a subclass registers)
        regs = set()
        for k in list(cls.repo_mro()) + list(idx.subclasses(cls)):
            regs |= {name for kind, name, m, node, verdict in registrations(idx, k) if name.isidentifier() and verdict == "batch"}
        # constrained views of batched raw parameters (self.noise for raw_noise, ...)
        props = {nm for k in list(cls.repo_mro()) + list(idx.subclasses(cls)) for nm, m in k.all_methods().items() if m.kind == "property" and ("raw_" + nm) in regs}
        if not any(isinstance(c, ast.Call) and isinstance(c.func, ast.Attribute) and c.func.attr in ("expand", "expand_as") for c in ast.walk(fi.node)):
            continue
        seen = set()
        for path, seq in walk_paths(fi):
            for st, env in seq:
                if not isinstance(st, ast.stmt):
                    continue
                for c in (x for x in ast.walk(st) if isinstance(x, ast.Call)):
                    if not (isinstance(c.func, ast.Attribute) and c.func.attr in ("expand", "expand_as") and c.args):
                        continue
                    recv = inline(c.func.value, env)
                    shape_args = [inline(a.value if isinstance(a, ast.Starred) else a, env) for a in c.args]

                    def self_attrs(e):
                        return {x.attr for x in ast.walk(e) if isinstance(x, ast.Attribute) and isinstance(x.value, ast.Name) and x.value.id == sn}
                    pattrs = self_attrs(recv) & (regs | props | {"raw_" + r for r in regs})
                    def value_nodes(e):
                            """sub-expressions that contribute to the value / shape (dtype= and device= arguments, .to(...) arguments do not)"""
                            yield e
                            if isinstance(e, ast.Call):
                                yield from value_nodes(e.func)
                                if isinstance(e.func, ast.Attribute) and e.func.attr in ("to", "type", "type_as"):
                                    return
                                for a_ in e.args:
                                    yield from value_nodes(a_)
                                for k_ in e.keywords:
                                    if k_.arg not in ("dtype", "device"):
                                        yield from value_nodes(k_.value)
                                return
                            for ch in ast.iter_child_nodes(e):
                                yield from value_nodes(ch)
                    if not pattrs or any(isinstance(x, ast.Name) and x.id in data_params for x in value_nodes(recv)):
                        continue  # the expanded tensor is not a pure parameter value
                    key = (c.lineno, c.col_offset)
                    if key in seen:
                        continue
                    seen.add(key)
                    n += 1
                    from_data = any(isinstance(x, ast.Name) and x.id in data_params for a in shape_args for x in ast.walk(a))
                    def covers_param_batch(a) -> bool:
                        """does the shape expression involve the *batch* part of a parameter-derived value's shape?"""
                        for x in ast.walk(a):
                            if isinstance(x, ast.Call) and (chain(x.func) or "").endswith("broadcast_shapes"):
                                # a broadcast of data shapes alone says nothing about the parameter: one operand must be parameter-derived
                                if any(self_attrs(a_) or any(isinstance(y, ast.Name) and y.id == sn for y in ast.walk(a_)) for a_ in x.args):
                                    return True
                                continue
                            if isinstance(x, ast.Attribute) and x.attr == "batch_shape" and (self_attrs(x.value) or chain(x.value) == sn):
                                return True
                            if isinstance(x, ast.Attribute) and x.attr == "shape" and self_attrs(x.value):
                                # X.shape used whole or sliced from the front (X.shape[:-k]); X.shape[-k:] / X.shape[-1] are event sizes
                                par = parents.get(id(x))
                                if isinstance(par, ast.Subscript) and par.value is x:
                                    sl = par.slice
                                    if isinstance(sl, ast.Slice) and sl.lower is None:
                                        return True
                                    continue
                                return True
                        return False
                    parents = {}
                    for a in shape_args:
                        for x in ast.walk(a):
                            for ch in ast.iter_child_nodes(x):
                                parents[id(ch)] = x
                    from_param = any(covers_param_batch(a) for a in shape_args)
                    # a value computed from both (e.g. `res = x @ self.weights`) carries the broadcast shape
                    inst = "%s:%s.%s:%s.expand" % (cls.module.name, cls.qualname, fi.name, "/".join(sorted(pattrs)))
                    where = "%s:%d" % (fi.module.relpath, c.lineno)
                    ok = not from_data or from_param
                    rep.add("C08-4", inst, where, ok,
                            "expanded to a shape that involves the parameter's own batch shape (broadcast)" if ok else
                            "`%s` expands the parameter to a shape taken from the data alone: a parameter batch that is larger than (or broadcast against a size-1 dimension of) the data batch raises or is dropped instead of producing the broadcast batch" % " ".join(src(c).split())[:80], {})
    rep.floor("C08-4", "expansions of parameters in forward code", n, 4)


# ---- C08-5: objective terms keep the batch axes -----------------------------------------------------------------------------
def objective_reductions(idx: ProgramIndex, rep: Report):
    """Element b of a batched MLL / ELBO must be the value of replica b: every tensor reduction in the objective code names the
    axes it reduces (data, event or sample axes); a reduction over *all* axes (`.sum()` / `.mean()` without dim) folds the batch
    axes in, so every batch element receives the total of all elements."""
    rep.rule("C08-5", "reductions in the objective code (MLL classes, added-loss terms) name their axes: no all-axes sum/mean of a term that enters the per-batch-element objective")
    bases = [idx.find_class("MarginalLogLikelihood")]
    try:
        bases.append(idx.find_class("AddedLossTerm"))
    except AnalysisError:
        pass
    GLOBAL_TERMS = {
        # (class, method) -> reason: a term that is one scalar for the whole model by design
        ("KLGaussianAddedLossTerm", "loss"): "GPLVM latent KL: one scalar for the whole model; it is divided by data_dim because the ELBO adds it to every output dimension",
    }
    n = 0
    for base in bases:
        for cls in idx.subclasses(base):
            for name, fi in sorted(cls.methods.items()):
                if (cls.name, name) in GLOBAL_TERMS:
                    rep.observe("C08-5", "%s:%s.%s" % (cls.module.name, cls.qualname, name), fi.where, "global term by table: %s" % GLOBAL_TERMS[(cls.name, name)])
                    continue
                for c in calls_in(fi.node):
                    if not (isinstance(c.func, ast.Attribute) and c.func.attr in ("sum", "mean", "prod", "logsumexp")):
                        continue
                    if chain(c.func.value) in ("torch", "math"):
                        continue
                    n += 1
                    has_dim = bool(c.args) or any(k.arg in ("dim", "axis") for k in c.keywords)
                    import copy as _copy
                    anon = _copy.deepcopy(c)
                    for x in ast.walk(anon):
                        if isinstance(x, ast.Name) and x.id not in ("self", "torch"):
                            x.id = "_"  # local names are not part of the instance key
                    inst = "%s:%s.%s[%s]" % (cls.module.name, cls.qualname, name, norm(anon)[:60])
                    rep.add("C08-5", inst, "%s:%d" % (fi.module.relpath, c.lineno), has_dim,
                            "reduces named axes" if has_dim else
                            "`%s` reduces over every axis, including the batch axes: each element of a batched objective receives the total over all batch elements instead of its own term" % " ".join(src(c).split())[:70], {})
    rep.floor("C08-5", "reductions in objective code", n, 8)


# ---- C08-6 ---------------------------------------------------------------------------------------------------------
def prior_alignment(idx: ProgramIndex, rep: Report):
    """A hyper-prior term has shape  <parameter batch shape> x <parameter event dims>; the objective has the (broadcast) batch shape of
    data and parameters.  Batch shapes broadcast from the right, so the term must be reduced over the parameter's own event dims and
    then added with right-aligned broadcasting.  Splitting the term's dims by the objective's *rank* (`t.view(*t.shape[:res.ndim], -1)`)
    pairs the leading dims of the term with the leading dims of the objective: when the data batch has a higher rank than the
    parameter batch, event dims are taken for batch dims (or the parameter batch is paired with the wrong batch axis)."""
    rep.rule("C08-6", "hyper-prior terms are reduced over the parameter's own event dims and right-aligned with the objective's batch shape (never split by the objective's rank)")
    base = idx.find_class("MarginalLogLikelihood")
    n = 0
    from ..symbolic import inline, walk_paths
    for cls in [base] + list(idx.subclasses(base)):
        for name, fi in sorted(cls.methods.items()):
            if not any(isinstance(c.func, ast.Attribute) and c.func.attr == "named_priors" for c in calls_in(fi.node)):
                continue
            seen = set()
            for path, seq in walk_paths(fi):
                for st, env in seq:
                    if not isinstance(st, ast.stmt):
                        continue
                    for c in (x for x in ast.walk(st) if isinstance(x, ast.Call) and isinstance(x.func, ast.Attribute) and x.func.attr == "log_prob"):
                        key = (c.lineno, c.col_offset)
                        if key in seen:
                            continue
                        seen.add(key)
                        n += 1
                        # how is the term consumed?  look at the statements of this function that mention the bound name / the call
                        tgt = None
                        if isinstance(st, ast.Assign) and len(st.targets) == 1 and isinstance(st.targets[0], ast.Name) and any(x is c for x in ast.walk(st.value)):
                            tgt = st.targets[0].id
                        probs = []
                        for st2 in ast.walk(fi.node):
                            if not isinstance(st2, ast.Call) or not isinstance(st2.func, ast.Attribute) or st2.func.attr not in ("view", "reshape"):
                                continue
                            recv = st2.func.value
                            if not ((tgt and isinstance(recv, ast.Name) and recv.id == tgt) or any(x is c for x in ast.walk(recv))):
                                continue
                            for a in st2.args:
                                if isinstance(a, ast.Starred) and isinstance(a.value, ast.Subscript) and isinstance(a.value.slice, ast.Slice) and a.value.slice.lower is None and a.value.slice.upper is not None:
                                    up = inline(a.value.slice.upper, env) if isinstance(a.value.slice.upper, ast.Name) and a.value.slice.upper.id in env else a.value.slice.upper
                                    ups = src(up)
                                    if isinstance(a.value.slice.upper, ast.Name):
                                        # resolve a local bound anywhere in the function
                                        for b in ast.walk(fi.node):
                                            if isinstance(b, ast.Assign) and len(b.targets) == 1 and isinstance(b.targets[0], ast.Name) and b.targets[0].id == a.value.slice.upper.id:
                                                ups = src(b.value)
                                    if any(k in ups for k in (".ndim", ".dim()", "len(")) and not any(k in ups for k in ("batch_shape",)):
                                        probs.append("the prior term is split with `%s` where the bound is `%s` (the objective's rank): its leading dims are paired with the objective's leading dims, so with a data batch of higher rank than the parameter batch event dims are read as batch dims" % (" ".join(src(st2).split())[:60], ups[:30]))
                        inst = "%s:%s.%s[prior term]" % (cls.module.name, cls.qualname, name)
                        rep.add("C08-6", inst, "%s:%d" % (fi.module.relpath, c.lineno), not probs,
                                "the prior term is not re-shaped by the objective's rank" if not probs else "; ".join(sorted(set(probs))), {})
    rep.floor("C08-6", "hyper-prior terms in objective code", n, 2)


# ---- C08-7 ---------------------------------------------------------------------------------------------------------
def right_alignment(idx: ProgramIndex, rep: Report):
    """Parameters and data meet by broadcasting, which aligns batch dimensions from the right.  Two idioms break that alignment:
    (i) tiling a parameter-derived value with `.repeat(*<data>.shape[:-2], 1, 1)` - its own batch dimensions are multiplied by the
    data's instead of being broadcast against them; (ii) giving a parameter as many trailing singleton dimensions as the *data's rank*
    says (`for _ in range(len(d.shape) - len(self.batch_shape)): p = p.unsqueeze(-1)`) - the number of trailing (event) dimensions is
    fixed by the operation (n x m, or n for diag); taken from the data's rank it also swallows data batch dimensions, so the
    parameter's batch dimensions line up with the leading data batch dimensions instead of the trailing ones."""
    rep.rule("C08-7", "parameter-derived values meet the data by right-aligned broadcasting: no tiling by the data's batch shape, no singleton count taken from the data's rank")
    n = 0
    for cls in _families(idx):
        fi = cls.methods.get("forward")
        if fi is None or not fi.params:
            continue
        sn = fi.params[0]
        # the tensors of the call: positional parameters without a default (flags such as diag / last_dim_is_batch and **params are not data)
        a_ = fi.node.args
        npos = len(a_.args) - len(a_.defaults)
        data = {x.arg for x in a_.args[1:npos]} | ({a_.vararg.arg} if a_.vararg else set())
        n += 1
        probs = []
        # local aliases: name -> expression (flow-insensitive closure, good enough to tell parameter-derived from data-derived)
        binds = {}
        for a in ast.walk(fi.node):
            if isinstance(a, ast.Assign) and len(a.targets) == 1 and isinstance(a.targets[0], ast.Name):
                binds.setdefault(a.targets[0].id, []).append(a.value)
            if isinstance(a, (ast.FunctionDef,)) and a is not fi.node:
                for p_ in a.args.args:
                    data.add(p_.arg)  # parameters of local helpers receive data-shaped values (distances)

        def derives(e, want, depth=0, seen=None, skip=None, before=None) -> bool:
            """flow-insensitive def-use closure, restricted to bindings textually before line `before` (when given)"""
            seen = seen or set()
            for x in ast.walk(e):
                if want == "param" and isinstance(x, ast.Attribute) and isinstance(x.value, ast.Name) and x.value.id == sn:
                    return True
                if want == "data" and isinstance(x, ast.Name) and x.id in data:
                    return True
                if isinstance(x, ast.Name) and x.id in binds and x.id not in seen and depth < 6:
                    seen.add(x.id)
                    if any(derives(v, want, depth + 1, seen, skip, before) for v in binds[x.id] if v is not skip and (before is None or getattr(v, "lineno", 0) < before)):
                        return True
            return False

        for c in (x for x in ast.walk(fi.node) if isinstance(x, ast.Call) and isinstance(x.func, ast.Attribute) and x.func.attr == "repeat"):
            recv = c.func.value
            if not derives(recv, "param", skip=c, before=c.lineno + 1) or derives(recv, "data", skip=c, before=c.lineno + 1):
                continue
            for a in c.args:
                if isinstance(a, ast.Starred) and isinstance(a.value, ast.Subscript) and isinstance(a.value.value, ast.Attribute) and a.value.value.attr == "shape" \
                   and isinstance(a.value.slice, ast.Slice) and a.value.slice.lower is None and \
                   ((isinstance(a.value.value.value, ast.Name) and a.value.value.value.id in data) or (derives(a.value.value.value, "data") and not derives(a.value.value.value, "param"))):
                    probs.append("`%s` (line %d) tiles a parameter-derived value by the data's batch shape: a batched parameter gets its batch dimensions multiplied (b -> b*b) instead of broadcast" % (" ".join(src(c).split())[:70], c.lineno))
        for loop in (x for x in ast.walk(fi.node) if isinstance(x, ast.For)):
            if not (isinstance(loop.iter, ast.Call) and chain(loop.iter.func) == "range"):
                continue
            uns = [b_ for b_ in loop.body if isinstance(b_, ast.Assign) and isinstance(b_.value, ast.Call) and isinstance(b_.value.func, ast.Attribute) and b_.value.func.attr == "unsqueeze"
                   and len(b_.targets) == 1 and isinstance(b_.targets[0], ast.Name) and isinstance(b_.value.func.value, ast.Name) and b_.value.func.value.id == b_.targets[0].id]
            if not uns:
                continue
            v = uns[0].targets[0].id
            if not derives(ast.Name(id=v, ctx=ast.Load()), "param"):
                continue
            rank_of_data = any((isinstance(x, ast.Call) and chain(x.func) == "len" and x.args and derives(x.args[0], "data") and not derives(x.args[0], "param")) or
                               (isinstance(x, ast.Call) and isinstance(x.func, ast.Attribute) and x.func.attr in ("dim", "ndimension") and derives(x.func.value, "data") and not derives(x.func.value, "param"))
                               for a in loop.iter.args for x in ast.walk(a))
            if rank_of_data:
                probs.append("`%s` gets `%s` trailing singleton dimensions (line %d): the count follows the data's rank, so with more data batch dimensions than parameter batch dimensions the parameter lines up with the leading data batch dimensions" % (v, " ".join(src(loop.iter).split())[:60], loop.lineno))
        rep.add("C08-7", "%s:%s.forward" % (cls.module.name, cls.qualname), fi.where, not probs,
                "no tiling by the data's batch shape, no rank-derived singleton counts" if not probs else "; ".join(probs), {})
    rep.floor("C08-7", "forward methods of means, kernels and noise models", n, 42)


# ---- C08-8 ---------------------------------------------------------------------------------------------------------
def no_absolute_rank(idx: ProgramIndex, rep: Report):
    """Batch shapes are arbitrary, so a tensor with batch dimensions has no fixed rank.  A branch that fires when the rank *equals* a
    literal >= 3 ("a 4-d cache must be the f x 1 x b x n of a fantasy model") singles out one batch layout by coincidence and does to
    every other tensor of that rank what was meant for that layout (e.g. squeezes away a legitimate singleton batch dimension).
    Ranks 1 and 2 are the un-batched vector / matrix cases and are legitimate to test."""
    rep.rule("C08-8", "no behaviour keyed on an absolute tensor rank >= 3 (batch shapes are arbitrary; such a test singles out one batch layout by coincidence)")
    n = 0
    sites = 0
    for fi in sorted(idx.all_functions(), key=lambda f: (f.module.name, f.qualname)):
        tests = []
        for node in ast.walk(fi.node):
            if isinstance(node, (ast.If, ast.IfExp, ast.While)):
                for c in ast.walk(node.test):
                    if isinstance(c, ast.Compare) and len(c.ops) == 1 and isinstance(c.ops[0], (ast.Eq,)) and len(c.comparators) == 1:
                        l, r = c.left, c.comparators[0]
                        for a, b in ((l, r), (r, l)):
                            is_rank = (isinstance(a, ast.Call) and chain(a.func) == "len" and a.args and isinstance(a.args[0], ast.Attribute) and a.args[0].attr == "shape") or \
                                      (isinstance(a, ast.Call) and isinstance(a.func, ast.Attribute) and a.func.attr in ("dim", "ndimension") and not a.args) or \
                                      (isinstance(a, ast.Attribute) and a.attr == "ndim")
                            if is_rank:
                                n += 1
                                if isinstance(b, ast.Constant) and isinstance(b.value, int) and b.value >= 3:
                                    tests.append((node, c, b.value))
        for node, c, k in tests:
            sites += 1
            body = node.body if isinstance(node.body, list) else [node.body]
            acts = sorted({x.func.attr for b_ in body for x in ast.walk(b_) if isinstance(x, ast.Call) and isinstance(x.func, ast.Attribute) and x.func.attr in ("squeeze", "unsqueeze", "view", "reshape", "transpose", "permute", "select", "expand", "repeat", "sum", "mean")})
            rep.add("C08-8", "%s:%s[rank == %d]" % (fi.module.name, fi.qualname, k), "%s:%d" % (fi.module.relpath, c.lineno), False,
                    "`%s` selects tensors of rank exactly %d and applies %s to them: every other batch layout that happens to have this rank (e.g. a model batch shape with a singleton dimension) is treated like the one the test was written for" % (
                        " ".join(src(c).split())[:50], k, "/".join(acts) or "a special case"), {})
    if sites == 0:
        rep.add("C08-8", "package[no absolute rank tests]", "gpytorch/", True, "%d rank comparisons, none against a literal >= 3" % n, {})
    rep.floor("C08-8", "rank comparisons", n, 20)


# ---- C08-9 ---------------------------------------------------------------------------------------------------------
STRICTLY_2D = {"torch.addmm": 3, "torch.mm": 2, "torch.mv": 2, "torch.addmv": 3}


def two_d_primitives_guarded(idx: ProgramIndex, rep: Report):
    """torch.addmm / mm / mv accept 2-d (1-d) tensors only.  In batch-capable code such a fast path is legitimate behind a rank test - of
    *every* tensor operand: any of them may be the one that carries a batch dimension (the test/test covariance can be un-batched while
    the solve against a batched mean or noise is not).  Sibling evidence: PolynomialKernel guards all three operands."""
    rep.rule("C08-9", "strictly 2-d primitives (torch.addmm / mm / mv / addmv) sit behind a rank-2 test of every tensor operand")
    n = 0
    for fi in sorted(idx.all_functions(), key=lambda f: (f.module.name, f.qualname)):
        for c in calls_in(fi.node):
            fn = chain(c.func) or ""
            if fn not in STRICTLY_2D:
                continue
            n += 1
            ops = c.args[:STRICTLY_2D[fn]]
            bases = []
            for o in ops:
                b = o
                while isinstance(b, (ast.Call, ast.Attribute, ast.Subscript)):
                    b = b.func.value if isinstance(b, ast.Call) and isinstance(b.func, ast.Attribute) else (b.value if not isinstance(b, ast.Call) else (b.args[0] if b.args else b.func))
                bases.append(b.id if isinstance(b, ast.Name) else src(o))
            guards = _enclosing_tests_c08(fi.node, c)
            gtxt = " and ".join(src(g) for g in guards)
            missing = []
            for b in bases:
                ok = any(("%s.dim() == 2" % b) in gtxt or ("%s.ndimension() == 2" % b) in gtxt or ("len(%s.shape) == 2" % b) in gtxt or ("%s.ndim == 2" % b) in gtxt for _ in [0])
                if not ok:
                    missing.append(b)
            rep.add("C08-9", "%s:%s[%s]" % (fi.module.name, fi.qualname, fn), "%s:%d" % (fi.module.relpath, c.lineno), not missing,
                    "every operand (%s) is tested to be 2-d" % ", ".join(bases) if not missing else
                    "`%s(...)` is reached after a rank test of %s only; %s may carry batch dimensions (a batched mean or noise with an un-batched kernel): the call raises 'mat2 must be a matrix'" % (
                        fn, ", ".join(b for b in bases if b not in missing) or "no operand", ", ".join(missing)), {"guards": gtxt[:200]})
    rep.floor("C08-9", "strictly 2-d primitives", n, 2)


def _enclosing_tests_c08(fn: ast.AST, target: ast.AST):
    out = []

    def rec(stmts, acc) -> bool:
        for st in stmts:
            if any(x is target for x in ast.walk(st)):
                if isinstance(st, ast.If):
                    if any(x is target for b in st.body for x in ast.walk(b)):
                        return rec(st.body, acc + [st.test])
                    if any(x is target for b in st.orelse for x in ast.walk(b)):
                        return rec(st.orelse, acc)
                for blk in ("body", "orelse", "finalbody"):
                    v = getattr(st, blk, None)
                    if not isinstance(st, ast.If) and isinstance(v, list) and any(x is target for b in v for x in ast.walk(b)):
                        return rec(v, acc)
                out.extend(acc)
                return True
        return False
    rec(fn.body, [])
    return out


# ---- C08-10 --------------------------------------------------------------------------------------------------------
def own_leading_shape(idx: ProgramIndex, rep: Report):
    """`v.view(*B, ...)` keeps the values and re-labels the dimensions; it is the identity on the leading dimensions exactly when B is the
    leading shape of v itself.  In the prediction / fantasy code the batch shape of a value is the *broadcast* of the batch shapes of
    everything it was computed from (inputs, hyper-parameters, targets, noise); taking B from one other tensor (`train_inputs[0].shape[:-2]`,
    the joint prior's batch_shape) is right only while that tensor happens to carry the full batch - shared inputs under batched
    hyper-parameters, or a batch that only the targets / the noise carry, raise 'shape is invalid for input of size'.  Judged in the
    modules that assemble predictions (models/, mlls/): B must be a slice of v's own shape, or come from broadcast_shapes."""
    rep.rule("C08-10", "in prediction / objective code a value is re-shaped with its own leading shape (or a broadcast shape), never with the batch shape of some other tensor")
    from ..symbolic import inline, walk_paths
    n = 0
    for fi in sorted(idx.all_functions(), key=lambda f: (f.module.name, f.qualname)):
        if not (fi.module.name.startswith(idx.package + ".models.exact") or fi.module.name.startswith(idx.package + ".mlls")):
            continue
        if not any(isinstance(c.func, ast.Attribute) and c.func.attr in ("view", "reshape") and any(isinstance(a, ast.Starred) for a in c.args) for c in calls_in(fi.node)):
            continue
        seen = set()
        for path, seq in walk_paths(fi, limit=400):
            for st, env in seq:
                if not isinstance(st, ast.stmt):
                    continue
                for c in (x for x in ast.walk(st) if isinstance(x, ast.Call) and isinstance(x.func, ast.Attribute) and x.func.attr in ("view", "reshape")):
                    stars = [a for a in c.args if isinstance(a, ast.Starred)]
                    if not stars or (c.lineno, c.col_offset) in seen:
                        continue
                    first = stars[0]
                    if first is not c.args[0]:
                        continue
                    seen.add((c.lineno, c.col_offset))
                    n += 1
                    recv_src = " ".join(src(c.func.value).split())
                    b = inline(first.value, env)
                    btxt = " ".join(src(b).split())
                    own = isinstance(first.value, ast.Subscript) and " ".join(src(first.value.value).split()) == recv_src + ".shape"
                    own = own or (isinstance(b, ast.Subscript) and isinstance(b.value, ast.Attribute) and b.value.attr == "shape" and " ".join(src(inline(c.func.value, env)).split()).startswith(" ".join(src(b.value.value).split())))
                    bc = "broadcast_shapes" in btxt
                    # a shape assembled from the value's own dims (sample_shape + own) is out of scope: only single foreign sources are judged
                    single = (isinstance(b, ast.Subscript) and isinstance(b.value, ast.Attribute) and b.value.attr == "shape") or (isinstance(b, ast.Attribute) and b.attr in ("shape", "batch_shape"))
                    foreign = (not own) and (not bc) and single
                    # instance key: function + where the leading shape comes from (sites of one function that share the source are one
                    # finding; parameter names are stable under the renaming of locals)
                    import copy as _copy
                    anon = _copy.deepcopy(b)
                    params_ = set(fi.params)
                    for x_ in ast.walk(anon):
                        if isinstance(x_, ast.Name) and x_.id not in params_ and x_.id not in ("self", "torch"):
                            x_.id = "_"
                    inst = "%s:%s[leading shape from %s]" % (fi.module.name, fi.qualname, " ".join(src(anon).split())[:50] if foreign else "own/broadcast")
                    if any(o.rule == "C08-10" and o.instance == inst for o in rep.obligations):
                        continue
                    rep.add("C08-10", inst, "%s:%d" % (fi.module.relpath, c.lineno), not foreign,
                            "re-shaped with its own leading shape / a broadcast shape" if not foreign else
                            "`%s` takes its leading dims from `%s`, another tensor's batch shape: when the batch is carried by an operand that tensor does not see (shared inputs under batched hyper-parameters; a batch that only targets or noise carry) the call raises 'shape is invalid for input of size'" % (
                                " ".join(src(c).split())[:60], btxt[:50]), {})
    rep.floor("C08-10", "view / reshape calls with a starred leading shape", n, 5)


# ---- C08-11 --------------------------------------------------------------------------------------------------------
def result_buffers_broadcast(idx: ProgramIndex, rep: Report):
    """A kernel that assembles its result in a pre-allocated buffer (`K = torch.zeros(*B, rows, cols)`; blocks are stored into slices)
    fixes the batch shape of the result by B.  The batch shape of K(x1, x2) is the broadcast of the batch shapes of x1, x2 and the
    kernel's parameters; a B taken from x1 alone makes the block stores fail (or silently drop a batch) whenever x2 or the parameters
    carry the batch - e.g. batched hyper-parameters on shared inputs, which every other kernel handles by broadcasting."""
    rep.rule("C08-11", "result buffers allocated in kernel forward code take the broadcast batch shape of both inputs and the parameters, not the batch shape of one input")
    from ..symbolic import inline, walk_paths
    n = 0
    for cls in _families(idx):
        fi = cls.methods.get("forward")
        if fi is None or len(fi.params) < 3:
            continue
        x1, x2 = fi.params[1], fi.params[2]
        allocs = [c for c in calls_in(fi.node) if (chain(c.func) or "") in ("torch.zeros", "torch.empty", "torch.ones") and any(isinstance(a, ast.Starred) for a in c.args)]
        stores = any(isinstance(a, ast.Assign) and any(isinstance(t, ast.Subscript) for t in a.targets) for a in ast.walk(fi.node))
        if not allocs or not stores:
            continue
        n += 1
        probs = set()
        for path, seq in walk_paths(fi, limit=300):
            for st, env in seq:
                if not isinstance(st, ast.Assign) or len(st.targets) != 1 or not isinstance(st.targets[0], ast.Name):
                    continue
                v = st.value
                if not (isinstance(v, ast.Call) and (chain(v.func) or "") in ("torch.zeros", "torch.empty", "torch.ones")):
                    continue
                # only buffers that later receive block stores
                name = st.targets[0].id
                if not any(isinstance(a, ast.Assign) and any(isinstance(t, ast.Subscript) and isinstance(t.value, ast.Name) and t.value.id == name for t in a.targets) for a in ast.walk(fi.node)):
                    continue
                for a in v.args:
                    if isinstance(a, ast.Starred):
                        b = inline(a.value, env)
                        t = " ".join(src(b).split())
                        one_input = isinstance(b, ast.Subscript) and isinstance(b.value, ast.Attribute) and b.value.attr == "shape" and isinstance(b.value.value, ast.Name) and b.value.value.id in (x1, x2)
                        if one_input and "broadcast_shapes" not in t:
                            probs.add("the buffer `%s = %s` takes its batch shape from `%s` alone" % (name, " ".join(src(v).split())[:50], t))
        rep.add("C08-11", "%s:%s.forward[result buffer]" % (cls.module.name, cls.qualname), fi.where, not probs,
                "result buffers take a broadcast batch shape" if not probs else
                "; ".join(sorted(probs)) + ": with a batch carried by the other input or by the kernel's parameters (batch_shape=[b] on shared inputs) the block stores raise, while every kernel that computes its result by broadcasting handles the same call", {})
    rep.floor("C08-11", "kernels assembling their result in a pre-allocated buffer", n, 3)


# ---- C08-12 --------------------------------------------------------------------------------------------------------
def _left_size_queries(fn_node: ast.AST, params) -> list:
    """len(p) / p.size(k) / p.shape[k] with k >= 0 on a tensor parameter p"""
    out = []
    for x in ast.walk(fn_node):
        if isinstance(x, ast.Call) and chain(x.func) == "len" and len(x.args) == 1 and isinstance(x.args[0], ast.Name) and x.args[0].id in params:
            out.append((x, "len(%s)" % x.args[0].id))
        elif isinstance(x, ast.Call) and isinstance(x.func, ast.Attribute) and x.func.attr == "size" and isinstance(x.func.value, ast.Name) and x.func.value.id in params \
                and len(x.args) == 1 and isinstance(x.args[0], ast.Constant) and isinstance(x.args[0].value, int) and x.args[0].value >= 0:
            out.append((x, "%s.size(%d)" % (x.func.value.id, x.args[0].value)))
        elif isinstance(x, ast.Subscript) and isinstance(x.value, ast.Attribute) and x.value.attr == "shape" and isinstance(x.value.value, ast.Name) and x.value.value.id in params \
                and isinstance(x.slice, ast.Constant) and isinstance(x.slice.value, int) and x.slice.value >= 0:
            out.append((x, "%s.shape[%d]" % (x.value.value.id, x.slice.value)))
    return out


def sizes_from_the_right(idx: ProgramIndex, rep: Report):
    """The objectives divide by the number of data points.  For a batched model the leading axis of targets / outputs is a batch axis, so
    the number of points is `t.size(-1)` (or the event shape of the distribution) - never `len(t)`, `t.size(0)` or `t.shape[0]`, which
    give the number of points only for un-batched models (where every test passes)."""
    rep.rule("C08-12", "objective code reads the sizes of its tensor arguments from the right (no len(t) / t.size(k) / t.shape[k] with k >= 0 on targets or outputs)")
    base = idx.find_class("MarginalLogLikelihood")
    n = 0
    for cls in sorted([base] + list(idx.subclasses(base)), key=lambda c: c.qualname):
        for mname, m in sorted(cls.methods.items()):
            if mname.startswith("__"):
                continue
            params = set(m.params[1:])
            n += 1
            hits = _left_size_queries(m.node, params)
            rep.add("C08-12", "%s:%s.%s" % (cls.module.name, cls.qualname, mname), m.where, not hits,
                    "sizes are read from the right / from event shapes" if not hits else
                    ", ".join("`%s` (line %d)" % (t, x.lineno) for x, t in hits) + ": for batched targets (*batch_shape x n) this is the leading batch size, not the number of points - element b of a batched objective no longer equals the objective of replica b", {})
    # positive control
    ctl = ast.parse("def forward(self, dist, target):\n    return dist.log_prob(target) / len(target)\n")
    if [t for _x, t in _left_size_queries(ctl, {"dist", "target"})] != ["len(target)"]:
        raise AnalysisError("C08-12: positive control not matched")
    rep.floor("C08-12", "methods of the objective classes", n, 15)


# ---- C08-13 --------------------------------------------------------------------------------------------------------
def _registered_event_ranks(idx: ProgramIndex, cls) -> dict:
    """name of a registered parameter (raw and constrained name) -> number of trailing event dimensions of its registration"""
    out = {}
    for k in cls.repo_mro():
        for m in k.methods.values():
            for c in calls_in(m.node):
                if not (isinstance(c.func, ast.Attribute) and c.func.attr == "register_parameter"):
                    continue
                nm = None
                val = None
                for kw in c.keywords:
                    if kw.arg == "name":
                        nm = kw.value
                    if kw.arg == "parameter":
                        val = kw.value
                if nm is None and c.args:
                    nm = c.args[0]
                if val is None and len(c.args) > 1:
                    val = c.args[1]
                if not (isinstance(nm, ast.Constant) and isinstance(nm.value, str)) or val is None:
                    continue
                ctor = next((x for x in ast.walk(val) if isinstance(x, ast.Call) and (chain(x.func) or "") in ("torch.zeros", "torch.ones", "torch.randn", "torch.rand", "torch.empty", "torch.full")), None)
                if ctor is None:
                    continue
                args = ctor.args
                if len(args) == 1 and isinstance(args[0], (ast.Tuple, ast.List)):
                    args = list(args[0].elts)
                if not args or not isinstance(args[0], ast.Starred) or any(isinstance(a, ast.Starred) for a in args[1:]):
                    continue
                r = len(args) - 1
                out.setdefault(nm.value, r)
                if nm.value.startswith("raw_"):
                    out.setdefault(nm.value[4:], r)
    return out


def event_ranks_agree(idx: ProgramIndex, rep: Report):
    """see domains/eventrank.py: a batch-leading parameter with k trailing event dimensions is combined elementwise with a data-derived
    value of the same event rank only (an n1 x n2 matrix: rank 2; a diagonal: rank 1) - on the diag and on the non-diag path, inside
    local closures and inside the helper methods the forward calls."""
    from ..domains.eventrank import RankEval, Val
    from ..symbolic import walk_paths
    rep.rule("C08-13", "a batch-leading parameter meets data-derived values of its own event rank (matrix: 2, diagonal: 1) on the diag and the non-diag path, also inside closures and helper methods (event-rank domain)")
    K = idx.cls(idx.package + ".kernels.kernel", "Kernel")
    n = 0
    for cls in sorted(idx.package_classes(), key=lambda c: (c.module.name, c.qualname)):
        if not cls.is_subclass_of(K):
            continue
        fi = cls.methods.get("forward")
        if fi is None or len(fi.params) < 3:
            continue
        ranks = _registered_event_ranks(idx, cls)
        low = {k: v for k, v in ranks.items() if v < 2}
        if not low:
            continue
        n += 1
        problems = set()
        checked = 0

        def run_body(body, ev, depth=0):
            """evaluate statements in order; returns the Val of the first return reached"""
            ret = None
            for st in body:
                if isinstance(st, ast.Assign) and len(st.targets) == 1 and isinstance(st.targets[0], ast.Name):
                    ev.env[st.targets[0].id] = ev.ev(st.value)
                elif isinstance(st, ast.AugAssign) and isinstance(st.target, ast.Name):
                    ev.env[st.target.id] = ev.combine(ev.env.get(st.target.id), ev.ev(st.value), st)
                elif isinstance(st, ast.FunctionDef):
                    fdef = st

                    def closure(args, call, fdef=fdef, ev=ev):
                        sub = RankEval(ev.sn, ev.param_rank, ev.diag, call_method=ev.call_method, call_function=ev.call_function)
                        sub.env = dict(ev.env)
                        for p_, a_ in zip([x.arg for x in fdef.args.args], args):
                            sub.env[p_] = a_
                        r = run_body(fdef.body, sub, depth + 1)
                        ev.problems += sub.problems
                        ev.checked += sub.checked
                        return r
                    ev.env[st.name] = closure
                elif isinstance(st, ast.Return):
                    ret = ev.ev(st.value) if st.value is not None else None
                    return ret
                elif isinstance(st, ast.Expr):
                    ev.ev(st.value)
                elif isinstance(st, ast.If):
                    t = ev.truth(st.test)
                    if t is True:
                        r = run_body(st.body, ev, depth)
                    elif t is False:
                        r = run_body(st.orelse, ev, depth)
                    else:
                        # both arms, on copies of the environment (the first return wins only if both return)
                        e1 = dict(ev.env)
                        r1 = run_body(st.body, ev, depth)
                        env_after_1 = ev.env
                        ev.env = e1
                        r2 = run_body(st.orelse, ev, depth)
                        for k_ in set(env_after_1) | set(ev.env):
                            a_, b_ = env_after_1.get(k_), ev.env.get(k_)
                            if a_ is not b_ and not (isinstance(a_, Val) and isinstance(b_, Val) and a_.rank == b_.rank and a_.param == b_.param and a_.data == b_.data):
                                if callable(a_) or callable(b_):
                                    ev.env[k_] = a_ if callable(a_) else b_
                                else:
                                    ev.env[k_] = Val(None, bool(getattr(a_, "param", False) or getattr(b_, "param", False)), bool(getattr(a_, "data", False) or getattr(b_, "data", False))) if (a_ or b_) else None
                        r = None
                    if r is not None and t is not None:
                        return r
            return ret

        def call_function(fname, args, call, depth=[0]):
            try:
                f = idx.function(fi.module.name, fname)
            except AnalysisError:
                return None
            if depth[0] > 1:
                return None
            sub = RankEval("self", lambda a: None, None)
            for p_, a_ in zip(f.params, args):
                sub.env[p_] = a_
            depth[0] += 1
            try:
                return run_body(body_without_docstring(f.node), sub)
            finally:
                depth[0] -= 1

        for diag in (False, True):
            def call_method(mname, args, call, diag=diag, depth=[0]):
                m = cls.lookup(mname)
                if m is None or not m.module.name.startswith(idx.package) or m.kind == "property" or depth[0] > 1 or mname in ("covar_dist", "forward", "__call__"):
                    return None
                sub_diag = diag
                names = m.params[1:]
                for kw in call.keywords:
                    if kw.arg == "diag":
                        t_ = ev_main.truth(kw.value)
                        sub_diag = t_
                if "diag" in names and not any(kw.arg == "diag" for kw in call.keywords):
                    i_ = names.index("diag")
                    sub_diag = ev_main.truth(call.args[i_]) if i_ < len(call.args) else False
                elif "diag" not in names:
                    sub_diag = None  # the helper cannot know
                sub = RankEval(m.params[0], lambda a: low.get(a, ranks.get(a)), sub_diag, call_method=call_method, call_function=call_function)
                for p_, a_ in zip(names, args):
                    sub.env[p_] = a_
                depth[0] += 1
                try:
                    r = run_body(body_without_docstring(m.node), sub)
                finally:
                    depth[0] -= 1
                for l_, t_ in sub.problems:
                    problems.add((l_, "in %s: %s" % (mname, t_)))
                nonlocal_checked[0] += sub.checked
                return r
            nonlocal_checked = [0]
            ev_main = RankEval(fi.params[0], lambda a: low.get(a, ranks.get(a)), diag, call_method=call_method, call_function=call_function)
            ev_main.env[fi.params[1]] = Val(2, data=True)
            ev_main.env[fi.params[2]] = Val(2, data=True)
            run_body(body_without_docstring(fi.node), ev_main)
            for l_, t_ in ev_main.problems:
                problems.add((l_, t_))
            checked += ev_main.checked + nonlocal_checked[0]
        rep.add("C08-13", "%s:%s.forward[event ranks]" % (cls.module.name, cls.qualname), fi.where, not problems,
                "%d combination(s) of %s with data-derived values, event ranks agree on both paths" % (checked, "/".join(sorted(low))) if not problems else
                "; ".join("line %d: %s" % (l_, t_) for l_, t_ in sorted(problems)[:3]), {"checked": checked, "parameters": sorted(low)})
        if checked == 0:
            rep.observe("C08-13", "%s:%s.forward" % (cls.module.name, cls.qualname), fi.where, "no combination of %s with a data-derived value of known event rank could be formed: outside the event-rank domain" % "/".join(sorted(low)))
    rep.floor("C08-13", "kernels with a parameter of event rank < 2", n, 5)


# ---- C08-14 --------------------------------------------------------------------------------------------------------
def prior_event_dims(idx: ProgramIndex, rep: Report):
    """A prior with scalar parameters is an element-wise density: log_prob(x) has the shape of x, whatever dimension of x is a batch
    dimension of the module (outputscale and ConstantMean.constant have shape = batch_shape, no trailing singleton).  A prior class whose
    log_prob reduces the last dimension of its argument is right only if that dimension is an event dimension that its PARAMETERS have;
    a constructor that reshapes scalar parameters to one dimension creates an event dimension the value need not have - the reduction then
    sums over the batch, and every element of a batched objective is charged the prior of all elements."""
    rep.rule("C08-14", "a prior reduces a dimension of its argument only if its parameters have that event dimension: no event dimension made from scalar parameters by reshaping")
    P = idx.find_class("Prior")
    n = 0
    for cls in sorted(idx.subclasses(P), key=lambda c: c.qualname):
        if not cls.module.name.startswith("gpytorch.priors"):
            continue
        for mname in ("log_prob", "_log_prob"):
            fi = cls.methods.get(mname)
            if fi is None or len(fi.params) < 2:
                continue
            arg = fi.params[1]
            reds = []
            for c in calls_in(fi.node):
                if isinstance(c.func, ast.Attribute) and c.func.attr in ("sum", "mean", "prod") and (c.args or any(k.arg in ("dim", "axis") for k in c.keywords)):
                    recv = c.func.value
                    if any(isinstance(x, ast.Call) and (chain(x.func) or "").endswith("diagonal") for x in ast.walk(recv)):
                        continue  # a trace: matrix-valued event
                    guarded = [t for t in _enclosing_tests_c08(fi.node, c) if "event_shape" in src(t)]
                    if isinstance(c, ast.Call) and not guarded:
                        # the conditional expression form: x.sum(-1) if len(self.event_shape) else x
                        for ie in ast.walk(fi.node):
                            if isinstance(ie, ast.IfExp) and "event_shape" in src(ie.test) and any(x is c for x in ast.walk(ie.body)):
                                guarded = [ie.test]
                    reds.append((c, bool(guarded)))
            if not reds:
                continue
            n += 1
            if all(g for _c, g in reds):
                rep.add("C08-14", "%s:%s.%s[event dimension]" % (cls.module.name, cls.qualname, mname), fi.where, True, "the reduction is applied only when the prior has an event dimension (tested on event_shape)", {})
                continue
            reds = [c for c, g in reds if not g]
            init = cls.methods.get("__init__")
            promoted = []
            if init is not None:
                for x in ast.walk(init.node):
                    if isinstance(x, ast.IfExp) and "dim()" in src(x.test) and isinstance(x.body, ast.Call) and isinstance(x.body.func, ast.Attribute) and x.body.func.attr in ("view", "reshape", "unsqueeze"):
                        promoted.append(x)
            ok = not promoted
            rep.add("C08-14", "%s:%s.%s[event dimension]" % (cls.module.name, cls.qualname, mname), fi.where, ok,
                    "the reduced dimension is an event dimension of the parameters as given" if ok else
                    "`%s` reduces the last dimension of the value, and the constructor turns scalar parameters into that event dimension (`%s`): for a parameter of shape batch_shape (outputscale, ConstantMean.constant) the last dimension is the batch, log_prob returns one number for the whole batch and every element of the batched MLL is charged the prior of all elements"
                    % (" ".join(src(reds[0]).split())[:50], " ".join(src(promoted[0]).split())[:50]), {})
    rep.floor("C08-14", "priors that reduce a dimension of their argument", n, 1)


# ---- C08-16 --------------------------------------------------------------------------------------------------------
def prior_matrices(idx: ProgramIndex, rep: Report):
    """Matrix-valued priors (LKJ covariance priors on task covariances) are evaluated on a matrix the module assembles from its
    parameters in a helper its prior closure calls (`lambda m: m._eval_covar_matrix()`).  The assembly is judged in the event-rank
    domain: a parameter registered as *batch x 1 (the global noise) meets the t x t identity only after one unsqueeze(-1) - otherwise
    its batch axis lines up with the rows of the identity (batch b == t: every batch member gets diag(noise_0..noise_t-1); b != t: raises)."""
    from ..domains.eventrank import RankEval
    rep.rule("C08-16", "the matrix a prior closure assembles from the module's parameters combines them in matching event ranks (a *batch x 1 noise meets an identity matrix only after unsqueeze(-1))")
    n = 0
    for cls in sorted(idx.package_classes(), key=lambda c: (c.module.name, c.qualname)):
        helpers = set()
        for m in cls.methods.values():
            for c in calls_in(m.node):
                if isinstance(c.func, ast.Attribute) and c.func.attr == "register_prior":
                    for lam in [a for a in list(c.args) + [k.value for k in c.keywords] if isinstance(a, ast.Lambda)]:
                        for cc in ast.walk(lam.body):
                            if isinstance(cc, ast.Call) and isinstance(cc.func, ast.Attribute) and isinstance(cc.func.value, ast.Name) and lam.args.args and cc.func.value.id == lam.args.args[0].arg:
                                helpers.add(cc.func.attr)
        for h in sorted(helpers):
            fi = cls.lookup(h)
            if fi is None or fi.kind != "method" or not fi.module.name.startswith(idx.package):
                continue
            ranks = _registered_event_ranks(idx, cls)
            n += 1
            ev = RankEval(fi.params[0], lambda a: ranks.get(a), None)
            for st in body_without_docstring(fi.node):
                if isinstance(st, ast.Assign) and len(st.targets) == 1 and isinstance(st.targets[0], ast.Name):
                    ev.env[st.targets[0].id] = ev.ev(st.value)
                elif isinstance(st, ast.Return) and st.value is not None:
                    ev.ev(st.value)
                elif isinstance(st, ast.If):
                    for sub in st.body + st.orelse:
                        if isinstance(sub, ast.Assign) and len(sub.targets) == 1 and isinstance(sub.targets[0], ast.Name):
                            ev.env[sub.targets[0].id] = ev.ev(sub.value)
                        elif isinstance(sub, ast.Return) and sub.value is not None:
                            ev.ev(sub.value)
            probs = sorted(set(ev.problems))
            rep.add("C08-16", "%s:%s.%s[matrix for the prior]" % (cls.module.name, cls.qualname, h), fi.where, not probs,
                    "%d combination(s) of parameters with matrices, event ranks agree" % ev.checked if not probs else "; ".join("line %d: %s" % (l_, t_) for l_, t_ in probs[:2]), {"checked": ev.checked})
    rep.floor("C08-16", "matrix assemblies called by prior closures", n, 2)
