"""C20 - global settings are scoped: restored on exit, innermost block wins.

Decided statically: every exported setting is a context manager whose effective `__exit__` restores, on
every path, every global field its effective `__enter__` may write, from a value captured from that same
field at construction; overrides chain; `__exit__` never swallows; nobody else writes the globals; the
documented default equals the coded default.  (DESIGN.md section 4, C20-1 ... C20-7.)
"""
from __future__ import annotations

import ast
import re
from dataclasses import dataclass, field
from typing import Any, Dict, List, Optional, Tuple

from ..cfg import all_normal_exits_pass
from ..index import (AnalysisError, ClassInfo, External, FuncInfo, ModuleInfo, ProgramIndex, body_without_docstring,
                     chain, find_site_packages_file, is_super_call, norm, src, walk_no_nested)
from ..report import Report

EXTRA_FILES = {"linear_operator.settings": "linear_operator/settings.py"}

DTYPE_ALIASES = {
    "torch.float": "f32", "torch.float32": "f32", "torch.double": "f64", "torch.float64": "f64",
    "torch.half": "f16", "torch.float16": "f16", "torch.bfloat16": "bf16",
}

PROTOCOL = ("__init__", "__enter__", "__exit__")


# ------------------------------------------------------------------------------------------------
# symbolic values:  tuples
#   ('const', v) ('param', name) ('field', f, phase) ('inst', attr) ('dtype', tag) ('cls',) ('self',)
#   ('new', ClassInfo, args) ('ite', guard, a, b) ('expr', text)
# guards: ('notnone', sv) | ('opaque', text)
# ------------------------------------------------------------------------------------------------

@dataclass
class State:
    env: Dict[str, Any]
    inst: Dict[str, Any]
    fields: Dict[str, Any]
    events: List[tuple] = field(default_factory=list)
    guards: List[Tuple[tuple, bool]] = field(default_factory=list)

    def copy(self):
        return State(dict(self.env), dict(self.inst), dict(self.fields), list(self.events), list(self.guards))


@dataclass
class PathResult:
    outcome: str  # fall | return | raise
    ret: Any
    state: State


class Interp:
    """Tiny symbolic interpreter for the protocol methods of one concrete setting class."""

    MAX_DEPTH = 6

    def __init__(self, idx: ProgramIndex, concrete: ClassInfo, phase: str, inst_env: Optional[Dict[str, Any]] = None):
        self.idx = idx
        self.C = concrete
        self.phase = phase
        self.inst_env = inst_env or {}
        self.unknown_forms: List[str] = []

    # ---- fields -----------------------------------------------------------------------------------
    def is_field(self, name: str) -> bool:
        a = self.C.lookup_attr(name)
        return a is not None

    def read_field(self, st: State, f: str):
        if f in st.fields:
            return st.fields[f]
        return ("field", f, self.phase)

    # ---- calling ----------------------------------------------------------------------------------
    def call(self, fi: FuncInfo, selfval, args: List[Any], kwargs: Dict[str, Any], st: State, depth: int,
             symbolic_params: bool = False) -> List[PathResult]:
        if depth > self.MAX_DEPTH:
            raise AnalysisError("C20: inlining depth exceeded at %s" % fi.qualname)
        a = fi.node.args
        names = [x.arg for x in a.posonlyargs + a.args]
        env: Dict[str, Any] = {}
        if fi.kind != "staticmethod":
            env[names[0]] = selfval
            names = names[1:]
        defaults = [None] * (len(names) - len(a.defaults)) + list(a.defaults) if len(a.defaults) <= len(names) else list(a.defaults)[-len(names):]
        for i, n in enumerate(names):
            if i < len(args):
                env[n] = args[i]
            elif n in kwargs:
                env[n] = kwargs[n]
            elif defaults[i] is not None and not symbolic_params:
                env[n] = self.ev(defaults[i], State({}, {}, {}), fi, depth)
            else:
                env[n] = ("param", n)
        if a.vararg:
            env[a.vararg.arg] = ("expr", "*" + a.vararg.arg)
        if a.kwarg:
            env[a.kwarg.arg] = ("expr", "**" + a.kwarg.arg)
        s2 = State(env, st.inst, st.fields, st.events, st.guards).copy()
        out = []
        for outcome, ret, s3 in self.block(body_without_docstring(fi.node), s2, fi, depth):
            out.append(PathResult(outcome, ret, s3))
        return out

    # ---- statements -------------------------------------------------------------------------------
    def block(self, stmts, st: State, fi: FuncInfo, depth: int):
        if not stmts:
            yield "fall", None, st
            return
        head, rest = stmts[0], stmts[1:]
        for outcome, ret, s in self.stmt(head, st, fi, depth):
            if outcome == "fall":
                yield from self.block(rest, s, fi, depth)
            else:
                yield outcome, ret, s

    def stmt(self, node, st: State, fi: FuncInfo, depth: int):
        if isinstance(node, ast.Expr):
            for _, s in self.evs(node.value, st, fi, depth):
                yield "fall", None, s
        elif isinstance(node, ast.Assign):
            for v, s in self.evs(node.value, st, fi, depth):
                s = s.copy()
                for t in node.targets:
                    self.store(t, v, s, fi)
                yield "fall", None, s
        elif isinstance(node, ast.Return):
            if node.value is None:
                yield "return", ("const", None), st
            else:
                for v, s in self.evs(node.value, st, fi, depth):
                    yield "return", v, s
        elif isinstance(node, ast.Raise):
            yield "raise", None, st
        elif isinstance(node, ast.Pass):
            yield "fall", None, st
        elif isinstance(node, ast.If):
            for g, s in self.truths(node.test, st, fi, depth):
                if g is True:
                    yield from self.block(node.body, s, fi, depth)
                elif g is False:
                    yield from self.block(node.orelse, s, fi, depth)
                else:
                    s1 = s.copy()
                    s1.guards.append((g, True))
                    yield from self.block(node.body, s1, fi, depth)
                    s2 = s.copy()
                    s2.guards.append((g, False))
                    yield from self.block(node.orelse, s2, fi, depth)
        else:
            self.unknown_forms.append("%s: %s" % (fi.qualname, norm(node)[:80]))
            st = st.copy()
            st.events.append(("call", "<unmodelled statement: %s>" % norm(node)[:60]))
            yield "fall", None, st

    def store(self, target, v, st: State, fi: FuncInfo):
        if isinstance(target, (ast.Tuple, ast.List)):
            if isinstance(v, tuple) and v and v[0] == "tuple" and len(v[1]) == len(target.elts):
                for t, x in zip(target.elts, v[1]):
                    self.store(t, x, st, fi)
            else:
                for t in target.elts:
                    self.store(t, ("expr", "<component of %s>" % (v[1] if isinstance(v, tuple) and len(v) > 1 and isinstance(v[1], str) else "a value")), st, fi)
            return
        if isinstance(target, ast.Name):
            st.env[target.id] = v
            return
        if isinstance(target, ast.Attribute):
            base = self.ev_pure(target.value, st)
            if base == ("self",):
                st.inst[target.attr] = v
                return
            if base == ("cls",):
                st.fields[target.attr] = v
                st.events.append(("write", target.attr, v, tuple(st.guards)))
                return
        st.events.append(("call", "<store %s>" % src(target)))

    # ---- expressions ------------------------------------------------------------------------------
    def ev_pure(self, e, st: State):
        """Evaluate without calls (bases of attribute stores)."""
        if isinstance(e, ast.Name):
            return st.env.get(e.id, ("expr", e.id))
        if isinstance(e, ast.Attribute):
            b = self.ev_pure(e.value, st)
            if b == ("self",) and e.attr == "__class__":
                return ("cls",)
            return ("expr", src(e))
        if isinstance(e, ast.Call) and chain(e.func) == "type" and len(e.args) == 1 and self.ev_pure(e.args[0], st) == ("self",):
            return ("cls",)
        return ("expr", src(e))

    def ev(self, e, st: State, fi: FuncInfo, depth: int):
        r = self.evs(e, st, fi, depth)
        if len(r) != 1:
            raise AnalysisError("C20: expression with several paths where one is required: %s" % src(e))
        return r[0][0]

    def evs(self, e, st: State, fi: FuncInfo, depth: int) -> List[Tuple[Any, State]]:
        """Evaluate an expression; several results when an inlined call has several paths."""
        if isinstance(e, ast.Constant):
            return [(("const", e.value), st)]
        if isinstance(e, ast.Name):
            if e.id in st.env:
                return [(st.env[e.id], st)]
            return [(("expr", e.id), st)]
        if isinstance(e, ast.Attribute):
            c = chain(e)
            if c in DTYPE_ALIASES:
                return [(("dtype", DTYPE_ALIASES[c]), st)]
            out = []
            for b, s in self.evs(e.value, st, fi, depth):
                if b == ("self",):
                    if e.attr == "__class__":
                        out.append((("cls",), s))
                    elif e.attr in s.inst:
                        out.append((s.inst[e.attr], s))
                    elif e.attr in self.inst_env:
                        out.append((self.inst_env[e.attr], s))
                    else:
                        out.append((("inst", e.attr), s))
                elif b == ("cls",):
                    if self.C.lookup(e.attr) is None and self.is_field(e.attr):
                        out.append((self.read_field(s, e.attr), s))
                    else:
                        out.append((("expr", src(e)), s))
                else:
                    out.append((("expr", src(e)), s))
            return out
        if isinstance(e, ast.List) and not e.elts:
            return [(("stack", ()), st)]  # an empty per-instance store (saved values, pushed by __enter__ and popped by __exit__)
        if isinstance(e, ast.Tuple):
            results = [([], st)]
            for el in e.elts:
                results = [(vals + [v], s2) for vals, s in results for v, s2 in self.evs(el, s, fi, depth)]
            return [(("tuple", tuple(vals)), s) for vals, s in results]
        if isinstance(e, ast.IfExp):
            out = []
            for g, s in self.truths(e.test, st, fi, depth):
                if g is True:
                    out += self.evs(e.body, s, fi, depth)
                elif g is False:
                    out += self.evs(e.orelse, s, fi, depth)
                else:
                    for a, s1 in self.evs(e.body, s, fi, depth):
                        for b, s2 in self.evs(e.orelse, s1, fi, depth):
                            out.append((("ite", g, a, b), s2))
            return out
        if isinstance(e, ast.Call):
            return self.ev_call(e, st, fi, depth)
        if isinstance(e, (ast.Compare, ast.BoolOp, ast.UnaryOp)):
            out = []
            for g, s in self.truths(e, st, fi, depth):
                out.append((("const", g) if isinstance(g, bool) else ("expr", src(e)), s))
            return out
        # anything else: opaque, but calls inside are recorded as events
        s = st
        if any(isinstance(n, ast.Call) for n in ast.walk(e)):
            s = st.copy()
            s.events.append(("call", src(e)))
        return [(("expr", src(e)), s)]

    def ev_args(self, call: ast.Call, st: State, fi: FuncInfo, depth: int):
        """-> list of (args, kwargs, state); starred arguments are opaque."""
        results = [([], {}, st)]
        for a in call.args:
            nxt = []
            for args, kw, s in results:
                if isinstance(a, ast.Starred):
                    nxt.append((args, kw, s))  # *args of protocol methods carry nothing we model
                else:
                    for v, s2 in self.evs(a, s, fi, depth):
                        nxt.append((args + [v], kw, s2))
            results = nxt
        for k in call.keywords:
            nxt = []
            for args, kw, s in results:
                if k.arg is None:
                    nxt.append((args, kw, s))
                else:
                    for v, s2 in self.evs(k.value, s, fi, depth):
                        nxt.append((args, dict(kw, **{k.arg: v}), s2))
            results = nxt
        return results

    def ev_call(self, call: ast.Call, st: State, fi: FuncInfo, depth: int):
        f = call.func
        out: List[Tuple[Any, State]] = []
        # super().m(...)
        if is_super_call(call):
            target = self.C.lookup(f.attr, after=fi.cls)
            if target is None:
                # object.__init__/__enter__ ... : nothing happens
                return [(("const", None), st)]
            selfval = st.env.get(fi.params[0], ("self",)) if fi.kind != "staticmethod" else ("self",)
            for args, kw, s in self.ev_args(call, st, fi, depth):
                for pr in self.call(target, selfval, args, kw, s, depth + 1):
                    if pr.outcome == "raise":
                        continue
                    s2 = State(s.env, pr.state.inst, pr.state.fields, pr.state.events, pr.state.guards)
                    out.append((pr.ret if pr.ret is not None else ("const", None), s2))
            return out
        if chain(f) == "torch.is_tensor" and len(call.args) == 1:
            for v, s in self.evs(call.args[0], st, fi, depth):
                if v[0] in ("dtype", "const"):
                    out.append((("const", False), s))
                else:
                    out.append((("expr", src(call)), s))
            return out
        if chain(f) == "type" and len(call.args) == 1:
            v = self.ev_pure(call.args[0], st)
            if v == ("self",):
                return [(("cls",), st)]
        if isinstance(f, ast.Attribute) and f.attr in ("append", "pop") and isinstance(f.value, ast.Attribute) and self.ev_pure(f.value.value, st) == ("self",):
            attr = f.value.attr
            cur = st.inst.get(attr, self.inst_env.get(attr))
            if isinstance(cur, tuple) and cur and cur[0] == "stack":
                if f.attr == "append" and len(call.args) == 1:
                    for v, s in self.evs(call.args[0], st, fi, depth):
                        s2 = s.copy()
                        s2.inst[attr] = ("stack", cur[1] + (v,))
                        out.append((("const", None), s2))
                    return out
                if f.attr == "pop" and not call.args:
                    s2 = st.copy()
                    if cur[1]:
                        s2.inst[attr] = ("stack", cur[1][:-1])
                        return [(_popped(cur[1][-1]), s2)]
                    return [(("expr", "<pop of an empty store>"), s2)]
        if isinstance(f, ast.Attribute):
            for b, s in self.evs(f.value, st, fi, depth):
                if b == ("cls",) or b == ("self",):
                    target = self.C.lookup(f.attr)
                    if target is not None and target.kind in ("classmethod", "staticmethod", "method"):
                        selfval = ("cls",) if target.kind == "classmethod" else b
                        for args, kw, s1 in self.ev_args(call, s, fi, depth):
                            for pr in self.call(target, selfval, args, kw, s1, depth + 1):
                                if pr.outcome == "raise":
                                    continue
                                s2 = State(s1.env, pr.state.inst, pr.state.fields, pr.state.events, pr.state.guards)
                                out.append((pr.ret if pr.ret is not None else ("const", None), s2))
                        continue
                if f.attr in ("__enter__", "__exit__") and (b[0] == "new" or b[0] == "inst"):
                    s2 = s.copy()
                    s2.events.append(("member", b, f.attr))
                    out.append((("const", None), s2))
                    continue
                s2 = s.copy()
                s2.events.append(("call", src(call)))
                out.append((("expr", src(call)), s2))
            return out
        # constructor of a setting class?
        r = self.idx.resolve_expr(fi.module, f)
        if isinstance(r, ClassInfo) and r.lookup("__enter__") is not None:
            for args, kw, s in self.ev_args(call, st, fi, depth):
                out.append((("new", r.key, tuple(args)), s))
            return out
        s2 = st.copy()
        s2.events.append(("call", src(call)))
        return [(("expr", src(call)), s2)]

    def truths(self, test, st: State, fi: FuncInfo, depth: int):
        """-> list of (True | False | guard-descriptor, state)"""
        if isinstance(test, ast.UnaryOp) and isinstance(test.op, ast.Not):
            out = []
            for g, s in self.truths(test.operand, st, fi, depth):
                if isinstance(g, bool):
                    out.append((not g, s))
                elif g[0] == "notnone":
                    out.append((("isnone", g[1]), s))
                elif g[0] == "isnone":
                    out.append((("notnone", g[1]), s))
                else:
                    out.append((("opaque", src(test)), s))
            return out
        if isinstance(test, ast.Compare) and len(test.ops) == 1:
            op = test.ops[0]
            out = []
            for a, s1 in self.evs(test.left, st, fi, depth):
                for b, s2 in self.evs(test.comparators[0], s1, fi, depth):
                    if isinstance(op, (ast.Is, ast.IsNot)) and b == ("const", None):
                        isnone = None
                        if a[0] == "const":
                            isnone = a[1] is None
                        elif a[0] in ("dtype", "new", "cls", "self"):
                            isnone = False
                        if isnone is None:
                            out.append((("isnone", a) if isinstance(op, ast.Is) else ("notnone", a), s2))
                        else:
                            out.append((isnone if isinstance(op, ast.Is) else (not isnone), s2))
                    elif isinstance(op, (ast.Eq, ast.NotEq)) and a[0] == "dtype" and b[0] == "dtype":
                        eq = a[1] == b[1]
                        out.append((eq if isinstance(op, ast.Eq) else (not eq), s2))
                    elif isinstance(op, (ast.Eq, ast.NotEq)) and a[0] == "const" and b[0] == "const":
                        eq = a[1] == b[1]
                        out.append((eq if isinstance(op, ast.Eq) else (not eq), s2))
                    else:
                        out.append((("opaque", src(test)), s2))
            return out
        out = []
        for v, s in self.evs(test, st, fi, depth) if not isinstance(test, (ast.Compare, ast.BoolOp, ast.UnaryOp)) else [(("expr", src(test)), st)]:
            if v[0] == "const":
                out.append((bool(v[1]), s))
            else:
                out.append((("opaque", src(test)), s))
        return out


# ------------------------------------------------------------------------------------------------
def show(v) -> str:
    if not isinstance(v, tuple):
        return repr(v)
    if v[0] == "const":
        return repr(v[1])
    if v[0] == "field":
        return "global %s as read at %s" % (v[1], v[2])
    if v[0] == "param":
        return "argument %s" % v[1]
    if v[0] == "inst":
        return "self.%s" % v[1]
    if v[0] == "ite":
        return "(%s if %s else %s)" % (show(v[2]), show(v[1]), show(v[3]))
    if v[0] in ("notnone", "isnone"):
        return "%s %s None" % (show(v[1]), "is not" if v[0] == "notnone" else "is")
    if v[0] == "new":
        return "%s(...)" % v[1][1]
    return str(v[1]) if len(v) > 1 else v[0]


def _popped(v):
    """a value taken back from the per-instance store: a field read of phase 'enter' becomes 'enter-stack' (saved per entry)"""
    if isinstance(v, tuple) and v:
        if v[0] == "field" and len(v) == 3 and v[2] == "enter":
            return ("field", v[1], "enter-stack")
        if v[0] == "tuple":
            return ("tuple", tuple(_popped(x) for x in v[1]))
    return v


def subst_inst(v, inst_env):
    if isinstance(v, tuple):
        if v and v[0] == "inst" and v[1] in inst_env:
            return inst_env[v[1]]
        return tuple(subst_inst(x, inst_env) for x in v)
    return v


class SettingModel:
    """Effective protocol of one concrete setting class."""

    def __init__(self, idx: ProgramIndex, C: ClassInfo):
        self.idx, self.C = idx, C
        self.unknown: List[str] = []
        self.init_paths = self._run("__init__", "init", {})
        normal_init = [p for p in self.init_paths if p.outcome != "raise"]
        if not normal_init:
            raise AnalysisError("C20: %s.__init__ has no normal path" % C.qualname)
        self.inst_env: Dict[str, Any] = {}
        keys = set()
        for p in normal_init:
            keys |= set(p.state.inst)
        for k in keys:
            vals = []
            for p in normal_init:
                v = p.state.inst.get(k, ("expr", "<unset>"))
                if v not in vals:
                    vals.append(v)
            self.inst_env[k] = vals[0] if len(vals) == 1 else ("phi", tuple(vals))
        self.init_writes = [ev for p in normal_init for ev in p.state.events if ev[0] == "write"]
        self.enter_paths = self._run("__enter__", "enter", self.inst_env)
        # instance attributes (re-)bound by __enter__ are what __exit__ reads: overlay them on the constructor's
        self.exit_env: Dict[str, Any] = dict(self.inst_env)
        normal_enter = [p for p in self.enter_paths if p.outcome != "raise"]
        ekeys = set()
        for p in normal_enter:
            ekeys |= set(p.state.inst)
        for k in ekeys:
            vals = []
            for p in normal_enter:
                v = p.state.inst.get(k, self.inst_env.get(k, ("expr", "<unset>")))
                v = subst_inst(v, self.inst_env)
                if v not in vals:
                    vals.append(v)
            self.exit_env[k] = vals[0] if len(vals) == 1 else ("phi", tuple(vals))
        self.exit_paths = self._run("__exit__", "exit", self.exit_env)
        self.capture_phase: Dict[str, set] = {}

    def _run(self, name: str, phase: str, inst_env) -> List[PathResult]:
        fi = self.C.lookup(name)
        if fi is None:
            if name == "__init__":
                return [PathResult("fall", None, State({}, {}, {}))]
            raise AnalysisError("C20: %s has no %s" % (self.C.qualname, name))
        it = Interp(self.idx, self.C, phase, inst_env)
        res = it.call(fi, ("self",), [], {}, State({}, {}, {}), 0, symbolic_params=True)
        self.unknown += it.unknown_forms
        return res


def nonnull(v, inv_fields: set, guards: Tuple[Tuple[tuple, bool], ...]) -> bool:
    """Is symbolic value v provably non-None, given that fields in inv_fields are never None and the guards hold."""
    if v[0] == "const":
        return v[1] is not None
    if v[0] in ("dtype", "new", "cls", "self"):
        return True
    if v[0] == "field":
        return v[1] in inv_fields
    for g, truth in guards:
        if g[0] == "notnone" and truth and g[1] == v:
            return True
        if g[0] == "isnone" and not truth and g[1] == v:
            return True
    if v[0] == "ite":
        g = v[1]
        ga = guards + ((g, True),)
        gb = guards + ((g, False),)
        return nonnull(v[2], inv_fields, ga) and nonnull(v[3], inv_fields, gb)
    return False


def exported_settings(idx: ProgramIndex, rep: Report) -> List[Tuple[str, str, ClassInfo]]:
    out = []
    for modname in ("gpytorch.settings", "gpytorch.beta_features"):
        mi = idx.module(modname)
        if mi.all_names is None:
            raise AnalysisError("anchor vanished: %s.__all__" % modname)
        for name in mi.all_names:
            r = idx.resolve_name(mi, name)
            if isinstance(r, ClassInfo):
                out.append((modname, name, r))
            else:
                out.append((modname, name, None))
    return out


def member_classes(idx: ProgramIndex, model: SettingModel) -> List[ClassInfo]:
    res = []
    for v in model.inst_env.values():
        if isinstance(v, tuple) and v and v[0] == "new":
            res.append(idx.classes[v[1]])
    return res


def run(idx: ProgramIndex, rep: Report, tier: str):
    rep.explanation = (
        "Static typestate/pairing analysis of every class exported by gpytorch.settings and gpytorch.beta_features "
        "(incl. the classes re-exported from linear_operator/settings.py, parsed but never imported). A small symbolic "
        "interpreter inlines the effective __init__/__enter__/__exit__ of each concrete class along its MRO (super() "
        "and classmethod setters inlined, `is not None` guards evaluated with a nullness invariant per global field) "
        "and checks write/restore pairing per field, provenance of the restored value, override chaining, exception "
        "transparency, who-may-write over all of gpytorch, fresh-instance use at every `with` site and documented = "
        "coded default. Decides the scoping discipline for every nesting depth and exception point at once; does not "
        "decide thread-safety.")
    rep.rule("C20-1", "every exported setting is a scoped context manager (inventory)")
    rep.rule("C20-2", "every field __enter__ may write is restored on every path of __exit__ from the value captured from that field before the block wrote it")
    rep.rule("C20-3", "overrides of __init__/__enter__/__exit__ call the same-named super() method on every normal path")
    rep.rule("C20-4", "__exit__ returns a falsy value and nothing that can raise precedes a restore; nothing that can raise follows the writes of __enter__")
    rep.rule("C20-5", "no code outside the protocol methods of setting classes writes a global setting field")
    rep.rule("C20-6", "inside gpytorch every setting is entered as `with S(...)` on a fresh instance")
    rep.rule("C20-7", "documented default equals coded default")
    rep.rule("C20-8", "a value argument is told apart from 'not given' by `is None`, never by truthiness: a block entered with 0 / 0.0 / False sets that value")

    exported = exported_settings(idx, rep)
    rep.floor("C20-1", "exported names", len(exported), 44)
    setting_classes: Dict[Tuple[str, str], ClassInfo] = {}
    for modname, name, ci in exported:
        ok = ci is not None and ci.lookup("__enter__") is not None and ci.lookup("__exit__") is not None
        rep.add("C20-1", "%s:%s" % (modname, name), ci.where if ci else modname, ok,
                "resolved to %s with __enter__/__exit__" % (ci,) if ok else "exported name does not resolve to a class with __enter__ and __exit__",
                {"resolved": str(ci)}, trivial=True)
        if ok:
            setting_classes[ci.key] = ci

    # models, including member classes of composites
    models: Dict[Tuple[str, str], SettingModel] = {}
    work = list(setting_classes.values())
    while work:
        ci = work.pop()
        if ci.key in models:
            continue
        m = SettingModel(idx, ci)
        models[ci.key] = m
        for mc in member_classes(idx, m):
            if mc.key not in models:
                work.append(mc)
    rep.analysed["C20 setting classes modelled (incl. composite members)"] = len(models)

    all_setting = set(models)
    # every class that is a base of a modelled class is also "a setting class" for the who-may-write rule
    family: set = set()
    for k in models:
        for c in idx.classes[k].repo_mro():
            family.add(c.key)
    for ci in idx.classes.values():
        if any(b.key in family for b in ci.repo_mro()):
            family.add(ci.key)

    for key in sorted(models):
        check_pairing(idx, rep, models[key])
        check_exit_enter_discipline(idx, rep, models[key])
    check_capture_phase(idx, rep, models)
    check_override_chaining(idx, rep, family)
    fields = global_field_names(idx, family)
    check_who_may_write(idx, rep, family, fields)
    check_with_sites(idx, rep, family)
    check_doc_defaults(idx, rep, models)
    check_given_vs_default(idx, rep, family)
    rep.assume("the class-attribute defaults of setting classes are only changed through the protocol (checked inside gpytorch by C20-5; user code and linear_operator internals are out of scope)")
    rep.assume("a setting instance is entered at most once and immediately after construction (checked for every site inside gpytorch by C20-6)")


def check_pairing(idx: ProgramIndex, rep: Report, m: SettingModel):
    C = m.C
    where = C.where
    inst = "%s:%s" % (C.module.name, C.qualname)
    if m.unknown:
        raise AnalysisError("C20-2: unmodelled statement form in protocol of %s: %s" % (C.qualname, m.unknown[:3]))
    if m.init_writes:
        rep.add("C20-2", inst + ":<init>", where, False, "__init__ writes global field(s) %s: the change would outlive any with-block" % sorted({w[1] for w in m.init_writes}))
    enter_norm = [p for p in m.enter_paths if p.outcome != "raise"]
    exit_norm = [p for p in m.exit_paths if p.outcome != "raise"]
    if not exit_norm:
        rep.add("C20-2", inst + ":<exit>", where, False, "__exit__ has no normal path")
        return
    written: Dict[str, List[tuple]] = {}
    for p in m.enter_paths:  # also raising paths: a write before a raise counts
        for ev in p.state.events:
            if ev[0] == "write":
                written.setdefault(ev[1], []).append(ev)
    # members (composites)
    entered = set()
    for p in m.enter_paths:
        for ev in p.state.events:
            if ev[0] == "member" and ev[2] == "__enter__":
                entered.add(subst_inst(ev[1], m.inst_env))
    for mem in sorted(entered, key=str):
        ok = True
        for p in exit_norm:
            exited = {subst_inst(ev[1], m.inst_env) for ev in p.state.events if ev[0] == "member" and ev[2] == "__exit__"}
            if mem not in exited:
                ok = False
        fresh = mem[0] == "new"
        rep.add("C20-2", "%s:member:%s" % (inst, show(mem)), where, ok and fresh,
                "member context %s entered in __enter__ is %s" % (show(mem), "exited on every path of __exit__ and was created in __init__" if ok and fresh else ("not exited on every path of __exit__" if not ok else "not a context created in __init__")),
                {"member": show(mem)})

    # nullness invariant per field: default non-None and every write non-None (coinductive)
    inv: set = set()
    cand = set()
    for f in written:
        d = C.lookup_attr(f)
        if d is not None and isinstance(d[1], ast.Constant) and d[1].value is not None:
            cand.add(f)
        elif d is not None and chain(d[1]) in DTYPE_ALIASES:
            cand.add(f)
    changed = True
    inv = set(cand)
    while changed:
        changed = False
        for f in list(inv):
            for ev in written[f]:
                v = subst_inst(ev[2], m.inst_env)
                if not nonnull(v, inv, tuple((subst_inst(g, m.inst_env), t) for g, t in ev[3])):
                    inv.discard(f)
                    changed = True
                    break
            if f in inv:
                for p in exit_norm:
                    for ev in p.state.events:
                        if ev[0] == "write" and ev[1] == f:
                            v = subst_inst(ev[2], m.inst_env)
                            if not nonnull(v, inv, tuple((subst_inst(g, m.inst_env), t) for g, t in ev[3])):
                                inv.discard(f)
                                changed = True
                                break
                    if f not in inv:
                        break

    for f in sorted(written):
        captured = ("field", f, "init")
        default = C.lookup_attr(f)
        problems = []
        phases: set = set()
        reset_idiom = False
        for p in exit_norm:
            ws = [ev for ev in p.state.events if ev[0] == "write" and ev[1] == f]
            if ws:
                v = subst_inst(ws[-1][2], m.exit_env)
                accepted = (captured, ("field", f, "enter"), ("field", f, "enter-stack"))
                if v in accepted:
                    phases.add(v[2])
                    continue
                if v[0] == "phi" and all(x in accepted for x in v[1]):
                    phases |= {x[2] for x in v[1]}
                    continue
                # reset idiom: enter and exit both store the same constant, which is also the class default
                enter_vals = {subst_inst(ev[2], m.inst_env) for ev in written[f]}
                if v[0] == "const" and enter_vals == {v} and default is not None and isinstance(default[1], ast.Constant) and default[1].value == v[1]:
                    # reset idiom: correct only if nothing else ever writes the field - a field that is filled while a block is open
                    # (a lazily created cache) loses the enclosing block's value when a nested block exits
                    reset_idiom = True
                    problems.append("enter and exit both reset %s to %s instead of restoring what was visible before: a nested block wipes the value the enclosing block holds by then (after `with S(True): ...; with S(True): pass` the outer block continues with %s = %s)" % (f, show(v), f, show(v)))
                    continue
                problems.append("restores %s instead of the value captured from %s before the block wrote it" % (show(v), f))
            else:
                # no write on this path: acceptable only if the path is infeasible under the nullness invariant
                feasible = True
                for g, truth in p.state.guards:
                    g2 = subst_inst(g, m.inst_env)
                    if g2[0] in ("notnone", "isnone"):
                        nn = nonnull(g2[1], inv, ())
                        if nn and ((g2[0] == "notnone" and not truth) or (g2[0] == "isnone" and truth)):
                            feasible = False
                if feasible:
                    conds = ["%s = %s" % (show(subst_inst(g, m.inst_env)), t) for g, t in p.state.guards]
                    problems.append("no restore of %s on the __exit__ path with %s" % (f, "; ".join(conds) if conds else "no guard"))
        ok = not problems
        m.capture_phase[f] = phases
        detail = ("restored on every path of __exit__ from the value read from the field before the block wrote it" + (" (reset-to-default idiom)" if reset_idiom else "")) if ok else "; ".join(sorted(set(problems)))
        rep.add("C20-2", "%s:%s" % (inst, f), where, ok, detail,
                {"field": f, "written_in_enter": [show(subst_inst(ev[2], m.inst_env)) for ev in written[f]][:4],
                 "never_None_invariant": f in inv, "exit_paths": len(exit_norm), "enter_paths": len(enter_norm)})
    if not written and not entered:
        rep.add("C20-2", inst + ":<no-effect>", where, False, "__enter__ writes no global field and enters no member context")


def check_exit_enter_discipline(idx: ProgramIndex, rep: Report, m: SettingModel):
    C = m.C
    inst = "%s:%s" % (C.module.name, C.qualname)
    probs = []
    for p in m.exit_paths:
        if p.outcome == "raise":
            probs.append("__exit__ has a raising path")
            continue
        ret = p.ret if p.outcome == "return" else ("const", None)
        if ret is None:
            ret = ("const", None)
        if not (ret[0] == "const" and not ret[1]):
            probs.append("__exit__ returns %s (a truthy value would swallow the exception)" % show(ret))
        # unknown calls before the last restore
        evs = p.state.events
        last = max([i for i, ev in enumerate(evs) if ev[0] in ("write", "member")], default=-1)
        for ev in evs[:last]:
            if ev[0] == "call":
                probs.append("__exit__ calls %s before restoring" % ev[1][:60])
    for p in m.enter_paths:
        evs = p.state.events
        first = min([i for i, ev in enumerate(evs) if ev[0] in ("write", "member")], default=None)
        if first is not None:
            for ev in evs[first:]:
                if ev[0] == "call":
                    probs.append("__enter__ calls %s after it modified the global (a raise here skips __exit__)" % ev[1][:60])
            if p.outcome == "raise":
                probs.append("__enter__ raises after it modified the global")
    rep.add("C20-4", inst, C.where, not probs, "; ".join(sorted(set(probs))) or "falsy return on all %d exit paths; no call that can raise between modification and restore" % len(m.exit_paths),
            {"exit_paths": len(m.exit_paths), "enter_paths": len(m.enter_paths)})


def check_override_chaining(idx: ProgramIndex, rep: Report, family: set):
    n = 0
    for key in sorted(family):
        ci = idx.classes[key]
        for name in PROTOCOL:
            fi = ci.methods.get(name)
            if fi is None:
                continue
            base_def = ci.lookup(name, after=ci)
            if base_def is None:
                continue
            n += 1

            def pred(node, name=name):
                return any(isinstance(c, ast.Call) and is_super_call(c, name) for c in ast.walk(node))

            ok = all_normal_exits_pass(body_without_docstring(fi.node), pred)
            rep.add("C20-3", "%s:%s.%s" % (ci.module.name, ci.qualname, name), fi.where, ok,
                    "calls super().%s on every normal path" % name if ok else "override of %s does not reach super().%s on every normal path (base: %s)" % (name, name, base_def.qualname),
                    {"base": base_def.qualname})
    rep.floor("C20-3", "protocol overrides", n, 5)


def global_field_names(idx: ProgramIndex, family: set) -> set:
    """Names of class attributes that some setting classmethod / protocol method stores to."""
    fields = set()
    for key in family:
        ci = idx.classes[key]
        for fi in list(ci.methods.values()):
            for n in walk_no_nested(fi.node):
                if isinstance(n, ast.Attribute) and isinstance(n.ctx, ast.Store):
                    b = src(n.value)
                    if b in ("cls", "self.__class__", "type(self)"):
                        fields.add(n.attr)
    return fields


SETTER_RE = re.compile(r"^_set_")


def _writer_sites(idx: ProgramIndex, mi: ModuleInfo, owner: Optional[ClassInfo], fn_node, family: set, fields: set) -> List[Tuple[ast.AST, str]]:
    """Sites in fn_node that write a global setting field / call a setter / call __enter__/__exit__ on a setting."""
    sites = []

    def is_setting_expr(e) -> bool:
        r = idx.resolve_expr(mi, e)
        return isinstance(r, ClassInfo) and r.key in family

    for n in ast.walk(fn_node):
        if isinstance(n, ast.Attribute) and isinstance(n.ctx, (ast.Store, ast.Del)):
            if is_setting_expr(n.value):
                sites.append((n, "store to %s" % src(n)))
            elif n.attr in fields and n.attr.startswith("_") and src(n.value) not in ("self",) and owner is None:
                pass
        elif isinstance(n, ast.Call):
            f = n.func
            if isinstance(f, ast.Attribute):
                if SETTER_RE.match(f.attr) and is_setting_expr(f.value):
                    sites.append((n, "call of setter %s" % src(f)))
                elif f.attr in ("__enter__", "__exit__"):
                    v = f.value
                    if isinstance(v, ast.Call) and is_setting_expr(v.func):
                        sites.append((n, "explicit %s on a setting instance" % f.attr))
                    elif is_setting_expr(v):
                        sites.append((n, "explicit %s on a setting class" % f.attr))
            elif isinstance(f, ast.Name) and f.id in ("setattr", "delattr") and n.args and is_setting_expr(n.args[0]):
                sites.append((n, "%s on setting class %s" % (f.id, src(n.args[0]))))
    return sites


CONTROL = '''
from . import settings
from .settings import fast_pred_var as fpv
def control_a(x):
    settings.debug._set_state(False)
    return x
def control_b(x):
    fpv._num_probe_vectors = 3
    setattr(settings.max_eager_kernel_size, "_global_value", 0)
    return x
def control_c(x):
    s = settings.fast_pred_samples(True)
    s.__enter__()
    return x
def control_d(x):
    with settings.fast_pred_samples(True):
        return x
'''


def check_who_may_write(idx: ProgramIndex, rep: Report, family: set, fields: set):
    # positive control
    ctl = idx.load_source("gpytorch._verif_control_c20", CONTROL)
    hits = 0
    for fn in ctl.functions.values():
        hits += len(_writer_sites(idx, ctl, None, fn.node, family, fields))
    stored = _stored_instances(idx, ctl, family)
    if hits < 3 or len(stored) < 1:
        raise AnalysisError("C20-5: positive control not matched (%d writer sites, %d stored instances)" % (hits, len(stored)))
    del idx.modules["gpytorch._verif_control_c20"]
    rep.add("C20-5", "positive-control", "<control fragment>", True, "matcher found %d seeded writer sites in the control fragment" % hits, trivial=True)

    nfun = 0
    bad = []
    for mi in idx.modules.values():
        if not mi.name.startswith("gpytorch"):
            continue
        # module-level statements and all functions
        for fi in [f for f in idx.all_functions() if f.module is mi]:
            nfun += 1
            if fi.cls is not None and fi.cls.key in family:
                continue  # protocol/classmethods of setting classes themselves (checked by C20-2/4)
            for node, what in _writer_sites(idx, mi, fi.cls, fi.node, family, fields):
                bad.append((fi, node, what))
        for st in mi.tree.body:
            if isinstance(st, (ast.FunctionDef, ast.ClassDef, ast.AsyncFunctionDef)):
                continue
            for node, what in _writer_sites(idx, mi, None, st, family, fields):
                bad.append((None, node, "%s at module level of %s" % (what, mi.name)))
    rep.analysed["C20-5 functions scanned for foreign writers"] = nfun
    rep.add("C20-5", "gpytorch:<all functions>", "gpytorch/", not bad,
            "no store/setter call/setattr on a setting class outside the setting classes (%d functions scanned)" % nfun if not bad else
            "; ".join("%s in %s @ %s:%d" % (w, f.qualname if f else "<module>", (f.module.relpath if f else "?"), n.lineno) for f, n, w in bad[:5]),
            {"functions_scanned": nfun, "sites": [(f.qualname if f else "<module>", norm(n)[:80], w) for f, n, w in bad]})
    # setter classmethods defined in setting classes may only be called from protocol methods of the same family:
    # (covered above because calls `X._set_*` outside family are reported)


def _stored_instances(idx: ProgramIndex, mi: ModuleInfo, family: set) -> List[ast.AST]:
    """Calls constructing a setting instance that are not directly a `with` item."""
    with_items = set()
    for n in ast.walk(mi.tree):
        if isinstance(n, (ast.With, ast.AsyncWith)):
            for it in n.items:
                with_items.add(id(it.context_expr))
    # an instance that is only the receiver of an immediate attribute access (`settings.debug().on()`) never
    # escapes and is never entered: not a stored instance
    receivers = set()
    for n in ast.walk(mi.tree):
        if isinstance(n, ast.Attribute) and isinstance(n.value, ast.Call) and n.attr not in ("__enter__", "__exit__"):
            receivers.add(id(n.value))
    out = []
    for n in ast.walk(mi.tree):
        if isinstance(n, ast.Call) and id(n) not in with_items and id(n) not in receivers:
            r = idx.resolve_expr(mi, n.func)
            if isinstance(r, ClassInfo) and r.key in family:
                out.append(n)
    return out


def check_with_sites(idx: ProgramIndex, rep: Report, family: set):
    nsites = 0
    for mi in list(idx.modules.values()):
        if not mi.name.startswith("gpytorch"):
            continue
        for n in ast.walk(mi.tree):
            if isinstance(n, (ast.With, ast.AsyncWith)):
                for it in n.items:
                    e = it.context_expr
                    if isinstance(e, ast.Call):
                        r = idx.resolve_expr(mi, e.func)
                        if isinstance(r, ClassInfo) and r.key in family:
                            nsites += 1
                            rep.add("C20-6", "%s:with %s" % (mi.name, norm(e)), "%s:%d" % (mi.relpath, n.lineno), True,
                                    "fresh instance constructed in the with item", {"setting": r.qualname})
                    else:
                        # a name used as context manager: is it a stored setting instance?
                        pass
        # stored instances (constructed outside a with item), except inside setting classes (composites)
        for call in _stored_instances(idx, mi, family):
            owner = _enclosing_class(mi, call)
            if owner is not None and (mi.name, owner) in family:
                continue
            if mi.name == "gpytorch.beta_features" and _enclosing_class(mi, call) == "_moved_beta_feature":
                continue
            rep.add("C20-6", "%s:stored %s" % (mi.name, norm(call)), "%s:%d" % (mi.relpath, call.lineno), False,
                    "setting instance constructed outside a `with` item: the previous value is captured at construction, "
                    "so a stored/re-entered instance restores a stale value", {})
    rep.floor("C20-6", "with-sites on settings inside gpytorch", nsites, 10)


def _enclosing_class(mi: ModuleInfo, node: ast.AST) -> Optional[str]:
    for c in ast.walk(mi.tree):
        if isinstance(c, ast.ClassDef):
            for n in ast.walk(c):
                if n is node:
                    return c.name
    return None


DOC_SINGLE = re.compile(r"\(Default:\s*([^)\s]+)\s*\)")
DOC_PLAIN = re.compile(r"^\s*Default:\s*(\S+)\s*$", re.M)
DOC_DTYPE = re.compile(r"Default for `(\w+)`:\s*(\S+)")


def _lit(node) -> Optional[Any]:
    if isinstance(node, ast.Constant):
        return node.value
    if isinstance(node, ast.UnaryOp) and isinstance(node.op, ast.USub) and isinstance(node.operand, ast.Constant):
        return -node.operand.value
    c = chain(node)
    return c


def _parse_doc_value(text: str):
    text = text.rstrip(".,")
    if text in ("True", "False"):
        return text == "True"
    try:
        return float(text)
    except ValueError:
        return text


def check_doc_defaults(idx: ProgramIndex, rep: Report, models: Dict[Tuple[str, str], SettingModel]):
    n = 0
    skipped = 0
    for key in sorted(models):
        C = models[key].C
        doc = ast.get_docstring(C.node) or ""
        pairs = []
        for dt, val in DOC_DTYPE.findall(doc):
            pairs.append(("_global_%s_value" % dt, val))
        ms = DOC_SINGLE.findall(doc) or DOC_PLAIN.findall(doc)
        if ms:
            if C.is_subclass_of("_feature_flag"):
                pairs.append(("_default", ms[-1]))
            elif C.is_subclass_of("_value_context"):
                pairs.append(("_global_value", ms[-1]))
            else:
                skipped += 1
        if not pairs:
            skipped += 1
            continue
        for fieldname, text in pairs:
            a = C.lookup_attr(fieldname)
            coded = _lit(a[1]) if a else None
            docv = _parse_doc_value(text)
            same = coded == docv or (isinstance(coded, (int, float)) and isinstance(docv, float) and not isinstance(coded, bool) and float(coded) == docv)
            n += 1
            rep.add("C20-7", "%s:%s:%s" % (C.module.name, C.qualname, fieldname), C.where, bool(same),
                    "documented default %r = coded default %r" % (text, coded) if same else "documented default %r but coded default of %s is %r" % (text, fieldname, coded),
                    {"documented": text, "coded": str(coded)})
    rep.analysed["C20-7 classes without a parsable documented default (skipped)"] = skipped
    rep.floor("C20-7", "documented defaults compared", n, 40)


# ---- C20-8 ---------------------------------------------------------------------------------------------------------
CONTROL_C20_8 = '''
class control_setting:
    def __init__(self, float_value=None, double_value=None):
        self._a = float_value or self._orig_a
        self._b = double_value if double_value is not None else self._orig_b
        self._c = float_value if float_value else self._orig_a
'''


def _truthiness_selections(fn: ast.AST, params: List[str]) -> Tuple[List[ast.AST], List[ast.AST]]:
    """(selections by truthiness, selections by `is None`) between a None-defaulted value parameter and a fallback"""
    bad, good = [], []
    for n in ast.walk(fn):
        if isinstance(n, ast.BoolOp) and isinstance(n.op, ast.Or) and isinstance(n.values[0], ast.Name) and n.values[0].id in params:
            bad.append(n)
        elif isinstance(n, (ast.IfExp, ast.If)):
            t = n.test
            neg = False
            while isinstance(t, ast.UnaryOp) and isinstance(t.op, ast.Not):
                t, neg = t.operand, not neg
            if isinstance(t, ast.Name) and t.id in params:
                bad.append(n)
            elif isinstance(t, ast.Compare) and len(t.ops) == 1 and isinstance(t.ops[0], (ast.Is, ast.IsNot)) and isinstance(t.left, ast.Name) and t.left.id in params \
                    and isinstance(t.comparators[0], ast.Constant) and t.comparators[0].value is None:
                good.append(n)
    return bad, good


def check_given_vs_default(idx: ProgramIndex, rep: Report, family: set):
    import ast as _ast
    ctl = _ast.parse(CONTROL_C20_8).body[0].body[0]
    b, g = _truthiness_selections(ctl, ["float_value", "double_value"])
    if (len(b), len(g)) != (2, 1):
        raise AnalysisError("C20-8: positive control not matched (%d truthiness selections, %d `is None` selections)" % (len(b), len(g)))
    rep.add("C20-8", "positive-control", "<control fragment>", True, "`x or default` and `x if x else default` are told apart from `x if x is not None else default`", trivial=True)
    n = 0
    for key in sorted(family):
        ci = idx.classes.get(key)
        if ci is None:
            continue
        for mname in ("__init__", "__call__", "_set_value", "_set_state"):
            fi = ci.methods.get(mname)
            if fi is None:
                continue
            a = fi.node.args
            allp = a.posonlyargs + a.args + a.kwonlyargs
            defaults = [None] * (len(a.posonlyargs + a.args) - len(a.defaults)) + list(a.defaults) + list(a.kw_defaults)
            # value parameters: defaulted to None (absence marker), i.e. 0 / 0.0 / False are legal explicit values
            vparams = [p.arg for p, d in zip(allp, defaults) if isinstance(d, ast.Constant) and d.value is None]
            if mname in ("_set_value", "_set_state"):
                vparams = [p.arg for p in allp[1:]]
            if not vparams:
                continue
            bad, good = _truthiness_selections(fi.node, vparams)
            if not bad and not good:
                continue
            n += 1
            rep.add("C20-8", "%s:%s.%s" % (ci.module.name, ci.qualname, mname), fi.where, not bad,
                    "%d selection(s) between a given value and the fallback, all by `is None`" % len(good) if not bad else
                    "`%s` selects the fallback whenever the argument is falsy: a block entered with 0 (or 0.0 / False) does not set that value, so the innermost block no longer determines it" % " ".join(src(bad[0]).split())[:70], {"by_is_none": len(good)})
    rep.floor("C20-8", "methods selecting between a given value and a fallback", n, 2)


# ---- C20-9 ---------------------------------------------------------------------------------------------------------
def check_capture_phase(idx: ProgramIndex, rep: Report, models):
    """`on exit the previously visible value is restored`: previously visible when the block was ENTERED.  An instance that reads the
    global in its constructor restores the value of construction time: `inner = S(100)` created before `with S(5): with inner: ...` puts
    the default back while the outer block is still open (and an instance used for a second block restores the value of its first)."""
    rep.rule("C20-9", "the value __exit__ restores is read from the global field in __enter__ (what is visible when the block is entered, not when the object was created) and saved per entry (pushed / popped), so that an object entered twice restores both times")
    n = 0
    third_party = []
    for key in sorted(models):
        m = models[key]
        C = m.C
        for f, phases in sorted(m.capture_phase.items()):
            if not phases:
                continue
            n += 1
            if not C.module.relpath.startswith("gpytorch/"):
                if "init" in phases:
                    third_party.append("%s.%s" % (C.qualname, f))
                continue
            ok = phases == {"enter-stack"}
            if phases == {"enter"}:
                rep.add("C20-9", "%s:%s:%s" % (C.module.name, C.qualname, f), C.where, False,
                        "%s is saved by __enter__ into a single slot of the object: entering the same object again while its block is open (`with c: with c: ...`) overwrites the saved value, and after both exits the block's value stays in effect outside all blocks - __enter__ has to push, __exit__ to pop" % f, {"phases": sorted(phases)})
                continue
            rep.add("C20-9", "%s:%s:%s" % (C.module.name, C.qualname, f), C.where, ok,
                    "saved per entry in __enter__, taken back by __exit__" if ok else
                    "%s is restored from a value read in the constructor: an instance created before an enclosing block of the same setting was entered (or used for a second block) restores past that block - inside `with S(5): with inner:` the value after `inner` exits is the one of construction time, not 5" % f, {"phases": sorted(phases)})
    rep.add("C20-9", "linear_operator.settings:<re-exported settings>[capture at construction]", "linear_operator/settings.py", not third_party,
            "the re-exported settings capture at entry" if not third_party else
            "the settings re-exported from linear_operator capture the previous value in their constructor (%d class fields: %s ...): third-party file, not repairable in /repo" % (len(third_party), ", ".join(third_party[:6])), {"fields": third_party})
    rep.floor("C20-9", "restored fields with a known capture phase", n, 20)
