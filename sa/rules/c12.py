"""C12 - Gaussian-family likelihoods add exactly the specified noise.

Decides: every `marginal` of the Gaussian likelihood hierarchy returns input-class(mean unchanged, covariance + exactly one
shaped-noise term); the call-time `noise` keyword reaches at most one honouring noise model where several are summed; list
containers pair member i with argument i and forward keyword mappings as keywords.  (DESIGN.md section 4, C12-1 ... C12-3.)
"""
from __future__ import annotations

import ast
from fractions import Fraction
from typing import Dict, List, Optional, Set, Tuple

from ..cfg import enumerate_paths, RETURN, FALL
from ..domains.affine import Affine, AffineEval
from ..index import (AnalysisError, ClassInfo, FuncInfo, ProgramIndex, body_without_docstring, call_name, calls_in, chain,
                     const_str, is_super_call, norm, src, walk_no_nested)
from ..report import Report


def run(idx: ProgramIndex, rep: Report, tier: str):
    rep.explanation = (
        "C12-1: each marginal() of the _GaussianLikelihoodBase hierarchy is evaluated path by path in an affine-form domain with "
        "sources MEAN/COVAR (the input distribution's fields) and NOISE (a call of self._shaped_noise_covar): the constructor of the "
        "result must be the input's class, receive MEAN unchanged and exactly 1*COVAR + 1*NOISE, and propagate the layout flag in the "
        "multitask case. C12-2: in every _shaped_noise_covar that sums several noise-model calls the `noise` keyword may flow to at "
        "most one callee that honours it (callee summaries from the noise models' forward signatures). C12-3: every delegating "
        "comprehension of LikelihoodList zips self.likelihoods, in order, with the per-member argument tuples (and noise) and forwards "
        "keyword mappings with ** (never a positional dict). Does not decide expected_log_prob/log_marginal numerics.")
    rep.rule("C12-1", "marginal = input class(mean unchanged, 1*covariance + 1*shaped noise), layout flag propagated")
    rep.rule("C12-2", "the call-time `noise` keyword reaches at most one additive noise term that honours it")
    rep.rule("C12-4", "sibling methods of the base likelihood obtain the noise through _shaped_noise_covar and forward *params/**kwargs to it")
    rep.rule("C12-3", "LikelihoodList pairs member i with argument tuple i (and noise i) and forwards keyword mappings as keywords")
    rep.rule("C12-5", "no in-place aliasing hazard in the Gaussian likelihoods and noise models (storage/version domain)")
    marginals(idx, rep)
    noise_keyword(idx, rep)
    sibling_forwarding(idx, rep)
    multitask_global_noise(idx, rep)
    noise_first(idx, rep)
    aliasing(idx, rep)
    list_routing(idx, rep, "LikelihoodList", "likelihoods", "C12-3", 5)


# ---- C12-1 ---------------------------------------------------------------------------------------------------------
    configured_defaults(idx, rep)
    sibling_keyword_split(idx, rep)
    full_noise_used(idx, rep)
    call_time_noise_forwarded(idx, rep)
    positional_contract(idx, rep)
    whole_noise_outside(idx, rep)
    call_time_noise_priority(idx, rep)
    container_interface_complete(idx, rep)
    keyword_translated_for_all_entry_points(idx, rep)
    noise_given_convention(idx, rep)


def marginals(idx: ProgramIndex, rep: Report):
    base = idx.find_class("_GaussianLikelihoodBase")
    n = 0
    for cls in idx.subclasses(base):
        fi = cls.methods.get("marginal")
        if fi is None:
            continue
        n += 1
        inst = "%s:%s.marginal" % (cls.module.name, cls.qualname)
        dist = fi.params[1] if len(fi.params) > 1 else None
        if dist is None:
            rep.add("C12-1", inst, fi.where, False, "marginal has no distribution parameter", {})
            continue
        probs, facts = check_marginal(fi, dist)
        rep.add("C12-1", inst, fi.where, not probs, facts.get("summary", "ok") if not probs else "; ".join(probs), facts)
    rep.floor("C12-1", "marginal implementations", n, 4)


def check_marginal(fi: FuncInfo, dist: str) -> Tuple[List[str], dict]:
    probs: List[str] = []
    facts: dict = {}
    sn = fi.params[0]
    npaths = 0
    for p in enumerate_paths(body_without_docstring(fi.node)):
        if p.outcome != RETURN:
            if p.outcome == FALL:
                probs.append("a path of marginal falls off the end without returning a distribution")
            continue
        npaths += 1

        def classify(e, dist=dist, sn=sn):
            c = chain(e)
            if c in ("%s.lazy_covariance_matrix" % dist, "%s.covariance_matrix" % dist):
                return ("source", "COVAR")
            if c in ("%s.mean" % dist, "%s.loc" % dist):
                return ("source", "MEAN")
            if isinstance(e, ast.Call) and chain(e.func) == "%s._shaped_noise_covar" % sn:
                return ("source", "NOISE")
            return None

        ae = AffineEval(classify)
        ret = None
        for s in p.steps:
            if s.kind != "stmt":
                continue
            st = s.node
            if isinstance(st, ast.Assign) and len(st.targets) == 1:
                t = st.targets[0]
                if isinstance(t, ast.Tuple) and isinstance(st.value, ast.Tuple) and len(t.elts) == len(st.value.elts):
                    vals = [ae.ev(v) for v in st.value.elts]
                    for te, v in zip(t.elts, vals):
                        if isinstance(te, ast.Name):
                            ae.env[te.id] = v
                elif isinstance(t, ast.Name):
                    ae.env[t.id] = ae.ev(st.value)
            elif isinstance(st, ast.AugAssign) and isinstance(st.target, ast.Name):
                ae.env[st.target.id] = ae.binop(st.op, ae.env.get(st.target.id), ae.ev(st.value), st)
            elif isinstance(st, ast.Return):
                ret = st.value
        if ret is None:
            probs.append("marginal returns None on a path")
            continue
        if isinstance(ret, ast.Call) and is_super_call(ret, "marginal"):
            ok = ret.args and isinstance(ret.args[0], ast.Name) and ret.args[0].id == dist
            if not ok:
                probs.append("delegation to super().marginal does not pass the input distribution first")
            facts["summary"] = "delegates to super().marginal(%s, ...)" % dist
            continue
        if not isinstance(ret, ast.Call):
            probs.append("marginal returns `%s`, not a distribution constructor" % src(ret)[:60])
            continue
        ctor = chain(ret.func)
        if ctor != "%s.__class__" % dist and src(ret.func) != "type(%s)" % dist:
            probs.append("result is built with `%s`, not with the class of the input distribution" % src(ret.func))
        args = list(ret.args)
        kw = {k.arg: k.value for k in ret.keywords}
        mean_e = args[0] if args else kw.get("mean")
        cov_e = args[1] if len(args) > 1 else kw.get("covariance_matrix")
        mv = ae.ev(mean_e) if mean_e is not None else None
        cv = ae.ev(cov_e) if cov_e is not None else None
        if not (isinstance(mv, Affine) and mv.terms == {("MEAN", ()): Fraction(1)}):
            probs.append("mean of the marginal is `%s`, not the input mean unchanged" % (mv.show() if isinstance(mv, Affine) else src(mean_e) if mean_e is not None else None))
        want = {("COVAR", ()): Fraction(1), ("NOISE", ()): Fraction(1)}
        if not (isinstance(cv, Affine) and cv.terms == want):
            probs.append("covariance of the marginal is `%s`, expected exactly +COVAR +NOISE (noise added once)" % (cv.show() if isinstance(cv, Affine) else src(cov_e) if cov_e is not None else None))
        if ae.unknown:
            probs.append("unclassified term in the covariance sum: %s" % ae.unknown[0])
        # layout propagation (multitask)
        uses_layout = any(isinstance(n, ast.Attribute) and n.attr == "_interleaved" for n in ast.walk(fi.node))
        if uses_layout:
            k = kw.get("interleaved")
            if k is None or chain(k) != "%s._interleaved" % dist:
                probs.append("the layout flag of the input is not passed to the result constructor")
            for c in calls_in(fi.node):
                if chain(c.func) == "%s._shaped_noise_covar" % sn:
                    kk = {x.arg: x.value for x in c.keywords}
                    if "interleaved" not in kk or chain(kk["interleaved"]) != "%s._interleaved" % dist:
                        probs.append("the noise term is not built in the layout of the input distribution")
        facts["summary"] = "result = %s.__class__(MEAN, %s)%s on %d path(s)" % (dist, cv.show() if isinstance(cv, Affine) else "?", " with layout flag propagated" if uses_layout else "", npaths)
        facts["covariance"] = cv.show() if isinstance(cv, Affine) else None
    facts["paths"] = npaths
    return sorted(set(probs)), facts


# ---- C12-2 ---------------------------------------------------------------------------------------------------------
def honours_noise(idx: ProgramIndex, cls: ClassInfo) -> bool:
    f = cls.lookup("forward")
    if f is None:
        return False
    a = f.node.args
    if any(x.arg == "noise" for x in a.args + a.kwonlyargs):
        return True
    for n in ast.walk(f.node):
        if isinstance(n, ast.Constant) and n.value == "noise":
            return True
    return False


def attr_classes(idx: ProgramIndex, cls: ClassInfo, attr: str) -> List[ClassInfo]:
    """Classes constructed and stored in self.<attr> anywhere in the MRO (constructor typing), else annotation."""
    out = []
    for k in cls.repo_mro():
        for m in k.methods.values():
            for n in ast.walk(m.node):
                tg, val = None, None
                if isinstance(n, ast.Assign):
                    tg, val = n.targets, n.value
                elif isinstance(n, ast.AnnAssign):
                    tg, val = [n.target], n.value
                if tg and any(chain(t) == "self." + attr for t in tg) and val is not None:
                    if isinstance(val, ast.Call):
                        r = idx.resolve_expr(m.module, val.func)
                        if isinstance(r, ClassInfo):
                            out.append(r)
                    elif isinstance(val, ast.Name):
                        # a constructor parameter: use its annotation
                        for a in m.node.args.args:
                            if a.arg == val.id and a.annotation is not None:
                                for nm in ast.walk(a.annotation):
                                    if isinstance(nm, ast.Name):
                                        r = idx.resolve_name(m.module, nm.id)
                                        if isinstance(r, ClassInfo):
                                            out.append(r)
    return out


def _filtered_locals(fn: ast.AST, kwname: str) -> Set[str]:
    """locals bound to a copy of **kwargs with the 'noise' key removed"""
    out = set()
    for n in ast.walk(fn):
        if isinstance(n, ast.Assign) and len(n.targets) == 1 and isinstance(n.targets[0], ast.Name):
            v = n.value
            if isinstance(v, ast.DictComp) and len(v.generators) == 1:
                g = v.generators[0]
                if src(g.iter) == "%s.items()" % kwname and any(_excludes_noise(c) for c in g.ifs):
                    out.add(n.targets[0].id)
    return out


def _excludes_noise(test: ast.AST) -> bool:
    if isinstance(test, ast.Compare) and len(test.ops) == 1 and isinstance(test.ops[0], (ast.NotEq, ast.NotIn)):
        return any(isinstance(c, ast.Constant) and c.value == "noise" for c in ast.walk(test))
    return False


def noise_keyword(idx: ProgramIndex, rep: Report):
    base = idx.find_class("_GaussianLikelihoodBase")
    noise_base = idx.find_class("Noise")
    n_models = 0
    for nm in idx.subclasses(noise_base) + [idx.find_class("FixedGaussianNoise")]:
        if "forward" in nm.methods:
            n_models += 1
    rep.analysed["C12-2 noise model forwards summarised"] = n_models
    n = 0
    for cls in idx.subclasses(base):
        fi = cls.methods.get("_shaped_noise_covar")
        if fi is None:
            continue
        n += 1
        sn = fi.params[0]
        kwname = fi.node.args.kwarg.arg if fi.node.args.kwarg else None
        filtered = _filtered_locals(fi.node, kwname) if kwname else set()
        popped = kwname is not None and any(isinstance(c, ast.Call) and chain(c.func) == "%s.pop" % kwname and c.args and const_str(c.args[0]) == "noise" for c in ast.walk(fi.node))
        calls = []
        for c in calls_in(fi.node):
            f = c.func
            if isinstance(f, ast.Attribute) and isinstance(f.value, ast.Name) and f.value.id == sn and f.attr != "_shaped_noise_covar":
                classes = attr_classes(idx, cls, f.attr)
                noise_like = [k for k in classes if k.is_subclass_of(noise_base) or k.name == "FixedGaussianNoise"]
                if not noise_like:
                    continue
                honours = any(honours_noise(idx, k) for k in noise_like)
                may = False
                for k in c.keywords:
                    if k.arg is None and isinstance(k.value, ast.Name):
                        if k.value.id == kwname and not popped:
                            may = True
                        elif k.value.id in filtered:
                            may = False
                        elif k.value.id != kwname:
                            may = True  # unknown mapping: conservative
                    elif k.arg == "noise":
                        may = True
                calls.append((f.attr, honours, may, c.lineno))
        receiving = [c for c in calls if c[1] and c[2]]
        inst = "%s:%s._shaped_noise_covar" % (cls.module.name, cls.qualname)
        ok = len(receiving) <= 1
        rep.add("C12-2", inst, fi.where, ok,
                "%d noise-model call(s); the `noise` keyword can reach %d honouring callee(s)" % (len(calls), len(receiving)) if ok else
                "the call-time `noise` keyword is forwarded to %d summed noise models that honour it (%s): the passed noise is counted more than once and the other model's own noise is dropped" % (len(receiving), ", ".join(c[0] for c in receiving)),
                {"noise_model_calls": [(c[0], "honours" if c[1] else "ignores", "may receive noise" if c[2] else "noise stripped") for c in calls]})
    rep.floor("C12-2", "_shaped_noise_covar implementations", n, 3)


def sibling_forwarding(idx: ProgramIndex, rep: Report):
    base = idx.find_class("_GaussianLikelihoodBase")
    n = 0
    for name in ("expected_log_prob", "forward", "marginal"):
        fi = idx.method(base, name, own=True)
        sn = fi.params[0]
        va = fi.node.args.vararg.arg if fi.node.args.vararg else None
        kw = fi.node.args.kwarg.arg if fi.node.args.kwarg else None
        calls = [c for c in calls_in(fi.node) if chain(c.func) == "%s._shaped_noise_covar" % sn]
        n += 1
        probs = []
        if len(calls) != 1:
            probs.append("%d calls of _shaped_noise_covar (expected exactly one)" % len(calls))
        for c in calls:
            if va and not any(isinstance(a, ast.Starred) and isinstance(a.value, ast.Name) and a.value.id == va for a in c.args):
                probs.append("*%s is not forwarded to the noise model" % va)
            if kw and not any(k.arg is None and isinstance(k.value, ast.Name) and k.value.id == kw for k in c.keywords):
                probs.append("**%s (which carries the call-time noise) is not forwarded to the noise model" % kw)
        # no other source of noise
        for a in walk_no_nested(fi.node):
            if isinstance(a, ast.Attribute) and chain(a) in ("%s.noise" % sn, "%s.noise_covar.noise" % sn):
                probs.append("reads %s directly instead of the shaped noise" % chain(a))
        rep.add("C12-4", "%s:%s.%s" % (base.module.name, base.qualname, name), fi.where, not probs,
                "noise obtained once through _shaped_noise_covar with *params/**kwargs forwarded" if not probs else "; ".join(probs), {})
    rep.floor("C12-4", "sibling methods", n, 3)


def multitask_global_noise(idx: ProgramIndex, rep: Report):
    """In the multitask noise the global sigma^2 enters at most once per path, and only under `add_noise and has_global_noise`
    (or alone when there is no task noise)."""
    L = idx.find_class("_MultitaskGaussianLikelihoodBase")
    fi = idx.method(L, "_shaped_noise_covar", own=True)
    sn = fi.params[0]
    probs = []
    npaths = 0
    for p in enumerate_paths(body_without_docstring(fi.node)):
        if p.outcome != RETURN:
            continue
        npaths += 1
        uses = [s for s in p.steps if s.kind == "stmt" and any(chain(a) == "%s.noise" % sn for a in ast.walk(s.node) if isinstance(a, ast.Attribute))]
        if len(uses) > 1:
            probs.append("the global noise enters %d times on one path" % len(uses))
        conds = [(src(s.node), s.truth) for s in p.steps if s.kind == "assume"]
        if uses:
            no_task = any(t == "not %s.has_task_noise" % sn and v for t, v in conds)
            guarded = any("add_noise" in t and "has_global_noise" in t and v for t, v in conds)
            if not (no_task or guarded):
                probs.append("the global noise is added on a path that did not test `add_noise and has_global_noise`")
    rep.add("C12-1", "%s:_MultitaskGaussianLikelihoodBase._shaped_noise_covar[global noise once]" % L.module.name, fi.where, not probs and npaths >= 4,
            "on all %d paths sigma^2 enters at most once and only when requested" % npaths if not probs else "; ".join(sorted(set(probs))), {"paths": npaths})
    mg = idx.method(L, "marginal", own=True)
    ok = any(chain(c.func) == "self._shaped_noise_covar" and any(k.arg == "add_noise" and src(k.value) == "self.has_global_noise" for k in c.keywords) for c in calls_in(mg.node))
    rep.add("C12-1", "%s:_MultitaskGaussianLikelihoodBase.marginal[add_noise]" % L.module.name, mg.where, ok, "the marginal requests the global noise exactly when the likelihood has one" if ok else "marginal no longer passes add_noise=self.has_global_noise", {})


def noise_first(idx: ProgramIndex, rep: Report):
    """A noise model that honours the call-time `noise` must decide on it before anything else: every returning path either
    returns a value built from the passed noise or has tested that no noise was passed."""
    noise_base = idx.find_class("Noise")
    classes = [c for c in idx.subclasses(noise_base)] + [idx.find_class("FixedGaussianNoise")]
    n = 0
    for cls in classes:
        fw = cls.methods.get("forward")
        if fw is None or not honours_noise(idx, cls):
            continue
        n += 1
        a = fw.node.args
        has_param = any(x.arg == "noise" for x in a.args + a.kwonlyargs)
        kw = a.kwarg.arg if a.kwarg else None

        noise_locals: set = set()

        def mentions_noise(e):
            for x in ast.walk(e):
                if has_param and isinstance(x, ast.Name) and x.id == "noise":
                    return True
                if isinstance(x, ast.Constant) and x.value == "noise":
                    return True
                if isinstance(x, ast.Name) and x.id in noise_locals:
                    return True  # a local that holds the call-time noise (`given = kwargs.get("noise")`)
            return False
        for a_ in ast.walk(fw.node):
            if isinstance(a_, ast.Assign) and len(a_.targets) == 1 and isinstance(a_.targets[0], ast.Name) and isinstance(a_.value, ast.Call) and isinstance(a_.value.func, ast.Attribute) \
                    and a_.value.func.attr in ("get", "pop") and a_.value.args and isinstance(a_.value.args[0], ast.Constant) and a_.value.args[0].value == "noise":
                noise_locals.add(a_.targets[0].id)

        probs = []
        npaths = 0
        for p in enumerate_paths(body_without_docstring(fw.node)):
            if p.outcome != RETURN:
                continue
            npaths += 1
            tested_absent = False
            passed_noise_locals = set()
            ret = None
            def atoms(test, truth):
                """(atom, truth) pairs implied by assuming test == truth"""
                if isinstance(test, ast.BoolOp):
                    if (isinstance(test.op, ast.And) and truth) or (isinstance(test.op, ast.Or) and not truth):
                        for v in test.values:
                            yield from atoms(v, truth)
                    return
                if isinstance(test, ast.UnaryOp) and isinstance(test.op, ast.Not):
                    yield from atoms(test.operand, not truth)
                    return
                yield test, truth

            for s in p.steps:
                if s.kind == "assume":
                    for atom, tr in atoms(s.node, s.truth):
                        if not mentions_noise(atom):
                            continue
                        t = src(atom)
                        present_when_true = ("is not None" in t) or (" in " in t and "not in" not in t)
                        if (present_when_true and tr is False) or (not present_when_true and tr is True):
                            tested_absent = True
                if s.kind == "stmt" and isinstance(s.node, ast.Return):
                    ret = s.node.value
            if ret is None:
                continue
            if mentions_noise(ret) or tested_absent:
                continue
            probs.append("a path returns `%s` without having looked at the call-time noise: a noise passed by the caller is ignored there" % src(ret)[:50])
        rep.add("C12-2", "%s:%s.forward[call-time noise first]" % (cls.module.name, cls.qualname), fw.where, not probs and npaths > 0,
                "on all %d returning paths the call-time noise is either used or was tested to be absent" % npaths if not probs else "; ".join(sorted(set(probs))), {"paths": npaths})
    rep.floor("C12-2", "noise models honouring call-time noise", n, 3)


# ---- C12-3 (shared with C08-3) -------------------------------------------------------------------------------------
def list_routing(idx: ProgramIndex, rep: Report, clsname: str, member_attr: str, rule: str, floor: int):
    """member i <-> argument tuple i, in comprehension form or as a for loop that appends; per-member keywords are fresh for every
    member (a keyword mapping shared by all members must not be modified inside the loop)"""
    cls = idx.find_class(clsname)
    n = 0

    def is_member_zip(it) -> bool:
        return isinstance(it, ast.Call) and (chain(it.func) or "").split(".")[-1] in ("zip", "length_safe_zip") and bool(it.args) and "self.%s" % member_attr in src(it)

    def check_call(it, tg, elt, probs):
        if chain(it.args[0]) != "self.%s" % member_attr:
            probs.append("the members are not iterated in order as the first zip operand (`%s`)" % src(it.args[0]))
        names = [e.id for e in tg.elts if isinstance(e, ast.Name)] if isinstance(tg, ast.Tuple) else []
        if len(names) != len(it.args):
            probs.append("zip operands and loop targets do not match")
        if not isinstance(elt, ast.Call):
            probs.append("element is not a call on the member")
        elif names:
            recv = elt.func
            root = recv
            while isinstance(root, ast.Attribute):
                root = root.value
            if not (isinstance(root, ast.Name) and root.id == names[0]):
                probs.append("the call is not made on the zipped member `%s`" % names[0])
            # positional arguments: the member's own tuple, starred
            for a in elt.args:
                if isinstance(a, ast.Starred):
                    if not (isinstance(a.value, ast.Name) and a.value.id in names[1:]):
                        probs.append("starred positional arguments `%s` are not the member's own zipped tuple" % src(a.value))
                elif isinstance(a, ast.Dict):
                    probs.append("a keyword mapping is passed as a positional dict display (`%s`): the member receives it as a parameter" % src(a)[:50])
                elif isinstance(a, ast.Name) and a.id in names[1:]:
                    pass
                elif isinstance(a, ast.Name) and a.id not in names:
                    probs.append("positional argument `%s` is shared by all members instead of being zipped" % a.id)
        return names

    def forwarded(extra, elt, extra_sources=()) -> bool:
        return any(isinstance(a, ast.Starred) and isinstance(a.value, ast.Name) and a.value.id == extra for a in elt.args) \
            or any(isinstance(a, ast.Name) and a.id == extra for a in elt.args) \
            or any(not isinstance(a, ast.Starred) and {x.id for x in ast.walk(a) if isinstance(x, ast.Name)} - {"len", "list", "tuple"} == {extra} for a in elt.args) \
            or any(any(isinstance(x, ast.Name) and x.id == extra for x in ast.walk(k.value)) for k in elt.keywords) \
            or any(any(isinstance(x, ast.Name) and x.id == extra for x in ast.walk(e)) for e in extra_sources)

    for name, fi in sorted(cls.methods.items()):
        for comp in [c for c in ast.walk(fi.node) if isinstance(c, (ast.ListComp, ast.GeneratorExp))]:
            if len(comp.generators) != 1 or not is_member_zip(comp.generators[0].iter):
                continue
            g = comp.generators[0]
            n += 1
            inst = "%s:%s.%s[%s]" % (cls.module.name, cls.qualname, name, norm(g.iter)[:70])
            probs: List[str] = []
            names = check_call(g.iter, g.target, comp.elt, probs)
            if isinstance(comp.elt, ast.Call):
                for extra in names[1:]:
                    if not forwarded(extra, comp.elt):
                        probs.append("per-member value `%s` is zipped but not forwarded to the member" % extra)
            rep.add(rule, inst, "%s:%d" % (fi.module.relpath, comp.lineno), not probs, "member i <-> argument tuple i, keywords forwarded with **" if not probs else "; ".join(probs), {})
        for loop in [l for l in ast.walk(fi.node) if isinstance(l, ast.For)]:
            if not is_member_zip(loop.iter):
                continue
            n += 1
            inst = "%s:%s.%s[%s]" % (cls.module.name, cls.qualname, name, norm(loop.iter)[:70])
            probs = []
            tnames = [e.id for e in loop.target.elts if isinstance(e, ast.Name)] if isinstance(loop.target, ast.Tuple) else []
            assigned_in_loop = {t.id for st in ast.walk(loop) if isinstance(st, ast.Assign) for t in st.targets if isinstance(t, ast.Name)}
            calls = [c for st in loop.body for c in ast.walk(st) if isinstance(c, ast.Call) and tnames and any(isinstance(x, ast.Name) and x.id == tnames[0] for x in ast.walk(c.func))]
            if not calls:
                probs.append("no call on the zipped member in the loop body")
            # a mapping/sequence that exists before the loop and is handed to every member must not be modified per member
            passed = {x.id for c in calls for k in c.keywords if k.arg is None for x in ast.walk(k.value) if isinstance(x, ast.Name)} | \
                     {a.value.id for c in calls for a in c.args if isinstance(a, ast.Starred) and isinstance(a.value, ast.Name)}
            for st in ast.walk(loop):
                tgt = None
                if isinstance(st, (ast.Assign, ast.AugAssign)):
                    for t in (st.targets if isinstance(st, ast.Assign) else [st.target]):
                        if isinstance(t, ast.Subscript) and isinstance(t.value, ast.Name):
                            tgt = t.value.id
                elif isinstance(st, ast.Call) and isinstance(st.func, ast.Attribute) and st.func.attr in ("update", "setdefault", "pop", "__setitem__", "clear") and isinstance(st.func.value, ast.Name):
                    tgt = st.func.value.id
                elif isinstance(st, ast.Delete):
                    for t in st.targets:
                        if isinstance(t, ast.Subscript) and isinstance(t.value, ast.Name):
                            tgt = t.value.id
                if tgt is not None and tgt in passed and tgt not in assigned_in_loop and tgt not in tnames:
                    probs.append("`%s` is shared by all members and modified inside the per-member loop (`%s`): member i+1 is called with what was set for member i" % (tgt, " ".join(src(st).split())[:50]))
            for c in calls:
                names = check_call(loop.iter, loop.target, c, probs)
                # values that flow into per-iteration locals count as forwarded through them
                local_defs = [st.value for st in ast.walk(loop) if isinstance(st, ast.Assign)] + [st.value for st in ast.walk(loop) if isinstance(st, ast.Assign) and isinstance(st.targets[0], ast.Subscript)]
                for extra in names[1:]:
                    if not forwarded(extra, c, local_defs):
                        probs.append("per-member value `%s` is zipped but not forwarded to the member" % extra)
            rep.add(rule, inst, "%s:%d" % (fi.module.relpath, loop.lineno), not probs, "member i <-> argument tuple i in a per-member loop with per-member keywords" if not probs else "; ".join(sorted(set(probs))), {})
    rep.floor(rule, "%s delegating iterations" % clsname, n, floor)


def aliasing(idx: ProgramIndex, rep: Report):
    from .common_alias import aliasing_obligations
    funcs = []
    for c in idx.subclasses(idx.find_class("_GaussianLikelihoodBase")) + idx.subclasses(idx.find_class("Noise")) + [idx.find_class("FixedGaussianNoise"), idx.find_class("LikelihoodList")]:
        funcs += list(c.methods.values())
    aliasing_obligations(idx, rep, "C12-5", funcs, 30, "likelihood / noise-model methods interpreted")


# ---- C12-6: configured values are forwarded to helpers that default them ----------------------------------------------------
def configured_defaults(idx: ProgramIndex, rep: Report):
    """A class stores a constructor argument as `self.X = X`.  A method of the same class that takes a parameter X *with a default*
    computes with the default unless the caller passes the configured value: every call of such a method from inside the class
    must pass X (seed of the rule: DirichletClassificationLikelihood.__call__ built call-time noise with the default alpha_epsilon
    instead of self.alpha_epsilon).  Runs over every class of the package."""
    rep.rule("C12-6", "a method parameter that defaults a value the object was configured with (self.X = X in __init__) is passed explicitly at every call site inside the class")
    n = 0
    for cls in sorted(idx.package_classes(), key=lambda c: (c.module.name, c.qualname)):
        cfg = set()
        for k in cls.repo_mro():
            i = k.methods.get("__init__")
            if i is None or not i.params:
                continue
            for a in ast.walk(i.node):
                tg = a.targets[0] if isinstance(a, ast.Assign) and len(a.targets) == 1 else (a.target if isinstance(a, ast.AnnAssign) else None)
                if tg is not None and isinstance(tg, ast.Attribute) and chain(tg.value) == i.params[0] and isinstance(a.value, ast.Name) and a.value.id == tg.attr and a.value.id in i.params:
                    cfg.add(a.value.id)
        if not cfg:
            continue
        meths = cls.all_methods()
        for mname, m in sorted(meths.items()):
            if mname == "__init__":
                continue
            ar = m.node.args
            pos = [x.arg for x in ar.posonlyargs + ar.args]
            defaulted = set(pos[len(pos) - len(ar.defaults):]) | {x.arg for x, d in zip(ar.kwonlyargs, ar.kw_defaults) if d is not None}
            hot = sorted((defaulted & cfg) - {pos[0] if pos else ""})
            if not hot:
                continue
            for caller in meths.values():
                # the constructor passes its own argument (self.X is not set yet)
                for c in calls_in(caller.node):
                    if not (isinstance(c.func, ast.Attribute) and c.func.attr == mname and isinstance(c.func.value, ast.Name)):
                        continue
                    for x in hot:
                        n += 1
                        ip = pos.index(x) - (0 if m.kind == "staticmethod" else 1) if x in pos else 10 ** 6
                        passed = any(k.arg == x for k in c.keywords) or len(c.args) > ip or any(k.arg is None for k in c.keywords)
                        rep.add("C12-6", "%s:%s.%s -> %s[%s]" % (cls.module.name, cls.qualname, caller.name, mname, x), "%s:%d" % (caller.module.relpath, c.lineno), passed,
                                "`%s` is passed" % x if passed else "`%s(...)` is called without `%s`: the helper computes with its default %s instead of the configured self.%s" % (mname, x, x, x), {})
    rep.floor("C12-6", "call sites of helpers that default a configured value", n, 2)


# ---- C12-3 (extension): per-member keywords are split by every delegating method ----------------------------------------------
def sibling_keyword_split(idx: ProgramIndex, rep: Report):
    """If one delegating method of LikelihoodList treats a keyword as a per-member list (`"noise" in kwargs` -> zip), every
    delegating method that forwards **kwargs to the members has to split it the same way; otherwise that method hands the whole
    list to every member."""
    L = idx.find_class("LikelihoodList")
    split: Dict[str, Set[str]] = {}
    delegating: List[FuncInfo] = []
    for name, fi in sorted(L.methods.items()):
        comps = [c for c in ast.walk(fi.node) if isinstance(c, (ast.ListComp, ast.GeneratorExp, ast.For)) and "self.likelihoods" in src(c.generators[0].iter if not isinstance(c, ast.For) else c.iter)]
        if not comps or not fi.node.args.kwarg:
            continue
        # forwards **kwargs to the members?
        fw = any(isinstance(x, ast.Call) and any(k.arg is None for k in x.keywords) for c in comps for x in ast.walk(c))
        if not fw:
            continue
        delegating.append(fi)
        kw = fi.node.args.kwarg.arg
        for t in ast.walk(fi.node):
            if isinstance(t, ast.Compare) and len(t.ops) == 1 and isinstance(t.ops[0], ast.In) and const_str(t.left) and chain(t.comparators[0]) == kw:
                split.setdefault(const_str(t.left), set()).add(name)
            # ... or `kwargs.get("key") is not None`
            if isinstance(t, ast.Compare) and len(t.ops) == 1 and isinstance(t.ops[0], (ast.Is, ast.IsNot)) and isinstance(t.left, ast.Call) and isinstance(t.left.func, ast.Attribute) \
                    and t.left.func.attr == "get" and chain(t.left.func.value) == kw and t.left.args and const_str(t.left.args[0]):
                split.setdefault(const_str(t.left.args[0]), set()).add(name)
    def splits(fi: FuncInfo, key: str) -> bool:
        """a member call (not under `if False`) that is given `key` as its own keyword: key=x or **{..., key: x}"""
        dead = {id(x) for i in ast.walk(fi.node) if isinstance(i, ast.If) and isinstance(i.test, ast.Constant) and not i.test.value for st in i.body for x in ast.walk(st)}
        for c in ast.walk(fi.node):
            if id(c) in dead or not isinstance(c, (ast.ListComp, ast.GeneratorExp, ast.For)):
                continue
            if "self.likelihoods" not in src(c.generators[0].iter if not isinstance(c, ast.For) else c.iter):
                continue
            for x in ast.walk(c):
                # key=x at a call, a per-member dictionary {..., key: x}, or member_kwargs[key] = x inside the iteration
                if isinstance(x, ast.Call) and any(k.arg == key for k in x.keywords):
                    return True
                if isinstance(x, ast.Dict) and any(const_str(kk) == key for kk in x.keys if kk is not None):
                    return True
                if isinstance(x, ast.Subscript) and isinstance(x.ctx, ast.Store) and const_str(x.slice) == key:
                    return True
        return False

    for key, where in sorted(split.items()):
        where = {w for w in where if splits(L.methods[w], key)}
        if not where:
            raise AnalysisError("C12-3: no LikelihoodList method hands `%s` to its members one by one any more (anchor)" % key)
        for fi in delegating:
            ok = fi.name in where
            rep.add("C12-3", "%s:LikelihoodList.%s[per-member keyword `%s`]" % (L.module.name, fi.name, key), fi.where, ok,
                    "splits `%s` per member" % key if ok else
                    "`%s` is a per-member list in %s, but %s forwards **kwargs unsplit: every member receives the whole list" % (key, "/".join(sorted(where)), fi.name), {})


# ---- C12-7: a non-diagonal noise is not reduced to its diagonal ----------------------------------------------------------------
def full_noise_used(idx: ProgramIndex, rep: Report):
    """expected_log_prob = E[log N(y | f, R)] and the conditional p(y | f) = N(f, R) involve the whole noise covariance R.  The
    shared implementations take `self._shaped_noise_covar(...).diagonal(...)`, which is R only when R is diagonal.  A likelihood
    class whose _shaped_noise_covar can build a non-diagonal R (a Root / dense factor inside the Kronecker product: inter-task
    noise of rank > 0) must not inherit them."""
    rep.rule("C12-7", "likelihoods whose noise covariance can be non-diagonal do not reduce it to its diagonal in expected_log_prob / the conditional")
    base = idx.find_class("_GaussianLikelihoodBase")
    n = 0
    for cls in sorted(idx.subclasses(base) + idx.subclasses(idx.find_class("_MultitaskGaussianLikelihoodBase")), key=lambda c: (c.module.name, c.qualname)):
        snc = cls.lookup("_shaped_noise_covar")
        if snc is None:
            continue
        nondiag = [c for c in calls_in(snc.node) if (chain(c.func) or "").split(".")[-1] in ("RootLinearOperator", "DenseLinearOperator", "PsdSumLinearOperator")]
        if not nondiag:
            continue
        for mname in ("expected_log_prob", "forward"):
            m = cls.lookup(mname)
            if m is None:
                continue
            inst = "%s:%s[possibly non-diagonal noise]" % (m.module.name, m.qualname)
            if any(o.rule == "C12-7" and o.instance == inst for o in rep.obligations):
                continue
            n += 1
            diag_only = any(isinstance(c, ast.Call) and isinstance(c.func, ast.Attribute) and c.func.attr == "diagonal" and isinstance(c.func.value, ast.Call) and (chain(c.func.value.func) or "").endswith("_shaped_noise_covar") for c in ast.walk(m.node))
            rep.add("C12-7", inst, m.where, not diag_only,
                    "the whole noise covariance is used" if not diag_only else
                    "%s.%s takes only the diagonal of _shaped_noise_covar(...), but %s._shaped_noise_covar can build a non-diagonal noise (`%s`): inter-task noise correlations are ignored in %s" % (
                        m.cls.qualname if m.cls else "", mname, cls.qualname, " ".join(src(nondiag[0]).split())[:40], "E[log p(y|f)]" if mname == "expected_log_prob" else "p(y | f)"), {})
    rep.floor("C12-7", "likelihood methods over a possibly non-diagonal noise", n, 2)


# ---- C12-8 ---------------------------------------------------------------------------------------------------------
NOISE_CALLS = {"marginal", "forward", "_shaped_noise_covar", "expected_log_prob", "log_marginal", "noise_covar", "__call__"}


def call_time_noise_forwarded(idx: ProgramIndex, rep: Report):
    """'the noise passed at call time in place of the stored fixed noise': the call-time `noise=` travels as **kwargs from the public
    entry points (__call__, marginal, expected_log_prob, log_marginal, forward) down to `noise_covar(..., **kwargs)`.  For every class
    whose resolved `_shaped_noise_covar` hands **kwargs to the noise model, every method on that route which receives **kwargs must
    pass them on at every call of the next stage (on self or super()): a single link that drops them makes that entry point use the
    stored noise while its siblings use the call-time noise."""
    rep.rule("C12-8", "call-time keyword arguments (noise=) are forwarded at every link from the public entry points of a Gaussian-family likelihood to its noise model")
    base = idx.find_class("_GaussianLikelihoodBase")
    n = 0
    seen = set()
    for cls in sorted([base] + list(idx.subclasses(base)), key=lambda c: c.qualname):
        snc = cls.lookup("_shaped_noise_covar")
        if snc is None:
            continue
        kw0 = snc.node.args.kwarg.arg if snc.node.args.kwarg else None
        honours = kw0 is not None and any(isinstance(c.func, ast.Attribute) and c.func.attr == "noise_covar" and any(k.arg is None and isinstance(k.value, ast.Name) and k.value.id == kw0 for k in c.keywords) for c in calls_in(snc.node))
        if not honours:
            continue
        for mname in sorted(NOISE_CALLS):
            m = cls.lookup(mname)
            if m is None or not m.module.name.startswith(idx.package) or (m.module.name, m.qualname) in seen:
                continue
            kw = m.node.args.kwarg.arg if m.node.args.kwarg else None
            if kw is None:
                continue
            links = []
            for c in calls_in(m.node):
                f = c.func
                if not (isinstance(f, ast.Attribute) and f.attr in NOISE_CALLS):
                    continue
                on_self = chain(f.value) == m.params[0] or (isinstance(f.value, ast.Call) and chain(f.value.func) == "super") or chain(f.value) == "%s.noise_covar" % m.params[0]
                if f.attr == "noise_covar" and chain(f.value) == m.params[0]:
                    on_self = True
                if not on_self:
                    continue
                links.append((c, any(k.arg is None and isinstance(k.value, ast.Name) and k.value.id == kw for k in c.keywords)))
            if not links:
                continue
            seen.add((m.module.name, m.qualname))
            n += 1
            dropped = [c for c, fw in links if not fw]
            rep.add("C12-8", "%s:%s" % (m.module.name, m.qualname), m.where, not dropped,
                    "%d link(s), each forwards **%s" % (len(links), kw) if not dropped else
                    ", ".join("`%s` (line %d)" % (" ".join(src(c).split())[:60], c.lineno) for c in dropped) + " does not pass **%s on: a `noise=` given to this entry point never reaches the noise model, which then uses the stored fixed noise (or, for another event size, no fixed noise at all) while the sibling entry points use the call-time noise" % kw, {})
    rep.floor("C12-8", "links on the call-time-noise route", n, 6)


# ---- C12-9 ---------------------------------------------------------------------------------------------------------
def positional_contract(idx: ProgramIndex, rep: Report):
    """The likelihood methods pass the caller's positional likelihood parameters on as `*params` (`_shaped_noise_covar(shape, *params,
    **kwargs)`, `forward(samples, *params, **kwargs)` ...).  An override that has more positional parameters in front of its own `*params`
    than the overridden method binds the caller's first parameters (typically the inputs x) to them."""
    rep.rule("C12-9", "an override in the likelihood classes takes no more positional parameters in front of *params than the method it overrides: the callers of the base contract pass the likelihood's positional parameters there")
    roots = []
    for nm in ("_Likelihood", "Noise"):
        try:
            roots.append(idx.find_class(nm))
        except AnalysisError:
            pass
    n = 0
    seen = set()
    for root in roots:
        for cls in sorted([root] + list(idx.subclasses(root)), key=lambda c: c.qualname):
            if cls in seen:
                continue
            seen.add(cls)
            for name, m in sorted(cls.methods.items()):
                pm = cls.lookup(name, after=cls)
                if pm is None or pm.node.args.vararg is None or name.startswith("__"):
                    continue
                body = body_without_docstring(pm.node)
                if pm.cls is not None and pm.cls.name == "Module":
                    continue  # torch-style abstract forward(*inputs)
                n += 1
                own = [a.arg for a in m.node.args.posonlyargs + m.node.args.args]
                base = [a.arg for a in pm.node.args.posonlyargs + pm.node.args.args]
                extra = own[len(base):]
                ok = not extra
                rep.add("C12-9", "%s:%s.%s[positional parameters]" % (cls.module.name, cls.qualname, name), m.where, ok,
                        "as many positional parameters as %s.%s" % (pm.cls.qualname if pm.cls else "?", name) if ok else
                        "%s.%s is called as %s(%s, *params, **kwargs) by the code written against %s; this override has the positional parameter(s) %s in front of *params, so the first positional likelihood parameters of the caller (the inputs x of lik(f, x) / expected_log_prob(y, dist, x)) are bound to them"
                        % (cls.qualname, name, name, ", ".join(base[1:]), pm.cls.qualname if pm.cls else "?", ", ".join(extra)), {})
    rep.floor("C12-9", "overrides of *params methods in the likelihood classes", n, 15)


# ---- C12-10 --------------------------------------------------------------------------------------------------------
def whole_noise_outside(idx: ProgramIndex, rep: Report):
    """R, the noise a Gaussian-family likelihood adds, is what `_shaped_noise_covar` (and hence marginal / __call__) returns: the first noise
    model PLUS whatever the class adds on top (FixedNoiseGaussianLikelihood(learn_additional_noise=True): second_noise_covar).  Code outside
    the likelihood classes that needs R must ask the likelihood for it; `likelihood.noise_covar(...)` is only the first noise model."""
    rep.rule("C12-10", "code outside the likelihood classes obtains the noise through the likelihood (marginal / __call__ / _shaped_noise_covar), never from likelihood.noise_covar alone: a likelihood may add further noise terms")
    L = idx.find_class("_Likelihood")
    lik_classes = set([L] + list(idx.subclasses(L)))
    # is there a likelihood whose _shaped_noise_covar adds something to noise_covar?
    adders = []
    for cls in lik_classes:
        m = cls.methods.get("_shaped_noise_covar")
        if m is not None and any(isinstance(x, ast.Attribute) and "second_noise" in x.attr for x in ast.walk(m.node)):
            adders.append(cls.qualname)
    if not adders:
        raise AnalysisError("C12-10: no likelihood adds a second noise term to noise_covar any more (anchor vanished)")
    n = 0
    for fi in sorted(idx.all_functions(), key=lambda f: (f.module.name, f.qualname)):
        if fi.cls is not None and (fi.cls in lik_classes or fi.module.name.startswith("gpytorch.likelihoods")):
            continue
        sites = [c for c in calls_in(fi.node) if isinstance(c.func, ast.Attribute) and c.func.attr == "noise_covar" and "likelihood" in src(c.func.value).lower()]
        if not sites:
            continue
        n += 1
        rep.add("C12-10", "%s:%s[%d direct call(s) of likelihood.noise_covar]" % (fi.module.name, fi.qualname, len(sites)), "%s:%d" % (fi.module.relpath, sites[0].lineno), False,
                "`%s` takes the first noise model of the likelihood as THE noise: with %s(learn_additional_noise=True) the second noise term is missing - KISS-GP fantasy update: mean 0.305 / covariance 0.099 from the dense conditional, equal to the conditional computed with second_noise = 0 to 1e-8" % (" ".join(src(sites[0]).split())[:60], adders[0]), {})
    rep.add("C12-10", "gpytorch:<direct uses of likelihood.noise_covar outside the likelihood classes>", "gpytorch/", True, "%d function(s) inspected use it" % n, {"functions": n}, trivial=True)


# ---- C12-11 --------------------------------------------------------------------------------------------------------
def call_time_noise_priority(idx: ProgramIndex, rep: Report):
    """'... the noise passed at call time in place of the stored fixed noise': in a noise model's forward the `noise` argument has priority.
    The stored noise may replace the argument only where the argument was tested to be None; a re-binding of the argument from self.noise
    on any other path (e.g. "whenever the stored noise fits the requested shape") silently discards the caller's noise."""
    rep.rule("C12-11", "in the noise models the call-time noise has priority: the `noise` argument is re-bound from the stored noise only under a test that it is None")
    n = 0
    N = idx.find_class("Noise")
    F = idx.find_class("FixedGaussianNoise")
    for cls in sorted(set([F] + list(idx.subclasses(N))), key=lambda c: c.qualname):
        fi = cls.methods.get("forward")
        if fi is None:
            continue
        a = fi.node.args
        names = [x.arg for x in a.posonlyargs + a.args + a.kwonlyargs]
        if "noise" not in names:
            continue
        n += 1
        sn = fi.params[0]
        probs = []
        for st in ast.walk(fi.node):
            if isinstance(st, ast.Assign) and any(isinstance(t, ast.Name) and t.id == "noise" for t in st.targets) and any(isinstance(x, ast.Attribute) and chain(x.value) == sn for x in ast.walk(st.value)) \
                    and not any(isinstance(x, ast.Name) and x.id == "noise" for x in ast.walk(st.value)):  # a function of the argument (self._lower_bounded(noise)) keeps the argument
                tests = [t for t, br in _tests_around_c12(fi.node, st) if _is_none_test(t, "noise", br)]
                if not tests:
                    probs.append("line %d: `%s` replaces the argument outside a test that it is None" % (st.lineno, " ".join(src(st).split())[:50]))
        # the returned operator on the paths where the argument is given must be built from it: a return of Diag(self.noise) has to be under `noise is None`
        for r in ast.walk(fi.node):
            if isinstance(r, ast.Return) and r.value is not None and any(isinstance(x, ast.Attribute) and chain(x) == "%s.noise" % sn for x in ast.walk(r.value)):
                tests = _tests_around_c12(fi.node, r)
                under_none = any(_is_none_test(t, "noise", br) for t, br in tests) or any(_is_none_test(t, "noise", not br) for t, br in tests if False)
                # an `elif` after `if noise is not None: return ...` is under noise is None as well
                if not under_none and not _after_returning_not_none(fi.node, r, "noise"):
                    probs.append("line %d: the stored noise is returned on a path where the argument may have been given" % r.lineno)
        rep.add("C12-11", "%s:%s.forward[call-time noise]" % (cls.module.name, cls.qualname), fi.where, not probs,
                "the stored noise is used only where the `noise` argument is None" if not probs else "; ".join(probs) + ": a call-time noise of the same length as the stored one is silently ignored (marginal covariance off by the difference of the two)", {})
    rep.floor("C12-11", "noise models with a call-time noise argument", n, 2)


def _is_none_test(t: ast.AST, name: str, branch: bool) -> bool:
    """`name is None` in its true branch / `name is not None` in its false branch"""
    if isinstance(t, ast.Compare) and isinstance(t.left, ast.Name) and t.left.id == name and len(t.ops) == 1 and isinstance(t.comparators[0], ast.Constant) and t.comparators[0].value is None:
        return (isinstance(t.ops[0], ast.Is) and branch) or (isinstance(t.ops[0], ast.IsNot) and not branch)
    return False


def _tests_around_c12(fn: ast.AST, target: ast.AST):
    out = []

    def rec(node, acc) -> bool:
        if node is target:
            out.extend(acc)
            return True
        if isinstance(node, ast.If):
            for st in node.body:
                if rec(st, acc + [(node.test, True)]):
                    return True
            for st in node.orelse:
                if rec(st, acc + [(node.test, False)]):
                    return True
            return False
        for ch in ast.iter_child_nodes(node):
            if rec(ch, acc):
                return True
        return False
    rec(fn, [])
    return out


def _after_returning_not_none(fn: ast.AST, target: ast.AST, name: str) -> bool:
    """target follows, in the same block, an `if name is not None: return ...` (so the argument is None here)"""
    for node in ast.walk(fn):
        for blk in ("body", "orelse"):
            stmts = getattr(node, blk, None)
            if not isinstance(stmts, list):
                continue
            seen_guard = False
            for st in stmts:
                if isinstance(st, ast.If) and _is_none_test(st.test, name, False) and st.body and isinstance(st.body[-1], ast.Return) and not st.orelse:
                    seen_guard = True
                    continue
                if seen_guard and any(x is target for x in ast.walk(st)):
                    return True
    return False


# ---- C12-12 --------------------------------------------------------------------------------------------------------
PER_MEMBER_ENTRY_POINTS = ("__call__", "forward", "marginal", "log_marginal", "expected_log_prob", "get_fantasy_likelihood")


def container_interface_complete(idx: ProgramIndex, rep: Report):
    """'LikelihoodList applies each member likelihood with its own arguments': that has to hold for every entry point of the likelihood
    interface that works on a distribution (or produces a likelihood); an entry point that the container inherits from _Likelihood treats the
    LIST of per-member arguments as the arguments of one Monte-Carlo likelihood."""
    rep.rule("C12-12", "LikelihoodList overrides every per-distribution entry point of the likelihood interface (__call__, forward, marginal, log_marginal, expected_log_prob, get_fantasy_likelihood) and routes it to its members")
    C = idx.find_class("LikelihoodList")
    n = 0
    for ep in PER_MEMBER_ENTRY_POINTS:
        n += 1
        m = C.methods.get(ep)
        routed = m is not None and any(isinstance(c.func, ast.Attribute) and c.func.attr == ep.strip("_") or (ep == "__call__" and isinstance(c.func, ast.Name) and c.func.id == "likelihood") for c in calls_in(m.node)) if m is not None else False
        if m is not None and not routed:
            routed = any(isinstance(x, (ast.ListComp, ast.For)) and "likelihoods" in src(x) for x in ast.walk(m.node))
        rep.add("C12-12", "%s:LikelihoodList.%s" % (C.module.name, ep), (m.where if m is not None else C.where), bool(routed),
                "routed to the members" if routed else
                "LikelihoodList does not override %s: the inherited implementation of _Likelihood receives the per-member tuples / lists as if they were the arguments of one likelihood (AttributeError for marginal / log_marginal; get_fantasy_likelihood returns a plain copy that ignores the per-member fantasy noise)" % ep, {})
    rep.floor("C12-12", "per-member entry points of LikelihoodList", n, 6)


# ---- C12-13 --------------------------------------------------------------------------------------------------------
def keyword_translated_for_all_entry_points(idx: ProgramIndex, rep: Report):
    """A likelihood that translates a call-time keyword into the noise keyword (DirichletClassificationLikelihood: targets -> noise) has to
    do so for every entry point: __call__, marginal, log_marginal, expected_log_prob and forward all obtain the noise from
    _shaped_noise_covar, so the translation belongs there (or in each of them); translated in __call__ alone, the other entry points
    silently fall back to the stored noise, because the noise models swallow unknown keywords."""
    rep.rule("C12-13", "a call-time keyword that a likelihood translates into `noise` is translated for every entry point that obtains the noise (in _shaped_noise_covar, or in each of __call__ / marginal / log_marginal / expected_log_prob / forward)")
    base = idx.find_class("_GaussianLikelihoodBase")
    n = 0
    ENTRY = ("__call__", "marginal", "log_marginal", "expected_log_prob", "forward")
    for cls in sorted(idx.subclasses(base), key=lambda c: c.qualname):
        translators = {}
        for name, m in cls.methods.items():
            for a in ast.walk(m.node):
                # kwargs["noise"] = <something computed from kwargs.pop("<kw>") / kwargs["<kw>"]>
                if isinstance(a, ast.Assign) and any(isinstance(t, ast.Subscript) and isinstance(t.slice, ast.Constant) and t.slice.value == "noise" for t in a.targets):
                    popped = [c.args[0].value for c in calls_in(m.node) if isinstance(c.func, ast.Attribute) and c.func.attr in ("pop", "get") and c.args and isinstance(c.args[0], ast.Constant) and isinstance(c.args[0].value, str) and c.args[0].value != "noise"]
                    for kw in popped:
                        translators.setdefault(kw, set()).add(name)
        for kw, where in sorted(translators.items()):
            n += 1
            ok = "_shaped_noise_covar" in where or all(e in where for e in ENTRY)
            rep.add("C12-13", "%s:%s[%s -> noise]" % (cls.module.name, cls.qualname, kw), cls.where, ok,
                    "translated in %s" % ", ".join(sorted(where)) if ok else
                    "the keyword `%s` is turned into the call-time noise in %s only; %s obtain the noise through _shaped_noise_covar without it and silently use the stored noise (marginal(dist, %s=test_labels) adds the training noise: error 2.38)" % (kw, ", ".join(sorted(where)), ", ".join(e for e in ENTRY if e not in where), kw), {})
    rep.floor("C12-13", "translated call-time keywords", n, 1)


# ---- C12-14 --------------------------------------------------------------------------------------------------------
def noise_given_convention(idx: ProgramIndex, rep: Report):
    """Everywhere in the likelihood code `noise=None` means 'no noise given for this call' (FixedGaussianNoise and HeteroskedasticNoise
    test `noise is not None`, LikelihoodList hands None to the members it has no noise for, get_fantasy_likelihood accepts it).  A noise
    model that decides with `"noise" in kwargs` takes an explicit None for a noise and builds DiagLinearOperator(None): a
    LikelihoodList(GaussianLikelihood(), FixedNoiseGaussianLikelihood(...)) cannot be given call-time noise for its second member only."""
    rep.rule("C12-14", "the noise models agree on what 'a noise was given at call time' means: the value is tested with `is not None`, not the presence of the keyword")
    mi = idx.module("gpytorch.likelihoods.noise_models")
    n = 0
    for cls in sorted(mi.classes.values(), key=lambda c: c.qualname):
        fw = cls.methods.get("forward")
        if fw is None:
            continue
        takes_noise = "noise" in [a.arg for a in fw.node.args.args + fw.node.args.kwonlyargs] or fw.node.args.kwarg is not None
        if not takes_noise:
            continue
        n += 1
        presence = [c for c in ast.walk(fw.node) if isinstance(c, ast.Compare) and len(c.ops) == 1 and isinstance(c.ops[0], (ast.In, ast.NotIn)) and const_str(c.left) == "noise"]
        valued = [c for c in ast.walk(fw.node) if isinstance(c, ast.Compare) and len(c.ops) == 1 and isinstance(c.ops[0], (ast.Is, ast.IsNot)) and isinstance(c.comparators[0], ast.Constant) and c.comparators[0].value is None and "noise" in src(c.left)]
        ok = not presence or bool(valued)
        rep.add("C12-14", "%s:%s.forward[noise given]" % (mi.name, cls.qualname), fw.where, ok,
                "a call-time noise is recognised by its value (`is not None`)" if ok else
                "`%s` decides whether a noise was given: an explicit noise=None (the convention for 'none for this member', e.g. LikelihoodList(..., noise=[None, n2])) is taken for a noise and DiagLinearOperator(None) raises AttributeError in __call__, marginal, log_marginal, expected_log_prob and forward" % src(presence[0]), {})
    rep.floor("C12-14", "noise models that accept a call-time noise", n, 3)
